#!/usr/bin/env python3
"""Regenerates MANIFEST.json from props.d/*.json and not_applicable.json."""
import json, os, subprocess, sys
ROOT = os.path.dirname(os.path.abspath(__file__))
sys.path.insert(0, ROOT)
from props import PROPS
hooks_commits = []
try:
    out = subprocess.run(["git", "-C", "/repo", "log", "--format=%H %s"], stdout=subprocess.PIPE, text=True).stdout
    hooks_commits = [l.split()[0] for l in out.splitlines() if l.split(" ", 1)[1].startswith("verif:")]
except Exception:
    pass
baseline = ("cd /repo && cargo nextest run --workspace --no-fail-fast --tool-config-file pb:/w/lib/nextest.toml --profile pb "
            "--test-threads 8 --offline || cargo test --workspace --no-fail-fast --offline")
checks = []
for pid in sorted(PROPS):
    c = PROPS[pid]
    checks.append({
        "property_id": pid,
        "quick_cmd": "./check %s --tier quick" % pid,
        "thorough_cmd": "./check %s --tier thorough" % pid,
        "evidence_file": "/verif/evidence/%s.json" % pid,
        "replay_cmd_template": "./check %s --replay {path}" % pid,
        "engine": c.get("engine", ""),
        "level_claimed": {"category": c["level"], "text": c["level_text"], "design_ref": c.get("design_ref", "DESIGN.md §7")},
        "level_note": c["level_note"],
        "technique": c["technique"],
    })
na = []
p = os.path.join(ROOT, "not_applicable.json")
if os.path.exists(p):
    na = json.load(open(p))
na = [x for x in na if x["property_id"] not in PROPS]
m = {
    "version": 1,
    "setup_cmd": "./check --setup",
    "hooks": {
        "guard": "--cfg zipora_verif",
        "enable": "RUSTFLAGS=\"--cfg zipora_verif\" cargo build --offline --profile verif (run in /verif/harness by ./check; zipora is a path dependency on /repo)",
        "baseline_off_cmd": baseline,
        "source_commits": hooks_commits,
        "add_only": True,
    },
    "engines": [
        {"name": "E1 seq", "path": "harness/src/seq.rs", "serves_properties": [p for p in sorted(PROPS) if "E1" in PROPS[p].get("engine", "")],
         "kind_free_text": "explicit-state breadth-first search over operation histories of the real objects against reference models"},
        {"name": "E2 enumr", "path": "harness/src/enumr.rs", "serves_properties": [p for p in sorted(PROPS) if "E2" in PROPS[p].get("engine", "")],
         "kind_free_text": "bounded-exhaustive enumeration of input spaces (small scope + threshold grid) x configurations against reference functions"},
        {"name": "E3 sched", "path": "harness/src/sched.rs", "serves_properties": [p for p in sorted(PROPS) if "E3" in PROPS[p].get("engine", "")],
         "kind_free_text": "stateless pre-emption-bounded exploration of thread interleavings of the real code under a controlled scheduler (CHESS-style) via cfg(zipora_verif) schedule points"},
        {"name": "E4 crash", "path": "harness/src/crash.rs", "serves_properties": [p for p in sorted(PROPS) if "E4" in PROPS[p].get("engine", "")],
         "kind_free_text": "crash-point / torn-write / truncation enumeration over the recorded write log of real histories, each image reopened in a child process"},
        {"name": "E5 mutate", "path": "harness/src/mutate.rs", "serves_properties": [p for p in sorted(PROPS) if "E5" in PROPS[p].get("engine", "")],
         "kind_free_text": "exhaustive mutation enumeration (every truncation, byte substitution, length-field maximisation, all short strings) fed to the real parsers in isolated child processes"},
    ],
    "checks": checks,
    "not_applicable": na,
    "notes": "All checks are bounded-exhaustive explorations of the real code (see DESIGN.md). Known genuine defects of the unchanged tree are listed in known_findings.jsonl and printed as KNOWN-FINDING lines.",
}
json.dump(m, open(os.path.join(ROOT, "MANIFEST.json"), "w"), indent=1)
print("MANIFEST.json: %d checks, %d not_applicable" % (len(checks), len(na)))
