//! Common plumbing: arguments, the per-run context (counters, violations,
//! known-finding matching, journal), subject registry and `main_with`.

use serde::{Deserialize, Serialize};
use serde_json::{json, Value};
use std::collections::{BTreeMap, HashSet};
use std::hash::{Hash, Hasher};
use std::io::Write;
use std::path::PathBuf;
use std::sync::{Mutex, OnceLock};
use std::time::{Duration, Instant};

#[derive(Clone, Copy, Debug, PartialEq, Eq, PartialOrd, Ord)]
pub enum Tier {
    Quick,
    Thorough,
}

impl Tier {
    pub fn pick<T>(self, quick: T, thorough: T) -> T {
        match self {
            Tier::Quick => quick,
            Tier::Thorough => thorough,
        }
    }
    pub fn name(self) -> &'static str {
        self.pick("quick", "thorough")
    }
}

/// A failed oracle clause.
#[derive(Clone, Debug, Serialize, Deserialize)]
pub struct Fail {
    /// which sentence of the property failed (`get_mismatch`, `len`, `overlap`, `panic`, ...)
    pub clause: String,
    /// outcome class: a documented function of observable facts of the failing case
    pub class: String,
    /// human-readable detail (expected vs got)
    pub detail: String,
}

impl Fail {
    pub fn new(clause: &str, detail: impl Into<String>) -> Fail {
        Fail { clause: clause.to_string(), class: String::new(), detail: detail.into() }
    }
    pub fn with_class(mut self, class: impl Into<String>) -> Fail {
        self.class = class.into();
        self
    }
}

/// Convenience: `check!(cond, "clause", "fmt", args..)` → `return Err(Fail)`.
#[macro_export]
macro_rules! check {
    ($cond:expr, $clause:expr, $($fmt:tt)+) => {
        if !($cond) {
            return Err($crate::Fail::new($clause, format!($($fmt)+)));
        }
    };
}

/// Result of running one enumerated case.
#[derive(Clone, Debug)]
pub enum Outcome {
    /// the oracle held; `nontrivial` = the subject was exercised past its first early return;
    /// `class` = outcome class (counted in `distinct_outcomes`)
    Pass { nontrivial: bool, class: String },
    /// the property's precondition does not hold for this case (e.g. encode returned Err)
    Skip(String),
    Fail(Fail),
}

impl Outcome {
    pub fn pass(class: &str) -> Outcome {
        Outcome::Pass { nontrivial: true, class: class.to_string() }
    }
    pub fn trivial(class: &str) -> Outcome {
        Outcome::Pass { nontrivial: false, class: class.to_string() }
    }
    pub fn skip(why: &str) -> Outcome {
        Outcome::Skip(why.to_string())
    }
    pub fn fail(clause: &str, detail: impl Into<String>) -> Outcome {
        Outcome::Fail(Fail::new(clause, detail))
    }
}

#[derive(Clone, Debug)]
pub enum Verdict {
    Pass,
    Fail(Fail),
    Unreplayable(String),
}

#[derive(Clone, Debug, Serialize, Deserialize)]
pub struct Violation {
    pub subject: String,
    pub clause: String,
    pub class: String,
    pub witness: Value,
    pub detail: String,
}

/// One line of /verif/known_findings.jsonl (only `kind == "finding"` lines suppress anything).
#[derive(Clone, Debug, Serialize, Deserialize)]
pub struct Known {
    #[serde(default)]
    pub kind: String, // "finding" | "fixed"
    pub property: String,
    #[serde(default)]
    pub subject: String,
    #[serde(default)]
    pub clause: String,
    #[serde(default)]
    pub class: String,
    #[serde(default)]
    pub witness: Value,
    /// "embed": the finding's op list is a subsequence of the violating history;
    /// "class": same outcome class; both require equal subject and clause
    #[serde(default)]
    pub covers: String,
    #[serde(default)]
    pub note: String,
    #[serde(default)]
    pub id: String,
    #[serde(skip)]
    pub active: bool,
    #[serde(skip)]
    pub replay_detail: String,
    #[serde(skip)]
    pub hits: u64,
}

#[derive(Clone, Debug, Default, Serialize, Deserialize)]
pub struct SubjectStats {
    pub executions: u64,
    pub transitions: u64,
    pub nontrivial: u64,
    pub skipped: u64,
    pub violations: u64,
    pub violations_known: u64,
    pub cap_hit: bool,
    pub bound: String,
    pub outcomes: BTreeMap<String, u64>,
    pub extra: BTreeMap<String, u64>,
}

pub struct Args {
    pub property: String,
    pub tier: Tier,
    pub shard: usize,
    pub nshards: usize,
    pub out: Option<PathBuf>,
    pub known: Option<PathBuf>,
    pub replay: Option<PathBuf>,
    pub subject_filter: Option<String>,
    pub journal: Option<PathBuf>,
    pub time_cap_s: u64,
    pub seed: u64,
    pub list: bool,
    pub rest: Vec<String>,
}

pub struct Ctx {
    pub args: Args,
    pub tier: Tier,
    pub known: Vec<Known>,
    pub stats: BTreeMap<String, SubjectStats>,
    pub state_hashes: HashSet<u64>,
    pub case_hashes: HashSet<u64>,
    pub violations: Vec<Violation>,
    viol_counts: BTreeMap<(String, String, String), u64>,
    pub samples: BTreeMap<String, Vec<Value>>,
    pub machinery_errors: Vec<String>,
    pub start: Instant,
    pub deadline: Instant,
    unit_counter: usize,
    journal: Option<Journal>,
    pub scratch: PathBuf,
}

struct Journal {
    ptr: *mut u8,
    len: usize,
}

impl Journal {
    fn open(path: &PathBuf) -> Option<Journal> {
        use std::os::unix::io::AsRawFd;
        let len = 1 << 16;
        let f = std::fs::OpenOptions::new().read(true).write(true).create(true).truncate(true).open(path).ok()?;
        f.set_len(len as u64).ok()?;
        let ptr = unsafe {
            libc::mmap(std::ptr::null_mut(), len, libc::PROT_READ | libc::PROT_WRITE, libc::MAP_SHARED, f.as_raw_fd(), 0)
        };
        if ptr == libc::MAP_FAILED {
            return None;
        }
        Some(Journal { ptr: ptr as *mut u8, len })
    }
    fn write(&mut self, s: &[u8]) {
        let n = s.len().min(self.len - 9);
        unsafe {
            // length first set to 0 so that a torn record is never read as valid
            std::ptr::write_volatile(self.ptr as *mut u64, 0);
            std::ptr::copy_nonoverlapping(s.as_ptr(), self.ptr.add(8), n);
            std::ptr::write_volatile(self.ptr as *mut u64, n as u64);
        }
    }
}

pub const MAX_RECORDED_PER_CLASS: u64 = 3;

impl Ctx {
    pub fn new(args: Args) -> Ctx {
        let start = Instant::now();
        let deadline = start + Duration::from_secs(args.time_cap_s);
        let journal = args.journal.as_ref().and_then(Journal::open);
        let scratch = crate::util::make_scratch(&format!("{}-{}-{}", args.property, std::process::id(), args.shard));
        let tier = args.tier;
        Ctx {
            args,
            tier,
            known: Vec::new(),
            stats: BTreeMap::new(),
            state_hashes: HashSet::new(),
            case_hashes: HashSet::new(),
            violations: Vec::new(),
            viol_counts: BTreeMap::new(),
            samples: BTreeMap::new(),
            machinery_errors: Vec::new(),
            start,
            deadline,
            unit_counter: 0,
            journal,
            scratch,
        }
    }

    pub fn stats(&mut self, subject: &str) -> &mut SubjectStats {
        if !self.stats.contains_key(subject) {
            self.stats.insert(subject.to_string(), SubjectStats::default());
        }
        self.stats.get_mut(subject).unwrap()
    }

    /// Round-robin work-unit assignment: true iff this shard owns the next unit.
    pub fn take_unit(&mut self) -> bool {
        let i = self.unit_counter;
        self.unit_counter += 1;
        i % self.args.nshards == self.args.shard
    }

    pub fn out_of_time(&self) -> bool {
        Instant::now() >= self.deadline
    }

    /// Record which case is about to run, so that the driver can name it if the process dies.
    pub fn journal(&mut self, subject: &str, witness: &dyn Fn() -> Value) {
        if let Some(j) = self.journal.as_mut() {
            let v = json!({"subject": subject, "witness": witness()});
            j.write(v.to_string().as_bytes());
        }
    }

    pub fn journal_clear(&mut self) {
        if let Some(j) = self.journal.as_mut() {
            j.write(b"");
        }
    }

    pub fn add_state(&mut self, subject: &str, h: u64) {
        let mut s = std::collections::hash_map::DefaultHasher::new();
        subject.hash(&mut s);
        h.hash(&mut s);
        self.state_hashes.insert(s.finish());
    }

    /// insert an already subject-mixed hash (merging a child's report)
    pub fn add_case_hash_raw(&mut self, h: u64) {
        self.case_hashes.insert(h);
    }

    pub fn add_case_hash(&mut self, subject: &str, h: u64) {
        let mut s = std::collections::hash_map::DefaultHasher::new();
        subject.hash(&mut s);
        h.hash(&mut s);
        self.case_hashes.insert(s.finish());
    }

    pub fn add_sample(&mut self, subject: &str, sample: &dyn Fn() -> Value) {
        let e = self.samples.entry(subject.to_string()).or_default();
        if e.len() < 2 {
            e.push(sample());
        } else if e.len() == 2 {
            e.push(sample());
        } else {
            // keep first two and the latest
            e[2] = sample();
        }
    }

    fn covered_by(&mut self, v: &Violation) -> Option<usize> {
        for (i, k) in self.known.iter().enumerate() {
            if !k.active || k.kind != "finding" {
                continue;
            }
            if !subject_matches(&k.subject, &v.subject) || k.clause != v.clause {
                continue;
            }
            let ok = match k.covers.as_str() {
                "class" => k.class == v.class,
                "embed" => embeds(&k.witness, &v.witness),
                "exact" => k.witness == v.witness,
                _ => false,
            };
            if ok {
                return Some(i);
            }
        }
        None
    }

    /// Report a violation found by an engine.  Known findings are matched here.
    pub fn violation(&mut self, subject: &str, fail: &Fail, witness: Value) {
        self.violation_n(subject, fail, witness, 1)
    }

    /// Same, for `n` violations of one (clause, class) represented by one witness (used when a child process
    /// already grouped them).
    pub fn violation_n(&mut self, subject: &str, fail: &Fail, witness: Value, n: u64) {
        let v = Violation {
            subject: subject.to_string(),
            clause: fail.clause.clone(),
            class: fail.class.clone(),
            witness,
            detail: truncate(&fail.detail, 600),
        };
        if let Some(i) = self.covered_by(&v) {
            self.known[i].hits += n;
            self.stats(subject).violations_known += n;
            return;
        }
        self.stats(subject).violations += n;
        let key = (v.subject.clone(), v.clause.clone(), v.class.clone());
        let c = self.viol_counts.entry(key).or_insert(0);
        let before = *c;
        *c += n;
        if before < MAX_RECORDED_PER_CLASS {
            self.violations.push(v);
        }
    }

    pub fn machinery_error(&mut self, msg: String) {
        if self.machinery_errors.len() < 50 {
            self.machinery_errors.push(msg);
        }
    }

    pub fn write_report(&mut self) {
        self.write_report_inner(true)
    }

    /// The report so far, written after every subject (without the hash files): if a later subject takes the process
    /// down or makes it overrun its wall limit, the driver still has what the earlier subjects found.
    pub fn write_report_partial(&mut self) {
        self.write_report_inner(false)
    }

    fn write_report_inner(&mut self, final_report: bool) {
        let Some(out) = self.args.out.clone() else { return };
        let known: Vec<Value> = self
            .known
            .iter()
            .map(|k| {
                json!({"id": k.id, "kind": k.kind, "subject": k.subject, "clause": k.clause, "class": k.class, "covers": k.covers,
                       "active": k.active, "replay_detail": k.replay_detail, "hits": k.hits, "note": k.note, "witness": k.witness})
            })
            .collect();
        let viol_counts: Vec<Value> = self
            .viol_counts
            .iter()
            .map(|((s, c, k), n)| json!({"subject": s, "clause": c, "class": k, "count": n}))
            .collect();
        let rep = json!({
            "property": self.args.property,
            "tier": self.tier.name(),
            "shard": self.args.shard,
            "nshards": self.args.nshards,
            "seed": self.args.seed,
            "subjects": self.stats,
            "violations": self.violations,
            "violation_counts": viol_counts,
            "known": known,
            "samples": self.samples,
            "machinery_errors": self.machinery_errors,
            "wall_s": self.start.elapsed().as_secs_f64(),
            "partial": !final_report,
            "refusals": REFUSALS_SEEN.lock().unwrap_or_else(|e| e.into_inner()).iter().map(|((s, l), n)| json!([s, l, n])).collect::<Vec<_>>(),
        });
        let tmp = out.with_extension("tmp");
        std::fs::write(&tmp, serde_json::to_vec(&rep).unwrap()).expect("write report");
        std::fs::rename(&tmp, &out).expect("rename report");
        if final_report {
            write_hashes(&out.with_extension("states"), &self.state_hashes);
            write_hashes(&out.with_extension("cases"), &self.case_hashes);
        }
    }
}

impl Drop for Ctx {
    fn drop(&mut self) {
        let _ = std::fs::remove_dir_all(&self.scratch);
    }
}

fn write_hashes(path: &PathBuf, set: &HashSet<u64>) {
    let mut v: Vec<u64> = set.iter().copied().collect();
    v.sort_unstable();
    let mut bytes = Vec::with_capacity(v.len() * 8);
    for x in v {
        bytes.extend_from_slice(&x.to_le_bytes());
    }
    std::fs::write(path, bytes).expect("write hashes");
}

pub fn truncate(s: &str, n: usize) -> String {
    if s.len() <= n {
        s.to_string()
    } else {
        let mut e = n;
        while !s.is_char_boundary(e) {
            e -= 1;
        }
        format!("{}…", &s[..e])
    }
}

pub fn subject_matches(pattern: &str, subject: &str) -> bool {
    if let Some(p) = pattern.strip_suffix('*') {
        subject.starts_with(p)
    } else {
        pattern == subject
    }
}

/// `known.ops` is a subsequence of `viol.ops` (both `{"ops": [strings]}`); any other
/// fields present in the known witness (e.g. "config") must be equal.
pub fn embeds(known: &Value, viol: &Value) -> bool {
    let (Some(k), Some(v)) = (known.get("ops").and_then(|x| x.as_array()), viol.get("ops").and_then(|x| x.as_array())) else {
        return false;
    };
    if let Some(ko) = known.as_object() {
        for (key, val) in ko {
            if key != "ops" && viol.get(key) != Some(val) {
                return false;
            }
        }
    }
    let mut it = v.iter();
    'outer: for want in k {
        for have in it.by_ref() {
            if have == want {
                continue 'outer;
            }
        }
        return false;
    }
    true
}

// ------------------------------------------------------------------------------------------------


// ---------------------------------------------------------------------------------------------------------------------
// Refusal profile.  Several statements allow an operation to be REFUSED with an error ("put/remove returning Err leaves the
// model unchanged").  Taken alone that tolerance would accept a library that refuses everything.  The refusals the unchanged
// tree actually makes are therefore recorded once (`ZV_REFUSALS_RECORD=1`, tools/record_refusals.sh) as a set of
// (subject, label) pairs — the label is chosen by the harness: the operation and as much of the model state as decides whether
// refusing is legitimate — and committed as /verif/refusal_profile.json.  A check run tolerates exactly those; any other
// refusal is the clause `unexpected_refusal`.  The exploration is exhaustive within its bounds and deterministic, so the
// profile is complete for the explored space: a new pair can only come from a change of behaviour.

static REFUSAL_PROFILE: OnceLock<Option<HashSet<(String, String)>>> = OnceLock::new();
static REFUSALS_SEEN: Mutex<BTreeMap<(String, String), u64>> = Mutex::new(BTreeMap::new());

fn refusal_profile() -> &'static Option<HashSet<(String, String)>> {
    REFUSAL_PROFILE.get_or_init(|| {
        if std::env::var_os("ZV_REFUSALS_RECORD").is_some() {
            return None;
        }
        let path = std::env::var("ZV_REFUSALS").ok()?;
        let text = std::fs::read_to_string(path).ok()?;
        let v: Value = serde_json::from_str(&text).ok()?;
        let prop = std::env::var("ZV_PROPERTY").unwrap_or_default();
        let subjects = v.get(&prop)?.as_object()?;
        let mut set = HashSet::new();
        for (subj, labels) in subjects {
            for l in labels.as_array()? {
                set.insert((subj.clone(), l.as_str()?.to_string()));
            }
        }
        Some(set)
    })
}

/// Called by a harness at the point where it is about to tolerate a refusal (an `Err` the statement allows).
/// Ok(()) = tolerated (it is in the recorded profile of the unchanged tree, or no profile exists for this property);
/// Err = `unexpected_refusal`.
pub fn tolerate_refusal(subject: &str, label: &str, detail: &str) -> Result<(), Fail> {
    {
        let mut seen = REFUSALS_SEEN.lock().unwrap_or_else(|e| e.into_inner());
        *seen.entry((subject.to_string(), label.to_string())).or_insert(0) += 1;
    }
    match refusal_profile() {
        None => Ok(()),
        Some(set) => {
            if set.contains(&(subject.to_string(), label.to_string())) {
                Ok(())
            } else {
                Err(Fail::new("unexpected_refusal", format!("{label} was refused ({}); the unchanged library never refuses this operation in this state", truncate(detail, 160))).with_class(label.to_string()))
            }
        }
    }
}

pub trait Subject {
    fn name(&self) -> String;
    /// Enumerate the subject's bounded space, reporting into `ctx`.
    fn explore(&self, ctx: &mut Ctx);
    /// Re-run exactly one recorded witness without the explorer.
    fn replay(&self, ctx: &mut Ctx, witness: &Value) -> Verdict;
}

#[derive(Default)]
pub struct Registry {
    pub subjects: Vec<Box<dyn Subject>>,
}

impl Registry {
    pub fn add<S: Subject + 'static>(&mut self, s: S) {
        self.subjects.push(Box::new(s));
    }
}

fn parse_args(property: &str) -> Args {
    let mut a = Args {
        property: property.to_string(),
        tier: Tier::Quick,
        shard: 0,
        nshards: 1,
        out: None,
        known: None,
        replay: None,
        subject_filter: None,
        journal: None,
        time_cap_s: 3600,
        seed: 0,
        list: false,
        rest: Vec::new(),
    };
    let argv: Vec<String> = std::env::args().skip(1).collect();
    let mut i = 0;
    let next = |i: &mut usize| -> String {
        *i += 1;
        argv.get(*i).cloned().unwrap_or_else(|| {
            eprintln!("missing value for {}", argv[*i - 1]);
            std::process::exit(2)
        })
    };
    while i < argv.len() {
        match argv[i].as_str() {
            "--tier" => {
                a.tier = match next(&mut i).as_str() {
                    "quick" => Tier::Quick,
                    "thorough" => Tier::Thorough,
                    t => {
                        eprintln!("bad tier {t}");
                        std::process::exit(2)
                    }
                }
            }
            "--shard" => {
                let s = next(&mut i);
                let (x, y) = s.split_once('/').expect("--shard i/n");
                a.shard = x.parse().unwrap();
                a.nshards = y.parse().unwrap();
            }
            "--out" => a.out = Some(PathBuf::from(next(&mut i))),
            "--known" => a.known = Some(PathBuf::from(next(&mut i))),
            "--replay" => a.replay = Some(PathBuf::from(next(&mut i))),
            "--subject" => a.subject_filter = Some(next(&mut i)),
            "--journal" => a.journal = Some(PathBuf::from(next(&mut i))),
            "--time-cap" => a.time_cap_s = next(&mut i).parse().unwrap(),
            "--seed" => a.seed = next(&mut i).parse().unwrap_or(0),
            "--list" => a.list = true,
            other => a.rest.push(other.to_string()),
        }
        i += 1;
    }
    a
}

fn load_known(path: &PathBuf, property: &str) -> Vec<Known> {
    let Ok(text) = std::fs::read_to_string(path) else { return Vec::new() };
    let mut v = Vec::new();
    for (n, line) in text.lines().enumerate() {
        let line = line.trim();
        if line.is_empty() || line.starts_with('#') {
            continue;
        }
        match serde_json::from_str::<Known>(line) {
            Ok(mut k) => {
                if k.property == property {
                    if k.id.is_empty() {
                        k.id = format!("{}#{}", property, n + 1);
                    }
                    v.push(k);
                }
            }
            Err(e) => {
                eprintln!("known_findings line {}: {}", n + 1, e);
                std::process::exit(2);
            }
        }
    }
    v
}

/// Entry point of every property binary.
pub fn main_with(property: &str, build: impl FnOnce(&mut Registry, Tier)) {
    // (read by the refusal profile)
    unsafe { std::env::set_var("ZV_PROPERTY", property) };
    let args = parse_args(property);
    crate::util::install_quiet_panic_hook();
    crate::util::silence_stdout();
    let mut reg = Registry::default();
    build(&mut reg, args.tier);
    if args.list {
        for s in &reg.subjects {
            eprintln!("{}", s.name());
        }
        return;
    }
    let mut ctx = Ctx::new(args);

    // --replay: one witness, no explorer.  exit 1 if it fails, 0 if it passes, 2 if it cannot be run.
    if let Some(path) = ctx.args.replay.clone() {
        let text = std::fs::read_to_string(&path).unwrap_or_else(|e| {
            eprintln!("cannot read {}: {e}", path.display());
            std::process::exit(2)
        });
        let v: Value = serde_json::from_str(&text).unwrap_or_else(|e| {
            eprintln!("bad replay file: {e}");
            std::process::exit(2)
        });
        let subject = v.get("subject").and_then(|s| s.as_str()).unwrap_or("").to_string();
        let witness = v.get("witness").cloned().unwrap_or(Value::Null);
        let Some(s) = reg.subjects.iter().find(|s| s.name() == subject) else {
            eprintln!("REPLAY unknown subject {subject}");
            std::process::exit(2)
        };
        let verdict = s.replay(&mut ctx, &witness);
        let verdict2 = s.replay(&mut ctx, &witness);
        let code = match (&verdict, &verdict2) {
            (Verdict::Pass, Verdict::Pass) => {
                eprintln!("REPLAY pass subject={subject}");
                0
            }
            (Verdict::Fail(f), Verdict::Fail(g)) if f.clause == g.clause => {
                eprintln!("REPLAY fail subject={subject} clause={} class={} detail={}", f.clause, f.class, truncate(&f.detail, 400));
                1
            }
            (Verdict::Fail(_), Verdict::Pass) | (Verdict::Pass, Verdict::Fail(_)) => {
                // One replay failed, one passed.  Every replay executes the real code against the reference oracle, so a failing
                // replay is a real failing execution; what differs between the two is a choice the LIBRARY makes from a source
                // the harness does not own (a randomly keyed std HashMap deciding a tie, for instance).  Replay eight more
                // times: an intermittent failure that shows up again is reported as a failure (marked intermittent); one that
                // never returns is reported as not reproducible (machinery), not as a verdict.
                let mut fails: Vec<Fail> = Vec::new();
                for v in [&verdict, &verdict2] {
                    if let Verdict::Fail(f) = v {
                        fails.push(f.clone());
                    }
                }
                for _ in 0..8 {
                    if let Verdict::Fail(f) = s.replay(&mut ctx, &witness) {
                        fails.push(f);
                    }
                }
                if fails.len() >= 2 && fails.iter().all(|f| f.clause == fails[0].clause) {
                    let f = &fails[0];
                    eprintln!(
                        "REPLAY fail (intermittent: {} of 10 replays; the library's behaviour on this case is not a function of the case alone) subject={subject} clause={} class={} detail={}",
                        fails.len(),
                        f.clause,
                        f.class,
                        truncate(&f.detail, 400)
                    );
                    1
                } else {
                    eprintln!("REPLAY not reproducible: failed {} of 10 replays", fails.len());
                    2
                }
            }
            (a, b) => {
                eprintln!("REPLAY not reproducible or not replayable: {:?} / {:?}", a, b);
                2
            }
        };
        if let Some(out) = ctx.args.out.clone() {
            let j = match &verdict {
                Verdict::Pass => json!({"verdict": "pass"}),
                Verdict::Fail(f) => json!({"verdict": "fail", "clause": f.clause, "class": f.class, "detail": truncate(&f.detail, 600)}),
                Verdict::Unreplayable(m) => json!({"verdict": "unreplayable", "detail": m}),
            };
            let _ = std::fs::write(out, j.to_string());
        }
        drop(ctx);
        std::process::exit(code);
    }

    // Known findings: replay each listed witness first; only those that still fail suppress anything.
    if let Some(kpath) = ctx.args.known.clone() {
        let mut known = load_known(&kpath, property);
        for k in known.iter_mut() {
            if k.kind != "finding" {
                continue;
            }
            let candidates: Vec<&Box<dyn Subject>> = reg.subjects.iter().filter(|s| subject_matches(&k.subject, &s.name())).collect();
            if candidates.is_empty() {
                k.active = false;
                k.replay_detail = "subject not registered in this binary".into();
                continue;
            }
            // a finding with a subject glob is active iff its witness still fails (same clause) on at least one matching subject
            k.active = false;
            for s in candidates {
                match s.replay(&mut ctx, &k.witness) {
                    Verdict::Fail(f) => {
                        if f.clause == k.clause && (k.covers != "class" || k.class.is_empty() || k.class == f.class) {
                            k.active = true;
                            k.replay_detail = format!("{}: {}", s.name(), truncate(&f.detail, 300));
                            if k.covers == "class" && k.class.is_empty() {
                                k.class = f.class.clone();
                            }
                            break;
                        } else {
                            k.replay_detail = format!("{}: witness now fails differently: {}/{} ({})", s.name(), f.clause, f.class, truncate(&f.detail, 200));
                        }
                    }
                    Verdict::Pass => {
                        if k.replay_detail.is_empty() {
                            k.replay_detail = "witness no longer fails".into();
                        }
                    }
                    Verdict::Unreplayable(m) => {
                        if k.replay_detail.is_empty() {
                            k.replay_detail = format!("unreplayable: {m}");
                        }
                    }
                }
            }
        }
        ctx.known = known;
    }

    for s in &reg.subjects {
        if let Some(f) = &ctx.args.subject_filter {
            if !s.name().contains(f.as_str()) {
                continue;
            }
        }
        s.explore(&mut ctx);
        ctx.journal_clear();
        ctx.write_report_partial();
    }
    ctx.write_report();
    let _ = std::io::stderr().flush();
    drop(ctx);
    // some zipora subjects leave detached threads / TLS destructors behind: leave without running them twice
    std::process::exit(0);
}
