//! Small helpers: panic capture, stdout silencing, scratch directories, hex.

use crate::core::Fail;
use std::cell::RefCell;
use std::panic::{catch_unwind, AssertUnwindSafe};
use std::path::PathBuf;

thread_local! {
    static LAST_PANIC: RefCell<Option<(String, String)>> = const { RefCell::new(None) };
}

/// Panics are observations, not noise: record message + location per thread, print nothing.
pub fn install_quiet_panic_hook() {
    std::panic::set_hook(Box::new(|info| {
        let msg = if let Some(s) = info.payload().downcast_ref::<&str>() {
            s.to_string()
        } else if let Some(s) = info.payload().downcast_ref::<String>() {
            s.clone()
        } else {
            "<non-string panic>".to_string()
        };
        let loc = info.location().map(|l| format!("{}:{}", l.file(), l.line())).unwrap_or_default();
        let _ = LAST_PANIC.try_with(|p| {
            if let Ok(mut p) = p.try_borrow_mut() {
                *p = Some((msg, loc));
            }
        });
    }));
}

pub fn take_last_panic() -> (String, String) {
    LAST_PANIC
        .try_with(|p| p.borrow_mut().take())
        .ok()
        .flatten()
        .unwrap_or_else(|| ("<unknown>".into(), String::new()))
}

/// Strip the checkout prefix so that panic locations are stable identities.
pub fn short_loc(loc: &str) -> String {
    match loc.find("src/") {
        Some(i) if loc.starts_with("/repo/") || loc.starts_with('/') => loc[i..].to_string(),
        _ => loc.to_string(),
    }
}

/// Stable identity of a panic site: source file (no line number — lines shift with every edit of the file)
/// plus the message with every run of digits replaced by `N`.
pub fn panic_class(loc: &str, msg: &str) -> String {
    let loc = short_loc(loc);
    let file = match loc.rfind(".rs:") {
        Some(i) => &loc[..i + 3],
        None => &loc[..],
    };
    let mut norm = String::new();
    let mut in_digits = false;
    for ch in msg.chars().take(120) {
        if ch.is_ascii_digit() {
            if !in_digits {
                norm.push('N');
            }
            in_digits = true;
        } else {
            in_digits = false;
            norm.push(if ch == '\n' { ' ' } else { ch });
        }
    }
    format!("{file}: {norm}")
}

/// Run `f`, turning a panic into `Fail{clause:"panic", class:<file: normalised message>}`.
pub fn catch<T>(f: impl FnOnce() -> T) -> Result<T, Fail> {
    match catch_unwind(AssertUnwindSafe(f)) {
        Ok(v) => Ok(v),
        Err(_) => {
            let (msg, loc) = take_last_panic();
            let class = panic_class(&loc, &msg);
            let loc = short_loc(&loc);
            Err(Fail { clause: "panic".into(), class, detail: format!("panicked at {loc}: {msg}") })
        }
    }
}

/// zipora prints diagnostics to stdout from library code; send fd 1 to /dev/null.
pub fn silence_stdout() {
    unsafe {
        let fd = libc::open(b"/dev/null\0".as_ptr() as *const libc::c_char, libc::O_WRONLY);
        if fd >= 0 {
            libc::dup2(fd, 1);
            libc::close(fd);
        }
    }
}

pub fn scratch_root() -> PathBuf {
    let shm = PathBuf::from("/dev/shm");
    let base = if shm.is_dir() { shm } else { std::env::temp_dir() };
    base.join("zverif")
}

pub fn make_scratch(tag: &str) -> PathBuf {
    let p = scratch_root().join(tag);
    let _ = std::fs::remove_dir_all(&p);
    std::fs::create_dir_all(&p).expect("create scratch dir");
    p
}

pub fn hex(b: &[u8]) -> String {
    let mut s = String::with_capacity(b.len() * 2);
    for x in b {
        s.push_str(&format!("{:02x}", x));
    }
    s
}

pub fn unhex(s: &str) -> Option<Vec<u8>> {
    if s.len() % 2 != 0 {
        return None;
    }
    (0..s.len()).step_by(2).map(|i| u8::from_str_radix(&s[i..i + 2], 16).ok()).collect()
}

/// Short printable summary of a byte string for details/classes.
pub fn brief(b: &[u8]) -> String {
    if b.len() <= 24 {
        format!("[{}]{}", b.len(), hex(b))
    } else {
        format!("[{}]{}..{}", b.len(), hex(&b[..12]), hex(&b[b.len() - 4..]))
    }
}

/// Deterministic 64-bit hash of anything hashable (SipHash with fixed keys).
pub fn h64<T: std::hash::Hash + ?Sized>(t: &T) -> u64 {
    use std::hash::Hasher;
    let mut s = std::collections::hash_map::DefaultHasher::new();
    t.hash(&mut s);
    s.finish()
}

/// All strings over `alphabet` of length `0..=max_len`, shortest first, in alphabet order.
/// The callback returns `false` to stop; the function returns `false` if it was stopped.
pub fn all_strings<T: Clone>(alphabet: &[T], max_len: usize, f: &mut dyn FnMut(&[T]) -> bool) -> bool {
    for len in 0..=max_len {
        if len > 0 && alphabet.is_empty() {
            break;
        }
        let mut idx = vec![0usize; len];
        loop {
            let s: Vec<T> = idx.iter().map(|&i| alphabet[i].clone()).collect();
            if !f(&s) {
                return false;
            }
            let mut p = len;
            let mut done = true;
            while p > 0 {
                p -= 1;
                idx[p] += 1;
                if idx[p] < alphabet.len() {
                    done = false;
                    break;
                }
                idx[p] = 0;
            }
            if done {
                break;
            }
        }
    }
    true
}
