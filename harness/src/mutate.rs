//! E5 — malformed-input enumeration with process isolation.
//!
//! For every parser: a seed corpus of valid encodings; enumerated completely per seed: truncation at
//! every length, substitution of every byte by each of 8 hostile values, every 2/4/8-byte window
//! overwritten by length-field-maximising patterns (both endiannesses), appended garbage, every
//! plausible expected-length argument; plus all byte strings of length <= 2 and all strings of length
//! <= 4 over 8 hostile bytes.  Cases run in a forked child (RLIMIT_AS, progress watchdog): `Ok`/`Err`
//! are fine; a caught panic, an abort/signal, a timeout or a single allocation larger than
//! `64*(input_len + expected_len) + 1 MiB` is a violation.

use crate::alloc as zalloc;
use crate::core::{Ctx, Fail, Subject, Tier, Verdict};
use crate::util::{catch, h64, hex, unhex};
use serde::{Deserialize, Serialize};
use serde_json::{json, Value};
use std::collections::BTreeMap;
use std::time::{Duration, Instant};

pub struct Seed {
    pub label: String,
    pub bytes: Vec<u8>,
    /// the true decoded length n (0 if the parser takes no length argument)
    pub expected_len: usize,
}

pub trait MutSpec {
    fn name(&self) -> String;
    fn seeds(&self, tier: Tier) -> Vec<Seed>;
    /// Run the parser on `input` (with expected-length argument `arg` if it takes one).
    /// Return true for `Ok(_)`, false for `Err(_)`.  Must not catch panics itself.
    fn parse(&self, input: &[u8], arg: usize) -> bool;
    fn takes_len_arg(&self) -> bool {
        false
    }
    /// feed all byte strings of length <= 2 and all strings of length <= 4 over 8 hostile bytes
    fn small_strings(&self) -> bool {
        true
    }
    /// seeds longer than this get substitutions/windows only on their first 96 and last 32 bytes
    fn full_mutation_limit(&self) -> usize {
        384
    }
}

pub struct Mut<S: MutSpec>(pub S);

#[derive(Clone, Debug, Serialize, Deserialize)]
struct Case {
    desc: String,
    input: Vec<u8>,
    arg: usize,
    /// differs from its seed (or is a small string)
    mutated: bool,
}

/// Truncation lengths tried for a seed of `n` bytes: all of them up to 16 KiB; for longer seeds every length in the first
/// and the last 300 bytes, every multiple of 4096 with its two neighbours (chunk / page boundaries), and every 1021st length.
fn truncation_lengths(n: usize) -> Vec<usize> {
    if n <= 16 * 1024 {
        return (0..n).collect();
    }
    let mut v: Vec<usize> = (0..300).chain(n - 300..n).collect();
    let mut k = 4096;
    while k < n {
        v.extend([k - 1, k, k + 1]);
        k += 4096;
    }
    let mut k = 300;
    while k < n {
        v.push(k);
        k += 1021;
    }
    v.retain(|&x| x < n);
    v.sort_unstable();
    v.dedup();
    v
}

const HOSTILE: [u8; 8] = [0x00, 0x01, 0x7F, 0x80, 0xFE, 0xFF, 0x10, 0x41];

fn plausible_args(n: usize) -> Vec<usize> {
    let mut v = vec![0, 1, n.saturating_sub(1), n, n + 1, 2 * n, 64 * n + 4096];
    v.sort_unstable();
    v.dedup();
    v
}

fn enumerate<S: MutSpec>(spec: &S, tier: Tier, f: &mut dyn FnMut(Case) -> bool) {
    let takes = spec.takes_len_arg();
    for seed in spec.seeds(tier) {
        let n = seed.expected_len;
        let len = seed.bytes.len();
        let args = if takes { plausible_args(n) } else { vec![n] };
        // the unmutated seed with every plausible length argument
        for &a in &args {
            if !f(Case { desc: format!("{}:orig/arg={a}", seed.label), input: seed.bytes.clone(), arg: a, mutated: a != n }) {
                return;
            }
        }
        // every truncation (seeds over 16 KiB: see `truncation_lengths`), every plausible length argument
        for k in truncation_lengths(len) {
            for &a in &args {
                if !f(Case { desc: format!("{}:trunc({k})/arg={a}", seed.label), input: seed.bytes[..k].to_vec(), arg: a, mutated: true }) {
                    return;
                }
            }
        }
        let limit = spec.full_mutation_limit();
        let positions: Vec<usize> = if len <= limit { (0..len).collect() } else { (0..96).chain(len - 32..len).collect() };
        // substitution of every byte by up to 12 values
        for &i in &positions {
            let b = seed.bytes[i];
            // hostile extremes, the small values that enum-like / level-like header bytes take, and the neighbours of the byte itself
            let mut vals = vec![0x00, 0x01, 0x02, 0x03, 0x7F, 0x80, 0xFE, 0xFF, b ^ 0x01, b ^ 0x80, b.wrapping_add(1), b.wrapping_sub(1)];
            vals.sort_unstable();
            vals.dedup();
            for v in vals {
                if v == b {
                    continue;
                }
                let mut m = seed.bytes.clone();
                m[i] = v;
                if !f(Case { desc: format!("{}:subst({i},{v:#04x})", seed.label), input: m, arg: n, mutated: true }) {
                    return;
                }
            }
        }
        // length-field maximisation: every 2/4/8-byte window
        for w in [2usize, 4, 8] {
            if len < w {
                continue;
            }
            for &i in &positions {
                if i + w > len {
                    continue;
                }
                let mut pats: Vec<(String, Vec<u8>)> = Vec::new();
                pats.push(("ff".into(), vec![0xFF; w]));
                let mut p7 = vec![0xFF; w];
                p7[w - 1] = 0x7F;
                pats.push(("7f_le".into(), p7.clone()));
                p7.reverse();
                pats.push(("7f_be".into(), p7));
                let mut p8 = vec![0x00; w];
                p8[w - 1] = 0x80;
                pats.push(("80_le".into(), p8.clone()));
                p8.reverse();
                pats.push(("80_be".into(), p8));
                let l1 = (len as u64 + 1).to_le_bytes();
                pats.push(("len+1_le".into(), l1[..w].to_vec()));
                let mut l1b = l1[..w].to_vec();
                l1b.reverse();
                pats.push(("len+1_be".into(), l1b));
                for (pn, pat) in pats {
                    if seed.bytes[i..i + w] == pat[..] {
                        continue;
                    }
                    let mut m = seed.bytes.clone();
                    m[i..i + w].copy_from_slice(&pat);
                    if !f(Case { desc: format!("{}:window({i},{w},{pn})", seed.label), input: m, arg: n, mutated: true }) {
                        return;
                    }
                }
            }
        }
        // appended garbage
        for k in [1usize, 7, 4096] {
            let mut m = seed.bytes.clone();
            m.extend(std::iter::repeat(0xAA).take(k));
            if !f(Case { desc: format!("{}:append({k})", seed.label), input: m, arg: n, mutated: true }) {
                return;
            }
        }
    }
    if spec.small_strings() {
        let args: Vec<usize> = if takes { vec![0, 1, 64] } else { vec![0] };
        // all byte strings of length <= 2
        for &a in &args {
            if !f(Case { desc: format!("small:[]/arg={a}"), input: vec![], arg: a, mutated: true }) {
                return;
            }
            for x in 0..=255u8 {
                if !f(Case { desc: format!("small:[{x:02x}]/arg={a}"), input: vec![x], arg: a, mutated: true }) {
                    return;
                }
            }
            for x in 0..=255u8 {
                for y in 0..=255u8 {
                    if !f(Case { desc: format!("small:[{x:02x}{y:02x}]/arg={a}"), input: vec![x, y], arg: a, mutated: true }) {
                        return;
                    }
                }
            }
            // all strings of length 3..=4 over 8 hostile bytes
            for l in 3..=4usize {
                let mut idx = vec![0usize; l];
                loop {
                    let s: Vec<u8> = idx.iter().map(|&i| HOSTILE[i]).collect();
                    if !f(Case { desc: format!("small:[{}]/arg={a}", hex(&s)), input: s, arg: a, mutated: true }) {
                        return;
                    }
                    let mut p = l;
                    let mut done = true;
                    while p > 0 {
                        p -= 1;
                        idx[p] += 1;
                        if idx[p] < HOSTILE.len() {
                            done = false;
                            break;
                        }
                        idx[p] = 0;
                    }
                    if done {
                        break;
                    }
                }
            }
        }
    }
}

// ------------------------------------------------------------------------------------------------
// shared page between supervisor and child

#[repr(C)]
struct SharedPage {
    /// index (in this shard's own numbering) of the case that is about to run / running
    case_index: std::sync::atomic::AtomicU64,
    /// number of cases finished by this child
    done: std::sync::atomic::AtomicU64,
    /// counters of the current child (survive its death)
    executions: std::sync::atomic::AtomicU64,
    nontrivial: std::sync::atomic::AtomicU64,
    ok: std::sync::atomic::AtomicU64,
    err: std::sync::atomic::AtomicU64,
    capped: std::sync::atomic::AtomicU64,
    desc_len: std::sync::atomic::AtomicU64,
    desc: [u8; 3000],
}

fn map_shared() -> *mut SharedPage {
    let p = unsafe {
        libc::mmap(std::ptr::null_mut(), std::mem::size_of::<SharedPage>(), libc::PROT_READ | libc::PROT_WRITE, libc::MAP_SHARED | libc::MAP_ANONYMOUS, -1, 0)
    };
    assert!(p != libc::MAP_FAILED);
    p as *mut SharedPage
}

fn witness_of(c: &Case) -> Value {
    json!({"desc": c.desc, "input_hex": hex(&c.input), "arg": c.arg})
}

fn alloc_threshold(input_len: usize, arg: usize) -> usize {
    64usize.saturating_mul(input_len.saturating_add(arg)).saturating_add(1 << 20)
}

fn judge<S: MutSpec>(spec: &S, c: &Case) -> Result<bool, Fail> {
    zalloc::watch_allocations(true);
    let r = catch(|| spec.parse(&c.input, c.arg));
    let max = zalloc::max_single_allocation();
    zalloc::watch_allocations(false);
    let ok = r?;
    let thr = alloc_threshold(c.input.len(), c.arg);
    if max > thr {
        return Err(Fail::new(
            "alloc_blowup",
            format!("a single allocation of {max} bytes was requested while parsing {} input bytes (expected-length argument {}); threshold {thr}", c.input.len(), c.arg),
        )
        .with_class("single_allocation_proportional_to_unvalidated_length"));
    }
    Ok(ok)
}

impl<S: MutSpec> Mut<S> {
    /// Child side: run cases [start..) of this shard.  Nothing a child found may be lost when it dies on a
    /// later case: counters live in the shared page, every violation is appended to `<part>.viol` at once,
    /// case hashes are appended to `<part>.hashes` in small chunks.
    fn child_run(&self, ctx: &Ctx, page: *mut SharedPage, start: u64, part_path: &std::path::Path) {
        use std::io::Write;
        use std::sync::atomic::Ordering::SeqCst;
        let name = self.0.name();
        let nshards = ctx.args.nshards as u64;
        let shard = ctx.args.shard as u64;
        let offset = h64(&name) % nshards;
        let mut global_idx: u64 = 0;
        let mut my_idx: u64 = 0;
        let deadline = ctx.deadline;
        let empty_answer: Option<bool> = catch(|| self.0.parse(&[], 0)).ok();
        let mut viol_file = std::fs::OpenOptions::new().create(true).append(true).open(part_path.with_extension("viol")).ok();
        let mut hash_file = std::fs::OpenOptions::new().create(true).append(true).open(part_path.with_extension("hashes")).ok();
        let mut hash_buf: Vec<u8> = Vec::new();
        let mut samples: Vec<Value> = Vec::new();
        let p = unsafe { &*page };
        enumerate(&self.0, ctx.tier, &mut |c| {
            let mine = (global_idx + offset) % nshards == shard;
            global_idx += 1;
            if !mine {
                return true;
            }
            let idx = my_idx;
            my_idx += 1;
            if idx < start {
                return true;
            }
            if idx % 64 == 0 {
                if let Some(f) = hash_file.as_mut() {
                    let _ = f.write_all(&hash_buf);
                }
                hash_buf.clear();
                if Instant::now() >= deadline {
                    p.capped.store(1, SeqCst);
                    return false;
                }
            }
            // journal: which case is about to run
            unsafe {
                let d = c.desc.as_bytes();
                let wj = serde_json::to_vec(&witness_of(&c)).unwrap_or_default();
                let bytes = if wj.len() <= 3000 { &wj[..] } else { d };
                let n = bytes.len().min(3000);
                (*page).desc_len.store(0, SeqCst);
                std::ptr::copy_nonoverlapping(bytes.as_ptr(), (*page).desc.as_mut_ptr(), n);
                (*page).desc_len.store(n as u64, SeqCst);
                (*page).case_index.store(idx, SeqCst);
            }
            let out = judge(&self.0, &c);
            p.executions.fetch_add(1, SeqCst);
            match out {
                Ok(ok) => {
                    if ok {
                        p.ok.fetch_add(1, SeqCst);
                    } else {
                        p.err.fetch_add(1, SeqCst);
                    }
                    // non-trivial (counted conservatively): a mutant on which the parser's answer differs from its
                    // answer on the empty input, i.e. it got past its first early return
                    let nontrivial = c.mutated && Some(ok) != empty_answer;
                    if nontrivial {
                        p.nontrivial.fetch_add(1, SeqCst);
                        hash_buf.extend_from_slice(&h64(&(&name, &c.input, c.arg)).to_le_bytes());
                    }
                    if samples.len() < 2 {
                        samples.push(json!({"desc": c.desc, "len": c.input.len(), "arg": c.arg, "parser_returned": if ok {"Ok"} else {"Err"}}));
                        if samples.len() == 2 {
                            let _ = std::fs::write(part_path.with_extension("samples"), serde_json::to_vec(&samples).unwrap_or_default());
                        }
                    }
                }
                Err(f) => {
                    hash_buf.extend_from_slice(&h64(&(&name, &c.input, c.arg)).to_le_bytes());
                    if let Some(vf) = viol_file.as_mut() {
                        let line = json!({"clause": f.clause, "class": f.class, "detail": f.detail, "witness": witness_of(&c)});
                        let _ = writeln!(vf, "{}", line);
                    }
                }
            }
            p.done.store(idx + 1, SeqCst);
            true
        });
        if let Some(f) = hash_file.as_mut() {
            let _ = f.write_all(&hash_buf);
        }
    }

    fn merge_part(&self, ctx: &mut Ctx, page: *mut SharedPage, path: &std::path::Path) {
        use std::sync::atomic::Ordering::SeqCst;
        let name = self.0.name();
        let p = unsafe { &*page };
        let st = ctx.stats(&name);
        st.executions += p.executions.swap(0, SeqCst);
        st.nontrivial += p.nontrivial.swap(0, SeqCst);
        *st.outcomes.entry("ok".into()).or_insert(0) += p.ok.swap(0, SeqCst);
        *st.outcomes.entry("err".into()).or_insert(0) += p.err.swap(0, SeqCst);
        if p.capped.swap(0, SeqCst) != 0 {
            st.cap_hit = true;
        }
        if let Ok(bytes) = std::fs::read(path.with_extension("hashes")) {
            for c in bytes.chunks_exact(8) {
                ctx.add_case_hash_raw(u64::from_le_bytes(c.try_into().unwrap()));
            }
        }
        if let Ok(bytes) = std::fs::read(path.with_extension("samples")) {
            if let Ok(v) = serde_json::from_slice::<Vec<Value>>(&bytes) {
                for s in v {
                    ctx.add_sample(&name, &|| s.clone());
                }
            }
        }
        // group the violations by (clause, class)
        let mut groups: BTreeMap<(String, String), (u64, Vec<(Value, String)>)> = BTreeMap::new();
        if let Ok(text) = std::fs::read_to_string(path.with_extension("viol")) {
            for line in text.lines() {
                let Ok(v) = serde_json::from_str::<Value>(line) else { continue };
                let clause = v["clause"].as_str().unwrap_or("").to_string();
                let class = v["class"].as_str().unwrap_or("").to_string();
                let e = groups.entry((clause, class)).or_insert((0, Vec::new()));
                e.0 += 1;
                if e.1.len() < 3 {
                    e.1.push((v["witness"].clone(), v["detail"].as_str().unwrap_or("").to_string()));
                }
            }
        }
        for ((clause, class), (count, wits)) in groups {
            *ctx.stats(&name).outcomes.entry(format!("fail:{clause}:{class}")).or_insert(0) += count;
            let mut left = count;
            for (i, (w, detail)) in wits.iter().enumerate() {
                let n = if i + 1 == wits.len() { left } else { 1 };
                left -= n;
                ctx.violation_n(&name, &Fail { clause: clause.clone(), class: class.clone(), detail: detail.clone() }, w.clone(), n);
            }
        }
        for ext in ["viol", "hashes", "samples"] {
            let _ = std::fs::remove_file(path.with_extension(ext));
        }
    }
}

impl<S: MutSpec> Subject for Mut<S> {
    fn name(&self) -> String {
        self.0.name()
    }

    fn explore(&self, ctx: &mut Ctx) {
        use std::sync::atomic::Ordering::SeqCst;
        let name = self.name();
        ctx.stats(&name).bound = format!(
            "per seed: every truncation x plausible length args, every byte x 8 substitutions, every 2/4/8-byte window x 7 length-maximising patterns, appended garbage 1/7/4096{}; in a forked child under RLIMIT_AS 2 GiB with a 10 s progress watchdog",
            if self.0.small_strings() { "; plus all byte strings of length <= 2 and all strings of length <= 4 over 8 hostile bytes" } else { "" }
        );
        let page = map_shared();
        let mut start: u64 = 0;
        let mut part = 0u32;
        let mut crashes = 0u32;
        loop {
            let part_path = ctx.scratch.join(format!("part{}-{}.json", h64(&name), part));
            part += 1;
            unsafe {
                (*page).case_index.store(u64::MAX, SeqCst);
                (*page).done.store(start, SeqCst);
                (*page).desc_len.store(0, SeqCst);
                (*page).executions.store(0, SeqCst);
                (*page).nontrivial.store(0, SeqCst);
                (*page).ok.store(0, SeqCst);
                (*page).err.store(0, SeqCst);
                (*page).capped.store(0, SeqCst);
            }
            let pid = unsafe { libc::fork() };
            if pid < 0 {
                ctx.machinery_error(format!("{name}: fork failed"));
                return;
            }
            if pid == 0 {
                // child
                unsafe {
                    let lim = libc::rlimit { rlim_cur: 2 << 30, rlim_max: 2 << 30 };
                    libc::setrlimit(libc::RLIMIT_AS, &lim);
                    let core = libc::rlimit { rlim_cur: 0, rlim_max: 0 };
                    libc::setrlimit(libc::RLIMIT_CORE, &core);
                }
                // the child never returns into the caller's frames (its copy of Ctx must not be dropped: that would
                // delete the shard's scratch directory), not even by unwinding
                let r = std::panic::catch_unwind(std::panic::AssertUnwindSafe(|| self.child_run(ctx, page, start, &part_path)));
                unsafe { libc::_exit(if r.is_ok() { 0 } else { 3 }) };
            }
            // supervisor
            let mut last_done = unsafe { (*page).done.load(SeqCst) };
            let mut last_progress = Instant::now();
            let mut status: libc::c_int = 0;
            let mut timed_out = false;
            loop {
                let r = unsafe { libc::waitpid(pid, &mut status, libc::WNOHANG) };
                if r == pid {
                    break;
                }
                let d = unsafe { (*page).done.load(SeqCst) };
                if d != last_done {
                    last_done = d;
                    last_progress = Instant::now();
                } else if last_progress.elapsed() > Duration::from_secs(10) {
                    unsafe { libc::kill(pid, libc::SIGKILL) };
                    unsafe { libc::waitpid(pid, &mut status, 0) };
                    timed_out = true;
                    break;
                }
                std::thread::sleep(Duration::from_millis(5));
            }
            self.merge_part(ctx, page, &part_path);
            let exited_ok = !timed_out && libc::WIFEXITED(status) && libc::WEXITSTATUS(status) == 0;
            if exited_ok {
                break;
            }
            if !timed_out && libc::WIFEXITED(status) && libc::WEXITSTATUS(status) == 3 && unsafe { (*page).case_index.load(SeqCst) } == u64::MAX {
                ctx.machinery_error(format!("{name}: the child panicked outside any case (seed construction?)"));
                break;
            }
            // the child died or hung: which case?
            let idx = unsafe { (*page).case_index.load(SeqCst) };
            let n = unsafe { (*page).desc_len.load(SeqCst) } as usize;
            let desc_bytes: Vec<u8> = unsafe { (&(*page).desc)[..n.min(3000)].to_vec() };
            let how = if timed_out {
                "timeout_10s".to_string()
            } else if libc::WIFSIGNALED(status) {
                format!("signal_{}", libc::WTERMSIG(status))
            } else {
                format!("exit_{}", libc::WEXITSTATUS(status))
            };
            if idx == u64::MAX {
                ctx.machinery_error(format!("{name}: child died ({how}) before running any case"));
                break;
            }
            let witness: Value = serde_json::from_slice(&desc_bytes).unwrap_or_else(|_| json!({"desc": String::from_utf8_lossy(&desc_bytes)}));
            let clause = if timed_out { "timeout" } else { "crash" };
            let f = Fail { clause: clause.into(), class: how.clone(), detail: format!("the child process running this case ended with {how} (abort, stack overflow, out-of-memory under RLIMIT_AS 2 GiB, or no progress for 10 s)") };
            ctx.stats(&name).executions += 1;
            *ctx.stats(&name).outcomes.entry(format!("fail:{clause}:{how}")).or_insert(0) += 1;
            ctx.violation(&name, &f, witness);
            crashes += 1;
            if crashes > 200 {
                ctx.machinery_error(format!("{name}: more than 200 child crashes; giving up on the rest of this subject's space"));
                ctx.stats(&name).cap_hit = true;
                break;
            }
            start = idx + 1;
        }
        unsafe { libc::munmap(page as *mut libc::c_void, std::mem::size_of::<SharedPage>()) };
    }

    fn replay(&self, _ctx: &mut Ctx, witness: &Value) -> Verdict {
        let Some(hx) = witness.get("input_hex").and_then(|h| h.as_str()) else {
            return Verdict::Unreplayable("witness has no input_hex".into());
        };
        let Some(input) = unhex(hx) else { return Verdict::Unreplayable("bad hex".into()) };
        let arg = witness.get("arg").and_then(|a| a.as_u64()).unwrap_or(0) as usize;
        let c = Case { desc: witness.get("desc").and_then(|d| d.as_str()).unwrap_or("").to_string(), input, arg, mutated: true };
        // isolated: the case may abort or hang
        let mut fds = [0 as libc::c_int; 2];
        if unsafe { libc::pipe(fds.as_mut_ptr()) } != 0 {
            return Verdict::Unreplayable("pipe failed".into());
        }
        let pid = unsafe { libc::fork() };
        if pid < 0 {
            return Verdict::Unreplayable("fork failed".into());
        }
        if pid == 0 {
            unsafe {
                libc::close(fds[0]);
                let lim = libc::rlimit { rlim_cur: 2 << 30, rlim_max: 2 << 30 };
                libc::setrlimit(libc::RLIMIT_AS, &lim);
                let core = libc::rlimit { rlim_cur: 0, rlim_max: 0 };
                libc::setrlimit(libc::RLIMIT_CORE, &core);
            }
            let code = match judge(&self.0, &c) {
                Ok(_) => 0,
                Err(f) => {
                    let j = serde_json::to_vec(&f).unwrap_or_default();
                    unsafe { libc::write(fds[1], j.as_ptr() as *const libc::c_void, j.len()) };
                    1
                }
            };
            unsafe { libc::_exit(code) };
        }
        unsafe { libc::close(fds[1]) };
        let t0 = Instant::now();
        let mut status: libc::c_int = 0;
        let mut timed_out = false;
        loop {
            let r = unsafe { libc::waitpid(pid, &mut status, libc::WNOHANG) };
            if r == pid {
                break;
            }
            if t0.elapsed() > Duration::from_secs(12) {
                unsafe { libc::kill(pid, libc::SIGKILL) };
                unsafe { libc::waitpid(pid, &mut status, 0) };
                timed_out = true;
                break;
            }
            std::thread::sleep(Duration::from_millis(2));
        }
        let mut buf = vec![0u8; 8192];
        let n = unsafe { libc::read(fds[0], buf.as_mut_ptr() as *mut libc::c_void, buf.len()) };
        unsafe { libc::close(fds[0]) };
        if timed_out {
            return Verdict::Fail(Fail { clause: "timeout".into(), class: "timeout_10s".into(), detail: "no answer within 12 s".into() });
        }
        if libc::WIFSIGNALED(status) {
            let how = format!("signal_{}", libc::WTERMSIG(status));
            return Verdict::Fail(Fail { clause: "crash".into(), class: how.clone(), detail: format!("child ended with {how}") });
        }
        match libc::WEXITSTATUS(status) {
            0 => Verdict::Pass,
            1 => match serde_json::from_slice::<Fail>(&buf[..n.max(0) as usize]) {
                Ok(f) => Verdict::Fail(f),
                Err(_) => Verdict::Unreplayable("child reported a failure but no detail".into()),
            },
            c => Verdict::Fail(Fail { clause: "crash".into(), class: format!("exit_{c}"), detail: format!("child exited with status {c}") }),
        }
    }
}
