//! Tracking global allocator for the schedule-exploration binaries.
//!
//! While `set_quarantine(true)`, freed blocks are poisoned and *kept* (never handed back to the
//! system allocator), so that (a) a stale read through a dangling pointer is harmless for the
//! harness process and (b) `is_dead(addr)` can tell the monitor that a pointer about to be
//! dereferenced points into freed memory (use-after-free oracle).  `release_quarantine()` frees
//! everything that was parked (called between executions).

use std::alloc::{GlobalAlloc, Layout, System};
use std::sync::atomic::{AtomicBool, AtomicUsize, Ordering};

pub struct TrackingAlloc;

const CAP: usize = 1 << 16;
const MAX_TRACKED_SIZE: usize = 1 << 14;

struct Slot {
    ptr: AtomicUsize,
    size: AtomicUsize,
    align: AtomicUsize,
}

#[allow(clippy::declare_interior_mutable_const)]
const EMPTY: Slot = Slot { ptr: AtomicUsize::new(0), size: AtomicUsize::new(0), align: AtomicUsize::new(0) };
static SLOTS: [Slot; CAP] = [EMPTY; CAP];
static LEN: AtomicUsize = AtomicUsize::new(0);
static ON: AtomicBool = AtomicBool::new(false);
static LOCK: AtomicBool = AtomicBool::new(false);

fn lock() {
    while LOCK.compare_exchange_weak(false, true, Ordering::Acquire, Ordering::Relaxed).is_err() {
        std::hint::spin_loop();
    }
}
fn unlock() {
    LOCK.store(false, Ordering::Release);
}

static WATCH: AtomicBool = AtomicBool::new(false);
static MAX_SINGLE: AtomicUsize = AtomicUsize::new(0);

/// Start recording the largest single allocation request (E5 `alloc_blowup` clause).
pub fn watch_allocations(on: bool) {
    MAX_SINGLE.store(0, Ordering::Relaxed);
    WATCH.store(on, Ordering::SeqCst);
}
pub fn max_single_allocation() -> usize {
    MAX_SINGLE.load(Ordering::Relaxed)
}
#[inline]
fn note(size: usize) {
    if WATCH.load(Ordering::Relaxed) {
        MAX_SINGLE.fetch_max(size, Ordering::Relaxed);
    }
}

pub fn set_quarantine(on: bool) {
    ON.store(on, Ordering::SeqCst);
}

/// Is `addr` inside a block that was freed while quarantine was on (and not yet released)?
pub fn is_dead(addr: usize) -> bool {
    lock();
    let n = LEN.load(Ordering::Relaxed);
    let mut dead = false;
    for s in SLOTS.iter().take(n) {
        let p = s.ptr.load(Ordering::Relaxed);
        if p != 0 && addr >= p && addr < p + s.size.load(Ordering::Relaxed).max(1) {
            dead = true;
            break;
        }
    }
    unlock();
    dead
}

pub fn quarantined() -> usize {
    LEN.load(Ordering::Relaxed)
}

/// Free every parked block for real.
pub fn release_quarantine() {
    lock();
    let n = LEN.load(Ordering::Relaxed);
    for s in SLOTS.iter().take(n) {
        let p = s.ptr.swap(0, Ordering::Relaxed);
        if p != 0 {
            let layout = unsafe { Layout::from_size_align_unchecked(s.size.load(Ordering::Relaxed), s.align.load(Ordering::Relaxed)) };
            unsafe { System.dealloc(p as *mut u8, layout) };
        }
    }
    LEN.store(0, Ordering::Relaxed);
    unlock();
}

unsafe impl GlobalAlloc for TrackingAlloc {
    unsafe fn alloc(&self, layout: Layout) -> *mut u8 {
        note(layout.size());
        unsafe { System.alloc(layout) }
    }
    unsafe fn alloc_zeroed(&self, layout: Layout) -> *mut u8 {
        note(layout.size());
        unsafe { System.alloc_zeroed(layout) }
    }
    unsafe fn realloc(&self, ptr: *mut u8, layout: Layout, new_size: usize) -> *mut u8 {
        note(new_size);
        if ON.load(Ordering::Relaxed) && layout.size() <= MAX_TRACKED_SIZE {
            // realloc = alloc + copy + (quarantined) free, so that the old block stays dead
            let new_layout = unsafe { Layout::from_size_align_unchecked(new_size, layout.align()) };
            let np = unsafe { System.alloc(new_layout) };
            if !np.is_null() {
                unsafe { std::ptr::copy_nonoverlapping(ptr, np, layout.size().min(new_size)) };
                unsafe { self.dealloc(ptr, layout) };
            }
            np
        } else {
            unsafe { System.realloc(ptr, layout, new_size) }
        }
    }
    unsafe fn dealloc(&self, ptr: *mut u8, layout: Layout) {
        if ON.load(Ordering::Relaxed) && layout.size() <= MAX_TRACKED_SIZE && layout.size() > 0 {
            lock();
            let n = LEN.load(Ordering::Relaxed);
            if n < CAP {
                SLOTS[n].ptr.store(ptr as usize, Ordering::Relaxed);
                SLOTS[n].size.store(layout.size(), Ordering::Relaxed);
                SLOTS[n].align.store(layout.align(), Ordering::Relaxed);
                LEN.store(n + 1, Ordering::Relaxed);
                unlock();
                unsafe { std::ptr::write_bytes(ptr, 0xDD, layout.size()) };
                return;
            }
            unlock();
        }
        unsafe { System.dealloc(ptr, layout) }
    }
}
