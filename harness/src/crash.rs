//! E4 — crash-point and torn-write enumeration over a recorded write log.
//!
//! A history runs on the real write path while the binary's interposed libc entry points (see
//! `wlog_shim.rs`, included by the binary) log every create/truncate/write/fsync/unlink/rename under
//! a scratch directory.  From the log the engine builds the disk images a crash could leave (block
//! model: for every prefix of the log, writes after the last fsync of their file are unsynced; each
//! unsynced write is split into sectors and subsets of unsynced sectors are dropped), plus every
//! truncation length of every final file.  Each image is reopened **in a forked child**; the result
//! must be an error or the logical content of some sync point reached so far.

use crate::core::{Ctx, Fail, Subject, Tier, Verdict};
use crate::util::{catch, h64};
use serde::{Deserialize, Serialize};
use serde_json::{json, Value};
use std::collections::{BTreeMap, HashSet};
use std::path::{Path, PathBuf};
use std::time::{Duration, Instant};

/// Log operation (mirror of the shim's `Op`, so that the library crate does not depend on the shim).
#[derive(Clone, Debug, PartialEq, Serialize, Deserialize)]
pub enum LogOp {
    Create { path: String, trunc: bool },
    Write { path: String, offset: u64, data: Vec<u8> },
    Truncate { path: String, len: u64 },
    Sync { path: String },
    Unlink { path: String },
    Rename { from: String, to: String },
    Mkdir { path: String },
}

/// What the binary's shim exposes to the engine.
pub struct ShimApi {
    pub start: fn(prefix: &str),
    /// returns (ops, unsupported notes)
    pub stop: fn() -> (Vec<LogOp>, Vec<String>),
    pub position: fn() -> usize,
}

pub struct Recorder<'a> {
    api: &'a ShimApi,
    /// (log position, logical state) after each acknowledged sync/finish AND after every other mutating
    /// operation of the history (the library may sync internally — e.g. while growing — so every
    /// operation-boundary content is "a state that was valid at some earlier sync point")
    pub sync_points: Vec<(usize, Vec<u8>)>,
    /// how many of them were explicit, acknowledged syncs
    pub acknowledged: usize,
    /// indices into `sync_points` of the explicit, acknowledged syncs / finishes
    pub explicit: Vec<usize>,
}

impl Recorder<'_> {
    /// call after every acknowledged sync/finish with the logical content obtained through the public read API
    pub fn sync_point(&mut self, logical_state: Vec<u8>) {
        self.explicit.push(self.sync_points.len());
        self.sync_points.push(((self.api.position)(), logical_state));
        self.acknowledged += 1;
    }
    /// call after every other mutating operation (push, put, remove, ...) with the logical content
    pub fn op_boundary(&mut self, logical_state: Vec<u8>) {
        self.sync_points.push(((self.api.position)(), logical_state));
    }
}

pub trait CrashSpec {
    fn name(&self) -> String;
    fn describe(&self) -> String;
    /// Run the history in `dir` (fresh, empty). Call `rec.sync_point(state)` after each acknowledged sync.
    fn run_history(&self, dir: &Path, rec: &mut Recorder) -> Result<(), String>;
    /// Reopen whatever is in `dir` and read everything: Err = refused, Ok(state) = logical content.
    fn reopen(&self, dir: &Path) -> Result<Vec<u8>, String>;
    /// Called (in the same child) after `reopen` succeeded on an image: keep USING the recovered structure — a few
    /// more operations, another sync, another reopen — and return Err(description) if it then misbehaves
    /// (crash-recovered states are non-initial start states for further histories).
    fn after_reopen(&self, _dir: &Path) -> Result<(), String> {
        Ok(())
    }
    /// Is the logical content `got` (from `reopen`) the content `sync` recorded at a sync point?  Default: byte equality.
    /// A spec whose structure verifies per-record checksums lazily may accept a content in which some records of
    /// `sync` are REFUSED (read returns an error) — damage that is detected and refused at record granularity is a
    /// refusal in the sense of the property; a record that is served must always be byte-identical.
    fn same_state(&self, got: &[u8], sync: &[u8]) -> bool {
        got == sync
    }
    /// sector sizes used to tear unsynced writes
    fn sector_sizes(&self, tier: Tier) -> Vec<usize> {
        tier.pick(vec![512], vec![512, 64])
    }
    /// true for a format that carries checksums over its payload: every image of the FINAL file with one sector reading as
    /// zeros (never written / lost) is reopened as well and must be refused — as a whole or record by record.  This is damage
    /// to a finished file ("damaged files are refused"), independent of how atomically the writer works.
    fn lost_sector_images(&self) -> bool {
        false
    }
}

pub struct Crash<S: CrashSpec> {
    pub spec: S,
    pub shim: &'static ShimApi,
}

type Files = BTreeMap<String, Vec<u8>>;

fn apply(files: &mut Files, op: &LogOp) {
    match op {
        LogOp::Create { path, trunc } => {
            let e = files.entry(path.clone()).or_default();
            if *trunc {
                e.clear();
            }
        }
        LogOp::Write { path, offset, data } => {
            let e = files.entry(path.clone()).or_default();
            let end = *offset as usize + data.len();
            if e.len() < end {
                e.resize(end, 0);
            }
            e[*offset as usize..end].copy_from_slice(data);
        }
        LogOp::Truncate { path, len } => {
            let e = files.entry(path.clone()).or_default();
            e.resize(*len as usize, 0);
        }
        LogOp::Sync { .. } | LogOp::Mkdir { .. } => {}
        LogOp::Unlink { path } => {
            files.remove(path);
        }
        LogOp::Rename { from, to } => {
            if let Some(v) = files.remove(from) {
                files.insert(to.clone(), v);
            }
        }
    }
}

fn materialize(dir: &Path, files: &Files, dirs: &[String]) -> std::io::Result<()> {
    let _ = std::fs::remove_dir_all(dir);
    std::fs::create_dir_all(dir)?;
    for d in dirs {
        std::fs::create_dir_all(dir.join(d))?;
    }
    for (p, content) in files {
        let full = dir.join(p);
        if let Some(parent) = full.parent() {
            std::fs::create_dir_all(parent)?;
        }
        std::fs::write(full, content)?;
    }
    Ok(())
}

fn read_tree(dir: &Path, base: &Path, out: &mut Files) {
    if let Ok(rd) = std::fs::read_dir(dir) {
        for e in rd.flatten() {
            let p = e.path();
            if p.is_dir() {
                read_tree(&p, base, out);
            } else if let Ok(c) = std::fs::read(&p) {
                out.insert(p.strip_prefix(base).unwrap().to_string_lossy().into_owned(), c);
            }
        }
    }
}

#[derive(Clone, Debug, Serialize, Deserialize)]
struct ImageDesc {
    /// number of log operations applied
    prefix: usize,
    sector: usize,
    /// indices (into the list of unsynced sector-writes at this prefix) that were DROPPED
    dropped: Vec<usize>,
    /// (file, length) if this image is a truncation of the final state
    truncate: Option<(String, usize)>,
    kind: String,
    /// 0: an unsynced truncation (O_TRUNC re-creation, ftruncate) of a file is durable at once and a dropped sector reads as
    ///    zeros (the file system's own consistency: journalled metadata);
    /// 1: the truncation itself is among the things that did not reach the disk: under every dropped sector the bytes the file
    ///    held BEFORE it was truncated show through ("rollback of a block to its pre-write content");
    /// 2: as 1, and the old file length is kept as well (old tail after the new bytes).
    #[serde(default)]
    underlay: u8,
    /// (file, offset, length): this range of the final file reads as zeros — a sector that was never written / was lost
    /// (only for specs whose format promises to detect it, see `CrashSpec::lost_sector_images`)
    #[serde(default)]
    zeroed: Option<(String, usize, usize)>,
}

struct SectorWrite {
    path: String,
    offset: u64,
    data: Vec<u8>,
}

/// state of the files at `prefix` with the given unsynced sector-writes dropped
fn build_image(log: &[LogOp], prefix: usize, sector: usize, dropped: &HashSet<usize>) -> (Files, usize) {
    let (f, ids) = build_image_ids(log, prefix, sector, dropped);
    (f, ids.len())
}

/// Feasibility of a torn image.  The unsynced writes that touch one sector reach the disk cumulatively (they modify the same
/// cached block, which is written back as a whole): the sector's on-disk content is its content after some PREFIX of those
/// writes.  A descriptor that drops a write but keeps a later write to the same sector describes no image a crash can
/// leave; `close_dropped` turns any dropped-set into the feasible one that rolls each touched sector back to the state before
/// its first dropped write (different sectors stay independent).
fn close_dropped(ids: &[(String, u64)], dropped: &[usize]) -> Vec<usize> {
    let mut first: BTreeMap<&(String, u64), usize> = BTreeMap::new();
    for &k in dropped {
        if k < ids.len() {
            let e = first.entry(&ids[k]).or_insert(k);
            if k < *e {
                *e = k;
            }
        }
    }
    (0..ids.len()).filter(|k| first.get(&ids[*k]).map(|f| k >= f).unwrap_or(false)).collect()
}

/// as `build_image`; additionally the (file, sector number) of every unsynced sector-write, in log order
fn build_image_ids(log: &[LogOp], prefix: usize, sector: usize, dropped: &HashSet<usize>) -> (Files, Vec<(String, u64)>) {
    let (f, ids, _) = build_image_full(log, prefix, sector, dropped, 0);
    (f, ids)
}

/// as `build_image_ids` with an `underlay` mode (see `ImageDesc::underlay`); the third result says whether any file had
/// content that an unsynced truncation removed (only then do modes 1 and 2 differ from mode 0)
fn build_image_full(log: &[LogOp], prefix: usize, sector: usize, dropped: &HashSet<usize>, underlay: u8) -> (Files, Vec<(String, u64)>, bool) {
    let mut ids: Vec<(String, u64)> = Vec::new();
    // per file: its bytes right before the FIRST unsynced truncation within the prefix
    let mut old: Files = Files::new();
    // per file: the byte ranges of dropped sector-writes
    let mut holes: Vec<(String, usize, usize)> = Vec::new();
    // find, per file, the index of its last Sync within the prefix
    let mut last_sync: BTreeMap<String, usize> = BTreeMap::new();
    for (i, op) in log[..prefix].iter().enumerate() {
        match op {
            // writes and syncs through one descriptor carry the path the file was opened under, so a later
            // rename must not re-key the sync (the data synced under the old name stays synced)
            LogOp::Sync { path } => {
                last_sync.insert(path.clone(), i);
            }
            _ => {}
        }
    }
    let mut files = Files::new();
    let mut k = 0usize; // running index of unsynced sector writes
    for (i, op) in log[..prefix].iter().enumerate() {
        match op {
            LogOp::Write { path, offset, data } => {
                let synced = last_sync.get(path).map(|s| i < *s).unwrap_or(false);
                if synced {
                    apply(&mut files, op);
                } else {
                    // metadata (length extension) is applied; data arrives sector by sector
                    let e = files.entry(path.clone()).or_default();
                    let end = *offset as usize + data.len();
                    if e.len() < end {
                        e.resize(end, 0);
                    }
                    let mut pos = 0usize;
                    while pos < data.len() {
                        let abs = *offset as usize + pos;
                        let in_sector = sector - (abs % sector);
                        let take = in_sector.min(data.len() - pos);
                        if !dropped.contains(&k) {
                            let sw = SectorWrite { path: path.clone(), offset: abs as u64, data: data[pos..pos + take].to_vec() };
                            let e = files.entry(sw.path.clone()).or_default();
                            e[sw.offset as usize..sw.offset as usize + sw.data.len()].copy_from_slice(&sw.data);
                            // a later write to the same bytes that did arrive covers an earlier hole
                            holes.retain(|(p, a, b)| !(p == path && *a >= abs && *b <= abs + take));
                        } else {
                            holes.push((path.clone(), abs, abs + take));
                        }
                        ids.push((path.clone(), (abs / sector) as u64));
                        k += 1;
                        pos += take;
                    }
                }
            }
            LogOp::Create { path, trunc: true } | LogOp::Truncate { path, .. } => {
                let synced = last_sync.get(path).map(|s| i < *s).unwrap_or(false);
                if !synced {
                    if let Some(c) = files.get(path) {
                        let shrinks = match op {
                            LogOp::Truncate { len, .. } => (*len as usize) < c.len(),
                            _ => !c.is_empty(),
                        };
                        if shrinks && !old.contains_key(path) {
                            old.insert(path.clone(), c.clone());
                        }
                    }
                }
                apply(&mut files, op)
            }
            _ => apply(&mut files, op),
        }
    }
    let _ = k;
    let had_old = old.values().any(|c| !c.is_empty());
    if underlay >= 1 {
        for (p, a, b) in &holes {
            if let (Some(o), Some(f)) = (old.get(p), files.get_mut(p)) {
                let end = (*b).min(o.len()).min(f.len());
                if *a < end {
                    f[*a..end].copy_from_slice(&o[*a..end]);
                }
            }
        }
        // SECTORS of the new file that no write of the prefix has touched still hold the old content (a sector that did
        // receive a write carries the new file's whole sector: zeros where the new file has not been written yet)
        for (p, o) in &old {
            if let Some(f) = files.get_mut(p) {
                let mut written = vec![false; f.len()];
                for op in log[..prefix].iter() {
                    if let LogOp::Write { path, offset, data } = op {
                        if path == p && !data.is_empty() {
                            let first = (*offset as usize / sector) * sector;
                            let last = ((*offset as usize + data.len() - 1) / sector + 1) * sector;
                            for x in first..last.min(written.len()) {
                                written[x] = true;
                            }
                        }
                    }
                }
                // (dropped sector-writes were restored to old bytes above; their sectors count as not written)
                for (hp, a, b) in &holes {
                    if hp == p {
                        for x in (*a)..(*b).min(written.len()) {
                            written[x] = false;
                        }
                    }
                }
                for x in 0..f.len().min(o.len()) {
                    if !written[x] {
                        f[x] = o[x];
                    }
                }
                if underlay >= 2 && o.len() > f.len() {
                    let n = f.len();
                    f.extend_from_slice(&o[n..]);
                }
            }
        }
    }
    (files, ids, had_old)
}

fn image_from_desc(log: &[LogOp], d: &ImageDesc) -> Files {
    // (descriptors recorded before the feasibility rule existed may name an infeasible set: it is closed here as well)
    let (_, ids) = build_image_ids(log, d.prefix, d.sector.max(1), &HashSet::new());
    let dropped: HashSet<usize> = close_dropped(&ids, &d.dropped).into_iter().collect();
    let (mut files, _, _) = build_image_full(log, d.prefix, d.sector.max(1), &dropped, d.underlay);
    if let Some((f, len)) = &d.truncate {
        if let Some(c) = files.get_mut(f) {
            c.truncate(*len);
        }
    }
    if let Some((f, off, len)) = &d.zeroed {
        if let Some(c) = files.get_mut(f) {
            let end = (*off + *len).min(c.len());
            if *off < end {
                c[*off..end].fill(0);
            }
        }
    }
    files
}

#[derive(Serialize, Deserialize)]
enum ChildAnswer {
    Refused(String),
    State(Vec<u8>),
    Panic(String),
    /// reopen gave an acceptable-looking state, but using the recovered structure afterwards went wrong
    BadAfterRecovery(Vec<u8>, String),
}

/// The engine proper, over a spec object: used by `Crash` (one history) and `CrashFamily` (all histories up to a depth).
struct Eng<'a> {
    spec: &'a dyn CrashSpec,
    shim: &'static ShimApi,
}

impl Eng<'_> {
    /// run reopen() in a forked child; returns the answer or the way the child died
    fn reopen_isolated(&self, dir: &Path) -> Result<ChildAnswer, String> {
        let mut fds = [0 as libc::c_int; 2];
        if unsafe { libc::pipe(fds.as_mut_ptr()) } != 0 {
            return Err("machinery:pipe".into());
        }
        let pid = unsafe { libc::fork() };
        if pid < 0 {
            return Err("machinery:fork".into());
        }
        if pid == 0 {
            unsafe {
                libc::close(fds[0]);
                let lim = libc::rlimit { rlim_cur: 4 << 30, rlim_max: 4 << 30 };
                libc::setrlimit(libc::RLIMIT_AS, &lim);
                let core = libc::rlimit { rlim_cur: 0, rlim_max: 0 };
                libc::setrlimit(libc::RLIMIT_CORE, &core);
            }
            let ans = match catch(|| self.spec.reopen(dir)) {
                Ok(Ok(s)) => match catch(|| self.spec.after_reopen(dir)) {
                    Ok(Ok(())) => ChildAnswer::State(s),
                    Ok(Err(e)) => ChildAnswer::BadAfterRecovery(s, e),
                    Err(f) => ChildAnswer::BadAfterRecovery(s, format!("panic while using the recovered structure: {}", f.detail)),
                },
                Ok(Err(e)) => ChildAnswer::Refused(e),
                Err(f) => ChildAnswer::Panic(f.detail),
            };
            let bytes = serde_json::to_vec(&ans).unwrap_or_default();
            let mut off = 0;
            while off < bytes.len() {
                let n = unsafe { libc::write(fds[1], bytes[off..].as_ptr() as *const libc::c_void, bytes.len() - off) };
                if n <= 0 {
                    break;
                }
                off += n as usize;
            }
            unsafe { libc::_exit(0) };
        }
        unsafe { libc::close(fds[1]) };
        // read everything (the child may write more than a pipe buffer)
        let mut buf = Vec::new();
        let mut chunk = vec![0u8; 65536];
        let t0 = Instant::now();
        unsafe {
            let fl = libc::fcntl(fds[0], libc::F_GETFL);
            libc::fcntl(fds[0], libc::F_SETFL, fl | libc::O_NONBLOCK);
        }
        let mut status: libc::c_int = 0;
        let mut exited = false;
        loop {
            let n = unsafe { libc::read(fds[0], chunk.as_mut_ptr() as *mut libc::c_void, chunk.len()) };
            if n > 0 {
                buf.extend_from_slice(&chunk[..n as usize]);
                continue;
            }
            if n == 0 && exited {
                break;
            }
            if !exited {
                let r = unsafe { libc::waitpid(pid, &mut status, libc::WNOHANG) };
                if r == pid {
                    exited = true;
                    continue;
                }
            } else {
                break;
            }
            if t0.elapsed() > Duration::from_secs(15) {
                unsafe { libc::kill(pid, libc::SIGKILL) };
                unsafe { libc::waitpid(pid, &mut status, 0) };
                unsafe { libc::close(fds[0]) };
                return Err("timeout_15s".into());
            }
            std::thread::sleep(Duration::from_micros(200));
        }
        unsafe { libc::close(fds[0]) };
        if libc::WIFSIGNALED(status) {
            return Err(format!("signal_{}", libc::WTERMSIG(status)));
        }
        serde_json::from_slice::<ChildAnswer>(&buf).map_err(|_| format!("exit_{}_no_answer", libc::WEXITSTATUS(status)))
    }

    fn record(&self, scratch: &Path) -> Result<(Vec<LogOp>, Vec<(usize, Vec<u8>)>, PathBuf, Vec<usize>), String> {
        let dir = scratch.join(format!("hist-{}", h64(&self.spec.name())));
        let _ = std::fs::remove_dir_all(&dir);
        std::fs::create_dir_all(&dir).map_err(|e| e.to_string())?;
        let prefix = dir.to_string_lossy().into_owned();
        (self.shim.start)(&prefix);
        let mut rec = Recorder { api: self.shim, sync_points: Vec::new(), acknowledged: 0, explicit: Vec::new() };
        let r = catch(|| self.spec.run_history(&dir, &mut rec));
        let (log, unsupported) = (self.shim.stop)();
        match r {
            Ok(Ok(())) => {}
            Ok(Err(e)) => return Err(format!("history failed: {e}")),
            Err(f) => return Err(format!("history panicked: {}", f.detail)),
        }
        if !unsupported.is_empty() {
            return Err(format!("the write log is incomplete (unmodelled operation): {:?}", unsupported));
        }
        Ok((log, rec.sync_points, dir, rec.explicit))
    }

    fn judge(&self, ans: Result<ChildAnswer, String>, states: &[(usize, Vec<u8>)], prefix: usize, kind: &str, clean_sync: &[usize]) -> Result<String, Fail> {
        // `clean_sync` (indices into `states`) is non-empty iff the image is the COMPLETE write log up to the position of an
        // explicit, acknowledged sync / finish — nothing dropped, nothing cut: the undamaged file as it was left. Reopening it
        // must succeed and present exactly that content ("presents exactly the logical content it had when it was last synced
        // or finished"); refusing an undamaged file is a violation, not a refusal of damage.
        if !clean_sync.is_empty() {
            match &ans {
                Ok(ChildAnswer::Refused(why)) => {
                    return Err(Fail::new("clean_image_refused", format!("the undamaged file(s) as left by an acknowledged sync/finish (complete write log up to position {prefix}) were refused on reopen: {why}")).with_class("refused".to_string()));
                }
                Ok(ChildAnswer::State(s)) | Ok(ChildAnswer::BadAfterRecovery(s, _)) => {
                    if !clean_sync.iter().any(|&i| states[i].1 == *s) {
                        return Err(Fail::new("clean_image_wrong_content", format!("the undamaged file(s) as left by an acknowledged sync/finish (complete write log up to position {prefix}) reopened with a logical content ({} bytes) that is not the content at that sync", s.len())).with_class("wrong_content".to_string()));
                    }
                }
                _ => {}
            }
        }
        match ans {
            Err(how) if how.starts_with("machinery") => Err(Fail::new("machinery", how)),
            Err(how) => Err(Fail::new("fault_on_reopen", format!("reopening the image ({kind}) killed the process: {how}")).with_class(format!("{kind}/{how}"))),
            Ok(ChildAnswer::Panic(m)) => Err(Fail::new("panic_on_reopen", format!("reopening the image ({kind}) panicked: {m}")).with_class(kind.to_string())),
            Ok(ChildAnswer::Refused(_)) => Ok("refused".into()),
            Ok(ChildAnswer::BadAfterRecovery(s, e)) => {
                // only judged when the reopened state itself was acceptable (otherwise the reopen clause reports it)
                let mut reached = states.iter().filter(|(pos, _)| *pos <= prefix).count();
                if reached < states.len() {
                    reached += 1;
                }
                if states[..reached].iter().any(|(_, st)| self.spec.same_state(&s, st)) {
                    Err(Fail::new("wrong_after_recovery", format!("the image ({kind}, log prefix {prefix}) reopened with an acceptable content, but using the recovered structure went wrong: {e}")).with_class(kind.to_string()))
                } else {
                    Err(Fail::new("unknown_state_after_reopen", format!("reopening the image ({kind}, log prefix {prefix}) succeeded with a logical content ({} bytes) that equals no sync point reached so far (and later use failed: {e})", s.len())).with_class(kind.to_string()))
                }
            }
            Ok(ChildAnswer::State(s)) => {
                // acceptable: the logical content at any operation boundary / sync point reached at this prefix, or of the
                // operation in progress (its writes may all have reached the disk)
                let mut reached = states.iter().filter(|(pos, _)| *pos <= prefix).count();
                if reached < states.len() {
                    reached += 1;
                }
                match states[..reached].iter().position(|(_, st)| self.spec.same_state(&s, st)) {
                    Some(i) if states[i].1 == s => Ok(format!("state_of_sync_{i}")),
                    Some(i) => Ok(format!("state_of_sync_{i}_with_refused_records")),
                    None => {
                        let later = states.iter().position(|(_, st)| *st == s);
                        Err(Fail::new(
                            "unknown_state_after_reopen",
                            format!(
                                "reopening the image ({kind}, log prefix {prefix}) succeeded with a logical content ({} bytes) that equals no sync point reached so far{}",
                                s.len(),
                                match later {
                                    Some(i) => format!(" (it equals the FUTURE sync point {i})"),
                                    None => String::new(),
                                }
                            ),
                        )
                        .with_class(kind.to_string()))
                    }
                }
            }
        }
    }
}

impl<S: CrashSpec> Subject for Crash<S> {
    fn name(&self) -> String {
        self.spec.name()
    }
    fn explore(&self, ctx: &mut Ctx) {
        let name = self.name();
        let tier = ctx.tier;
        ctx.stats(&name).bound = format!(
            "{}; every prefix of the write log x subsets of unsynced sectors (all subsets when <= 10 sectors, else single drops + prefixes + header-only/all-but-header) at sector sizes {:?}; every truncation length of every final file (files over 8 KiB: every length in the first and last 640 bytes, around every 512-byte boundary and every 509th in between); the undamaged file at an acknowledged sync must reopen with exactly that content; each image reopened in a forked child",
            self.spec.describe(),
            self.spec.sector_sizes(tier)
        );
        Eng { spec: &self.spec, shim: self.shim }.explore_as(ctx, &name, &|d| d);
    }
    fn replay(&self, ctx: &mut Ctx, witness: &Value) -> Verdict {
        Eng { spec: &self.spec, shim: self.shim }.replay_desc(ctx, witness)
    }
}

/// All histories of a family (e.g. every operation sequence up to a depth over a small alphabet), each one explored like a
/// single `Crash` subject; reported under one subject name.  A witness is `{"history": <member name>, "image": <descriptor>}`.
pub struct CrashFamily {
    pub name: String,
    pub describe: String,
    /// the member histories for a tier (simplest first)
    pub members: Box<dyn Fn(Tier) -> Vec<Box<dyn CrashSpec>> + Send + Sync>,
    pub shim: &'static ShimApi,
}

impl Subject for CrashFamily {
    fn name(&self) -> String {
        self.name.clone()
    }
    fn explore(&self, ctx: &mut Ctx) {
        let name = self.name();
        let tier = ctx.tier;
        let members = (self.members)(tier);
        let sect = members.first().map(|m| m.sector_sizes(tier)).unwrap_or_default();
        ctx.stats(&name).bound = format!(
            "{} — {} histories in this tier, EACH explored completely: every prefix of its write log x subsets of unsynced sectors (all subsets when <= 10 sectors, else single drops + prefixes + header-only/all-but-header) at sector sizes {:?}; every truncation length of every final file; the undamaged file at an acknowledged sync must reopen with exactly that content; each image reopened in a forked child",
            self.describe,
            members.len(),
            sect
        );
        *ctx.stats(&name).extra.entry("histories".into()).or_insert(0) = members.len() as u64;
        for m in &members {
            if ctx.out_of_time() {
                ctx.stats(&name).cap_hit = true;
                break;
            }
            let hist = m.name();
            Eng { spec: m.as_ref(), shim: self.shim }.explore_as(ctx, &name, &|d| json!({"history": hist, "image": d}));
        }
    }
    fn replay(&self, ctx: &mut Ctx, witness: &Value) -> Verdict {
        let hist = match witness.get("history").and_then(|h| h.as_str()) {
            Some(h) => h.to_string(),
            None => return Verdict::Unreplayable("witness has no history".into()),
        };
        for tier in [Tier::Quick, Tier::Thorough] {
            for m in (self.members)(tier) {
                if m.name() == hist {
                    return Eng { spec: m.as_ref(), shim: self.shim }.replay_desc(ctx, witness.get("image").unwrap_or(&Value::Null));
                }
            }
        }
        Verdict::Unreplayable(format!("no member history named {hist}"))
    }
}

impl Eng<'_> {
    /// explore one history; statistics and violations are booked under `name`, witnesses are passed through `wrap`
    fn explore_as(&self, ctx: &mut Ctx, name: &str, wrap: &dyn Fn(Value) -> Value) {
        let name = name.to_string();
        let tier = ctx.tier;
        let scratch = ctx.scratch.clone();
        let (log, states, hist_dir, explicit) = match self.record(&scratch) {
            Ok(x) => x,
            Err(e) => {
                ctx.machinery_error(format!("{name} [{}]: {e}", self.spec.name()));
                return;
            }
        };
        // binding the model to the code: the image built from the complete log must equal what the run left behind
        let (full, _) = build_image(&log, log.len(), 512, &HashSet::new());
        let mut real = Files::new();
        read_tree(&hist_dir, &hist_dir, &mut real);
        if full != real {
            let diff: Vec<String> = real
                .keys()
                .chain(full.keys())
                .filter(|k| real.get(*k) != full.get(*k))
                .map(|k| format!("{k}: real {:?} bytes, model {:?} bytes", real.get(k).map(|v| v.len()), full.get(k).map(|v| v.len())))
                .collect();
            ctx.machinery_error(format!("{name}: image rebuilt from the complete write log differs from the directory the run left behind: {:?}", diff));
            return;
        }
        *ctx.stats(&name).extra.entry("log_ops".into()).or_insert(0) += log.len() as u64;
        *ctx.stats(&name).extra.entry("sync_points".into()).or_insert(0) += states.len() as u64;
        *ctx.stats(&name).extra.entry("full_log_image_validated_against_real_directory".into()).or_insert(0) += 1;
        let dirs: Vec<String> = log.iter().filter_map(|o| if let LogOp::Mkdir { path } = o { Some(path.clone()) } else { None }).collect();

        // enumerate image descriptors
        let mut descs: Vec<ImageDesc> = Vec::new();
        for sector in self.spec.sector_sizes(tier) {
            for prefix in 0..=log.len() {
                let (_, ids, had_old) = build_image_full(&log, prefix, sector, &HashSet::new(), 0);
                let n_unsynced = ids.len();
                descs.push(ImageDesc { prefix, sector, dropped: vec![], truncate: None, kind: "prefix".into(), underlay: 0, zeroed: None });
                let first_desc = descs.len();
                if had_old {
                    // the truncation of the older file is itself not durable yet: old bytes where nothing new was written, with
                    // the new and with the old file length
                    descs.push(ImageDesc { prefix, sector, dropped: vec![], truncate: None, kind: "prefix+old_blocks".into(), underlay: 1, zeroed: None });
                    descs.push(ImageDesc { prefix, sector, dropped: vec![], truncate: None, kind: "prefix+old_blocks+old_length".into(), underlay: 2, zeroed: None });
                }
                if n_unsynced == 0 {
                    continue;
                }
                // every dropped-set is closed to a feasible one (writes to one sector arrive cumulatively); duplicates removed
                let mut seen_sets: HashSet<Vec<usize>> = HashSet::new();
                let mut push = |descs: &mut Vec<ImageDesc>, dropped: Vec<usize>, kind: &str| {
                    let closed = close_dropped(&ids, &dropped);
                    if !closed.is_empty() && seen_sets.insert(closed.clone()) {
                        descs.push(ImageDesc { prefix, sector, dropped: closed, truncate: None, kind: kind.into(), underlay: 0, zeroed: None });
                    }
                };
                if n_unsynced <= 10 {
                    for mask in 1u32..(1u32 << n_unsynced) {
                        let dropped: Vec<usize> = (0..n_unsynced).filter(|i| mask & (1 << i) != 0).collect();
                        push(&mut descs, dropped, "torn_subset");
                    }
                } else {
                    for i in 0..n_unsynced {
                        push(&mut descs, vec![i], "torn_single");
                        push(&mut descs, (i..n_unsynced).collect(), "torn_tail");
                    }
                    push(&mut descs, (1..n_unsynced).collect(), "header_only");
                    push(&mut descs, vec![0], "all_but_header");
                }
                if had_old {
                    // every torn image of this prefix once more with the older file's bytes under the dropped sectors
                    let torn: Vec<ImageDesc> = descs[first_desc..].iter().filter(|d| !d.dropped.is_empty()).cloned().collect();
                    for d in torn {
                        for u in [1u8, 2] {
                            let mut e = d.clone();
                            e.underlay = u;
                            e.kind = format!("{}+old_blocks{}", d.kind, if u == 2 { "+old_length" } else { "" });
                            descs.push(e);
                        }
                    }
                }
            }
        }
        for (f, c) in &full {
            for len in truncation_lengths(c.len()) {
                descs.push(ImageDesc { prefix: log.len(), sector: 512, dropped: vec![], truncate: Some((f.clone(), len)), kind: "truncated".into(), underlay: 0, zeroed: None });
            }
        }

        if self.spec.lost_sector_images() {
            for (f, c) in &full {
                for sector in [512usize, 64] {
                    let mut off = 0usize;
                    while off < c.len() {
                        // (a sector that is all zeros already gives the undamaged file: the image hash removes it)
                        descs.push(ImageDesc { prefix: log.len(), sector, dropped: vec![], truncate: None, kind: "sector_lost".into(), underlay: 0, zeroed: Some((f.clone(), off, sector)) });
                        off += sector;
                    }
                }
            }
        }
        let nshards = ctx.args.nshards;
        let shard = ctx.args.shard;
        let offset = (h64(&self.spec.name()) % nshards as u64) as usize;
        let mut seen: HashSet<u64> = HashSet::new();
        let img_dir = scratch.join(format!("img-{}", h64(&self.spec.name())));
        for (i, d) in descs.iter().enumerate() {
            if (i + offset) % nshards != shard {
                continue;
            }
            if ctx.out_of_time() {
                ctx.stats(&name).cap_hit = true;
                break;
            }
            let files = image_from_desc(&log, d);
            let hsh = h64(&files);
            ctx.stats(&name).executions += 1;
            let clean_sync: Vec<usize> = if d.kind == "prefix" && d.dropped.is_empty() && d.truncate.is_none() && d.zeroed.is_none() {
                explicit.iter().copied().filter(|&i| states[i].0 == d.prefix).collect()
            } else {
                Vec::new()
            };
            // (an image identical to an earlier one is not reopened again — unless it is the undamaged file at an
            // acknowledged sync, which is judged by the stricter rule)
            if !seen.insert(hsh) && clean_sync.is_empty() {
                *ctx.stats(&name).outcomes.entry("duplicate_image".into()).or_insert(0) += 1;
                continue;
            }
            ctx.journal(&name, &|| wrap(serde_json::to_value(d).unwrap_or(Value::Null)));
            if let Err(e) = materialize(&img_dir, &files, &dirs) {
                ctx.machinery_error(format!("{name}: cannot materialize image: {e}"));
                break;
            }
            let ans = self.reopen_isolated(&img_dir);
            // an image is non-trivial iff it differs from every synced snapshot (complete-prefix image at a sync position)
            let nontrivial = !d.dropped.is_empty() || d.truncate.is_some() || d.zeroed.is_some() || !states.iter().any(|(p, _)| *p == d.prefix);
            match self.judge(ans, &states, d.prefix, &d.kind, &clean_sync) {
                Ok(class) => {
                    if !clean_sync.is_empty() {
                        *ctx.stats(&name).extra.entry("undamaged_sync_images_reopened_exactly".into()).or_insert(0) += 1;
                    }
                    *ctx.stats(&name).outcomes.entry(class).or_insert(0) += 1;
                    if nontrivial {
                        ctx.stats(&name).nontrivial += 1;
                        ctx.add_case_hash(&name, hsh);
                    }
                    ctx.add_sample(&name, &|| wrap(serde_json::to_value(d).unwrap_or(Value::Null)));
                }
                Err(f) if f.clause == "machinery" => ctx.machinery_error(format!("{name}: {}", f.detail)),
                Err(f) => {
                    *ctx.stats(&name).outcomes.entry(format!("fail:{}:{}", f.clause, f.class)).or_insert(0) += 1;
                    ctx.add_case_hash(&name, hsh);
                    ctx.violation(&name, &f, wrap(serde_json::to_value(d).unwrap_or(Value::Null)));
                }
            }
        }
        let _ = std::fs::remove_dir_all(&img_dir);
        let _ = std::fs::remove_dir_all(&hist_dir);
    }

    fn replay_desc(&self, ctx: &mut Ctx, witness: &Value) -> Verdict {
        let d: ImageDesc = match serde_json::from_value(witness.clone()) {
            Ok(d) => d,
            Err(e) => return Verdict::Unreplayable(format!("bad image descriptor: {e}")),
        };
        let scratch = ctx.scratch.clone();
        let (log, states, hist_dir, explicit) = match self.record(&scratch) {
            Ok(x) => x,
            Err(e) => return Verdict::Unreplayable(e),
        };
        if d.prefix > log.len() {
            return Verdict::Unreplayable("descriptor refers to a longer log".into());
        }
        let dirs: Vec<String> = log.iter().filter_map(|o| if let LogOp::Mkdir { path } = o { Some(path.clone()) } else { None }).collect();
        let files = image_from_desc(&log, &d);
        let img_dir = scratch.join(format!("img-replay-{}", h64(&self.spec.name())));
        if let Err(e) = materialize(&img_dir, &files, &dirs) {
            return Verdict::Unreplayable(format!("cannot materialize: {e}"));
        }
        let ans = self.reopen_isolated(&img_dir);
        let clean_sync: Vec<usize> = if d.kind == "prefix" && d.dropped.is_empty() && d.truncate.is_none() {
            explicit.iter().copied().filter(|&i| states[i].0 == d.prefix).collect()
        } else {
            Vec::new()
        };
        let v = match self.judge(ans, &states, d.prefix, &d.kind, &clean_sync) {
            Ok(_) => Verdict::Pass,
            Err(f) if f.clause == "machinery" => Verdict::Unreplayable(f.detail),
            Err(f) => Verdict::Fail(f),
        };
        let _ = std::fs::remove_dir_all(&img_dir);
        let _ = std::fs::remove_dir_all(&hist_dir);
        v
    }
}

/// Truncation lengths tried for a file of `n` bytes: every length for files up to 8 KiB; for larger files every length in the
/// first and the last 640 bytes (headers, trailers), every multiple of 512 and its two neighbours (sector boundaries), and
/// every 509th length in between.
pub fn truncation_lengths(n: usize) -> Vec<usize> {
    if n <= 8192 {
        return (0..n).collect();
    }
    let mut v: Vec<usize> = (0..640).chain(n - 640..n).collect();
    let mut k = 512;
    while k < n {
        v.extend([k - 1, k, k + 1]);
        k += 512;
    }
    let mut k = 640;
    while k < n {
        v.push(k);
        k += 509;
    }
    v.retain(|&x| x < n);
    v.sort_unstable();
    v.dedup();
    v
}

pub fn to_json<T: Serialize>(t: &T) -> Value {
    serde_json::to_value(t).unwrap_or_else(|_| json!(null))
}
