//! E1 — bounded-exhaustive operation histories against a reference model.
//!
//! Explicit-state search in which every transition calls the real method on the real
//! object.  The search is breadth-first over mutator sequences (so the first witness of a
//! defect is a shortest one); a node is a sequence of operations, and visiting it means:
//! build a fresh implementation object + model, re-apply the prefix, apply the last
//! operation with its return value compared to the model, evaluate **every** observer and
//! compare with the model, then drop the object (leak / double-drop oracle).  No state
//! merging is done on the implementation side.  A node whose visit fails is reported and
//! not extended.

use crate::core::{Ctx, Fail, Subject, Tier, Verdict};
use crate::util::catch;
use serde_json::{json, Value};
use std::collections::hash_map::DefaultHasher;
use std::fmt::Debug;
use std::hash::Hasher;
use std::path::Path;

pub trait SeqSpec {
    type Op: Clone + Debug;
    /// implementation object(s) + reference model, stepped in lock-step
    type St;

    fn name(&self) -> String;
    /// maximal history length for the tier
    fn depth(&self, tier: Tier) -> usize;
    /// free-text description of alphabet and bound for the evidence file
    fn bound(&self, tier: Tier) -> String {
        format!("all histories of <= {} mutators", self.depth(tier))
    }
    /// fresh implementation + model (may include a scripted prefix); `scratch` is a private directory
    fn init(&self, scratch: &Path) -> Result<Self::St, Fail>;
    /// enabled mutators in this state, simplest first; must depend on the model only
    fn ops(&self, st: &Self::St) -> Vec<Self::Op>;
    /// apply `op` to implementation and model, compare the return value
    fn apply(&self, st: &mut Self::St, op: &Self::Op) -> Result<(), Fail>;
    /// evaluate every read-only query of the API on the fixed probe set and compare with the
    /// model; feed the model state (and, where cheap, the observations) into `h`
    fn observe(&self, st: &mut Self::St, h: &mut DefaultHasher) -> Result<(), Fail>;
    /// drop the object; leak / double-drop checks
    fn finish(&self, st: Self::St) -> Result<(), Fail> {
        drop(st);
        Ok(())
    }
}

pub struct Seq<S: SeqSpec>(pub S);

enum NodeErr {
    Fail(Fail),
    Nondet(Fail),
}

impl<S: SeqSpec> Seq<S> {
    /// `observe_all = false`: the prefix is applied and the observers run once, in the state it leads to (every shorter prefix
    /// was observed by its own visit).  `observe_all = true`: the observers also run before the first and after EVERY operation,
    /// as a caller who reads between writes does — reads are not always read-only (caches, recency lists, lazily built views),
    /// so "write, read, write, read" is a different history from "write, write, read".
    fn visit(&self, scratch: &Path, prefix: &[S::Op], want_ops: bool, observe_all: bool) -> Result<(u64, Vec<S::Op>), NodeErr> {
        let spec = &self.0;
        let r = catch(|| -> Result<(u64, Vec<S::Op>), NodeErr> {
            let mut st = spec.init(scratch).map_err(NodeErr::Nondet)?;
            let n = prefix.len();
            if observe_all {
                let mut h0 = DefaultHasher::new();
                spec.observe(&mut st, &mut h0).map_err(NodeErr::Fail)?;
            }
            for (i, op) in prefix.iter().enumerate() {
                if i + 1 < n && !observe_all {
                    spec.apply(&mut st, op).map_err(NodeErr::Nondet)?;
                } else {
                    spec.apply(&mut st, op).map_err(NodeErr::Fail)?;
                }
                if observe_all && i + 1 < n {
                    let mut hi = DefaultHasher::new();
                    spec.observe(&mut st, &mut hi).map_err(NodeErr::Fail)?;
                }
            }
            let mut h = DefaultHasher::new();
            spec.observe(&mut st, &mut h).map_err(NodeErr::Fail)?;
            let ops = if want_ops { spec.ops(&st) } else { Vec::new() };
            spec.finish(st).map_err(NodeErr::Fail)?;
            Ok((h.finish(), ops))
        });
        match r {
            Ok(x) => x,
            Err(panic_fail) => Err(NodeErr::Fail(panic_fail)),
        }
    }

    fn witness(prefix: &[S::Op]) -> Value {
        json!({ "ops": prefix.iter().map(|o| format!("{:?}", o)).collect::<Vec<_>>() })
    }
    /// witness of a history that fails only when the observers run between the operations
    fn witness_reads(prefix: &[S::Op]) -> Value {
        json!({ "ops": prefix.iter().map(|o| format!("{:?}", o)).collect::<Vec<_>>(), "reads_between": true })
    }
}

impl<S: SeqSpec> Subject for Seq<S> {
    fn name(&self) -> String {
        self.0.name()
    }

    fn explore(&self, ctx: &mut Ctx) {
        let name = self.name();
        // ZV_DEPTH_BONUS (set by the driver for a property's thorough tier) deepens every subject by that many steps
        let bonus: usize = std::env::var("ZV_DEPTH_BONUS").ok().and_then(|s| s.parse().ok()).unwrap_or(0);
        let depth = self.0.depth(ctx.tier) + bonus;
        let scratch = ctx.scratch.clone();
        ctx.stats(&name).bound = if bonus > 0 { format!("{} [+{} steps: depth {}]", self.0.bound(ctx.tier), bonus, depth) } else { self.0.bound(ctx.tier) };
        let owns_root = ctx.take_unit();

        // root
        let root_ops = match self.visit(&scratch, &[], depth > 0, false) {
            Ok((h, ops)) => {
                if owns_root {
                    ctx.stats(&name).executions += 1;
                    ctx.add_state(&name, h);
                }
                ops
            }
            Err(NodeErr::Fail(f)) | Err(NodeErr::Nondet(f)) => {
                if owns_root {
                    ctx.stats(&name).executions += 1;
                    ctx.violation(&name, &f, Self::witness(&[]));
                }
                return;
            }
        };

        let mut frontier: Vec<Vec<S::Op>> = Vec::new();
        for op in root_ops {
            if ctx.take_unit() {
                frontier.push(vec![op]);
            }
        }
        let mut level = 1;
        while !frontier.is_empty() && level <= depth {
            let mut next: Vec<Vec<S::Op>> = Vec::new();
            for prefix in frontier.drain(..) {
                if ctx.out_of_time() {
                    ctx.stats(&name).cap_hit = true;
                    let b = ctx.stats(&name).bound.clone();
                    ctx.stats(&name).bound = format!("{} — TIME CAP HIT at level {} (levels < {} complete)", b, level, level);
                    return;
                }
                ctx.journal(&name, &|| Self::witness(&prefix));
                let r = self.visit(&scratch, &prefix, level < depth, false);
                let st = ctx.stats(&name);
                st.executions += 1;
                st.transitions += prefix.len() as u64;
                // the same history once more with the observers running between the operations (only where the plain visit
                // passed: a failing node is reported as it is)
                if r.is_ok() && std::env::var_os("ZV_NO_READS_BETWEEN").is_none() {
                    let st = ctx.stats(&name);
                    st.executions += 1;
                    st.transitions += prefix.len() as u64;
                    if let Err(NodeErr::Fail(f)) | Err(NodeErr::Nondet(f)) = self.visit(&scratch, &prefix, false, true) {
                        let f = Fail { clause: f.clause.clone(), class: if f.class.is_empty() { "reads_between".to_string() } else { format!("{}|reads_between", f.class) }, detail: format!("(observers run between the operations) {}", f.detail) };
                        *ctx.stats(&name).outcomes.entry(format!("fail:{}:reads_between", f.clause)).or_insert(0) += 1;
                        ctx.violation(&name, &f, Self::witness_reads(&prefix));
                        // not extended: longer histories would only repeat it
                        continue;
                    }
                }
                match r {
                    Ok((h, ops)) => {
                        ctx.add_state(&name, h);
                        ctx.add_sample(&name, &|| Self::witness(&prefix));
                        *ctx.stats(&name).outcomes.entry("ok".into()).or_insert(0) += 1;
                        for op in ops {
                            let mut p = prefix.clone();
                            p.push(op);
                            next.push(p);
                        }
                    }
                    Err(NodeErr::Fail(f)) => {
                        *ctx.stats(&name).outcomes.entry(format!("fail:{}", f.clause)).or_insert(0) += 1;
                        ctx.violation(&name, &f, Self::witness(&prefix));
                    }
                    Err(NodeErr::Nondet(f)) => {
                        ctx.machinery_error(format!(
                            "{name}: prefix replay diverged (subject not deterministic?) at {:?}: {} {}",
                            Self::witness(&prefix),
                            f.clause,
                            f.detail
                        ));
                    }
                }
            }
            frontier = next;
            level += 1;
        }
    }

    fn replay(&self, ctx: &mut Ctx, witness: &Value) -> Verdict {
        let Some(ops) = witness.get("ops").and_then(|o| o.as_array()) else {
            return Verdict::Unreplayable("witness has no ops".into());
        };
        let want: Vec<String> = ops.iter().map(|o| o.as_str().unwrap_or("").to_string()).collect();
        // witnesses found by the plain visit carry no flag: they are replayed without reads in between first (exactly as
        // found) and, if that passes, with the observers after every step (how witnesses recorded before the flag existed
        // were replayed); a witness flagged `reads_between` is replayed with them
        let flagged = witness.get("reads_between").and_then(|b| b.as_bool()).unwrap_or(false);
        let spec = &self.0;
        let scratch = ctx.scratch.clone();
        if !flagged {
            let plain = catch(|| -> Result<Option<Verdict>, Fail> {
                let mut st = spec.init(&scratch)?;
                for w in &want {
                    let enabled = spec.ops(&st);
                    let Some(op) = enabled.iter().find(|o| &format!("{:?}", o) == w) else {
                        return Ok(Some(Verdict::Unreplayable(format!("operation {w} not enabled"))));
                    };
                    spec.apply(&mut st, op)?;
                }
                let mut h = DefaultHasher::new();
                spec.observe(&mut st, &mut h)?;
                spec.finish(st)?;
                Ok(None)
            });
            match plain {
                Ok(Ok(Some(v))) => return v,
                Ok(Ok(None)) => {}
                Ok(Err(f)) | Err(f) => return Verdict::Fail(f),
            }
        }
        let r = catch(|| -> Result<Verdict, Fail> {
            let mut st = spec.init(&scratch)?;
            let mut h = DefaultHasher::new();
            spec.observe(&mut st, &mut h)?;
            for w in &want {
                let enabled = spec.ops(&st);
                let Some(op) = enabled.iter().find(|o| &format!("{:?}", o) == w) else {
                    return Ok(Verdict::Unreplayable(format!("operation {w} not enabled")));
                };
                spec.apply(&mut st, op)?;
                spec.observe(&mut st, &mut h)?;
            }
            spec.finish(st)?;
            Ok(Verdict::Pass)
        });
        match r {
            Ok(Ok(v)) => v,
            Ok(Err(f)) => Verdict::Fail(f),
            Err(f) => Verdict::Fail(f),
        }
    }
}
