//! E2 — bounded-exhaustive input spaces: "small scope" ∪ "threshold grid".
//!
//! A spec enumerates a finite, *stated* space of cases (inputs × configurations) in a fixed
//! order and judges each case with a reference function.  Every case of the space is run
//! (sharded by case index); nothing is sampled.

use crate::core::{Ctx, Fail, Outcome, Subject, Tier, Verdict};
use crate::util::{catch, h64};
use serde::{de::DeserializeOwned, Serialize};
use serde_json::Value;
use std::hash::Hash;

pub trait EnumSpec {
    type Case: Serialize + DeserializeOwned + Hash + Clone;

    fn name(&self) -> String;
    /// free-text description of the space (S and G) for the evidence file
    fn space(&self, tier: Tier) -> String;
    /// enumerate the whole space in a fixed order; `f` returns false to stop (time cap)
    fn cases(&self, tier: Tier, f: &mut dyn FnMut(Self::Case) -> bool);
    /// run the real code on one case and judge it
    fn run(&self, case: &Self::Case) -> Outcome;
}

pub struct Enum<S: EnumSpec>(pub S);

fn run_caught<S: EnumSpec>(spec: &S, case: &S::Case) -> Outcome {
    match catch(|| spec.run(case)) {
        Ok(o) => o,
        Err(f) => Outcome::Fail(f),
    }
}

impl<S: EnumSpec> Subject for Enum<S> {
    fn name(&self) -> String {
        self.0.name()
    }

    fn explore(&self, ctx: &mut Ctx) {
        let name = self.name();
        ctx.stats(&name).bound = self.0.space(ctx.tier);
        let tier = ctx.tier;
        let mut idx: u64 = 0;
        let mut mine_count: u64 = 0;
        let mut capped = false;
        let nshards = ctx.args.nshards as u64;
        let shard = ctx.args.shard as u64;
        // offset by subject so that small subjects do not all land on shard 0
        let offset = h64(&name) % nshards;
        self.0.cases(tier, &mut |case| {
            let mine = (idx + offset) % nshards == shard;
            idx += 1;
            if !mine {
                return true;
            }
            mine_count += 1;
            if mine_count % 64 == 0 && ctx.out_of_time() {
                capped = true;
                return false;
            }
            ctx.journal(&name, &|| serde_json::to_value(&case).unwrap_or(Value::Null));
            let out = run_caught(&self.0, &case);
            let ch = h64(&case);
            let st = ctx.stats(&name);
            st.executions += 1;
            match out {
                Outcome::Pass { nontrivial, class } => {
                    *st.outcomes.entry(class).or_insert(0) += 1;
                    if nontrivial {
                        st.nontrivial += 1;
                        ctx.add_case_hash(&name, ch);
                    }
                    ctx.add_sample(&name, &|| serde_json::to_value(&case).unwrap_or(Value::Null));
                }
                Outcome::Skip(why) => {
                    st.skipped += 1;
                    *st.outcomes.entry(format!("skip:{why}")).or_insert(0) += 1;
                }
                Outcome::Fail(f) => {
                    *st.outcomes.entry(format!("fail:{}:{}", f.clause, f.class)).or_insert(0) += 1;
                    ctx.add_case_hash(&name, ch);
                    ctx.violation(&name, &f, serde_json::to_value(&case).unwrap_or(Value::Null));
                }
            }
            true
        });
        if capped {
            let st = ctx.stats(&name);
            st.cap_hit = true;
            st.bound = format!("{} — TIME CAP HIT after {} cases of this shard", st.bound, st.executions);
        }
    }

    fn replay(&self, _ctx: &mut Ctx, witness: &Value) -> Verdict {
        let case: S::Case = match serde_json::from_value(witness.clone()) {
            Ok(c) => c,
            Err(e) => return Verdict::Unreplayable(format!("cannot decode case: {e}")),
        };
        match run_caught(&self.0, &case) {
            Outcome::Pass { .. } | Outcome::Skip(_) => Verdict::Pass,
            Outcome::Fail(f) => Verdict::Fail(f),
        }
    }
}

/// Convenience for failing with a class.
pub fn fail(clause: &str, class: impl Into<String>, detail: impl Into<String>) -> Outcome {
    Outcome::Fail(Fail::new(clause, detail).with_class(class))
}

// ------------------------------------------------------------------------------------------------
// Input constructors shared by several properties

/// Lengths straddling the constants visible in the codecs / containers.
pub const GRID_LENGTHS: &[usize] = &[
    0, 1, 2, 3, 4, 5, 7, 8, 9, 15, 16, 17, 31, 32, 33, 63, 64, 65, 99, 100, 101, 127, 128, 129, 255, 256, 257, 511, 512, 513, 1023, 1024,
    1025, 4095, 4096, 4097, 8191, 8192, 8193,
];

#[derive(Clone, Copy, Debug, PartialEq, Eq, Hash, serde::Serialize, serde::Deserialize)]
pub enum Shape {
    /// i mod k
    Cyclic,
    /// symbol 0 everywhere except one occurrence of each other symbol (share < 1/4096 for long inputs)
    Dominant,
    /// frequencies 1,2,4,8.. (drives Huffman depth)
    Geometric,
    /// frequencies 1,1,2,3,5.. (worst-case Huffman depth)
    Fibonacci,
    /// runs of length 1,2,3.. of successive symbols
    Runs,
    /// the first k symbols repeated with period k, second half equal to first half (LZ back-references)
    Periodic,
    /// all bytes 0x00
    Zero,
    /// all bytes 0xFF
    Ones,
    /// xorshift-style incompressible bytes over k symbols (deterministic)
    Noise,
}

pub const ALL_SHAPES: &[Shape] = &[
    Shape::Cyclic,
    Shape::Dominant,
    Shape::Geometric,
    Shape::Fibonacci,
    Shape::Runs,
    Shape::Periodic,
    Shape::Zero,
    Shape::Ones,
    Shape::Noise,
];

/// Deterministic constructor: one concrete input per grid point (shape, n, k).
pub fn shaped(shape: Shape, n: usize, k: usize) -> Vec<u8> {
    let k = k.clamp(1, 256);
    let sym = |i: usize| -> u8 { (i % k) as u8 };
    let mut v = Vec::with_capacity(n);
    match shape {
        Shape::Cyclic => {
            for i in 0..n {
                v.push(sym(i));
            }
        }
        Shape::Dominant => {
            for i in 0..n {
                v.push(if i > 0 && i < k { sym(i) } else { 0 });
            }
        }
        Shape::Geometric | Shape::Fibonacci => {
            // weights per symbol, then emit proportionally, interleaved deterministically
            let mut w: Vec<u64> = Vec::new();
            let (mut a, mut b) = (1u64, 1u64);
            for s in 0..k {
                let x = if shape == Shape::Geometric { 1u64 << s.min(40) } else { a };
                w.push(x);
                if shape == Shape::Fibonacci {
                    let c = a.saturating_add(b);
                    a = b;
                    b = c;
                }
            }
            // emit symbol s w[s] times until n reached, smallest weights first so rare symbols are present
            let mut s = 0;
            'outer: loop {
                for _ in 0..w[s] {
                    if v.len() >= n {
                        break 'outer;
                    }
                    v.push(s as u8);
                }
                s += 1;
                if s >= k {
                    // fill the rest with the heaviest symbol
                    while v.len() < n {
                        v.push((k - 1) as u8);
                    }
                    break;
                }
            }
            // spread: rotate so that contexts mix
            if n > 2 {
                v.rotate_left(n / 3);
            }
        }
        Shape::Runs => {
            let mut s = 0usize;
            let mut run = 1usize;
            while v.len() < n {
                for _ in 0..run {
                    if v.len() < n {
                        v.push(sym(s));
                    }
                }
                s += 1;
                run += 1;
            }
        }
        Shape::Periodic => {
            for i in 0..n {
                v.push(sym(i % k.max(1)) ^ if (i / k.max(1)) % 5 == 4 { 1 } else { 0 });
            }
        }
        Shape::Zero => v.resize(n, 0),
        Shape::Ones => v.resize(n, 0xFF),
        Shape::Noise => {
            let mut x: u64 = 0x9E37_79B9_7F4A_7C15 ^ (n as u64) << 17 ^ k as u64;
            for _ in 0..n {
                x ^= x << 13;
                x ^= x >> 7;
                x ^= x << 17;
                v.push(((x >> 24) as usize % k) as u8);
            }
        }
    }
    v
}
