//! C06 — hash maps behave as maps for every operation history and hasher (engine E1).
//!
//! A tiny `MapLike` adapter per map type, one generic `MapSpec` that steps the real map and a
//! `BTreeMap` in lock-step.
//!
//! Alphabet.  Mutators are `Insert(k)`, `Remove(k)`, `SetMut(k)` (`*get_mut(k) = v`), `Clear` and, where the
//! type offers it, `Compact` (`GoldHashMap::revoke_deleted`).  The value written by `Insert`/`SetMut` is not
//! part of the alphabet: it is `1000 + number of mutators applied so far`, i.e. every write stores a value
//! that identifies the write (strictly more discriminating than a {0,1} value alphabet, and it keeps the
//! branching factor at 3·|K|+1).  All maps under test treat values as opaque.
//!
//! Projections.  The engine does not extend a history whose visit failed.  `ZiporaHashMap::iter()` yields
//! tombstones, so in the full-oracle subjects nothing behind the first `Insert(k) Remove(k)` is explored.
//! The `[...,noiter]` subjects run the same map with every observer except `iter()`; they exist *in addition
//! to* the full-oracle subjects so that the insert/remove/get clauses are checked on histories with tombstones.

use std::collections::hash_map::DefaultHasher;
use std::collections::BTreeMap;
use std::hash::{BuildHasher, Hash, Hasher};
use std::path::Path;
use std::sync::Arc;
use zverif::seq::{Seq, SeqSpec};
use zverif::{check, Fail, Tier};

use zipora::containers::specialized::{EasyHashMap, GoldHashIdx, HashStrMap, SmallMap};
use zipora::hash_map::{GoldHashMap, GoldHashMapConfig, IterationStrategy, LinkType, ZiporaHashMap, ZiporaHashMapConfig};
use zipora::memory::{SecureMemoryPool, SecurePoolConfig};
use zipora::string::FastStr;

// ---------------------------------------------------------------------------------------------
// hostile hashers

/// Every key hashes to the same constant.
#[derive(Clone, Default)]
pub struct ConstBuild(pub u64);
pub struct ConstHasher(u64);
impl Hasher for ConstHasher {
    fn finish(&self) -> u64 {
        self.0
    }
    fn write(&mut self, _b: &[u8]) {}
}
impl BuildHasher for ConstBuild {
    type Hasher = ConstHasher;
    fn build_hasher(&self) -> ConstHasher {
        ConstHasher(self.0)
    }
}

/// key i (a u64 written with `write_u64`) hashes to table[i % len].
#[derive(Clone, Default)]
pub struct TableBuild(pub Vec<u64>);
pub struct TableHasher(Vec<u64>, u64);
impl Hasher for TableHasher {
    fn finish(&self) -> u64 {
        if self.0.is_empty() {
            self.1
        } else {
            self.0[(self.1 as usize) % self.0.len()]
        }
    }
    fn write(&mut self, b: &[u8]) {
        for x in b {
            self.1 = self.1.wrapping_mul(31).wrapping_add(*x as u64);
        }
    }
    fn write_u64(&mut self, v: u64) {
        self.1 = v;
    }
}
impl BuildHasher for TableBuild {
    type Hasher = TableHasher;
    fn build_hasher(&self) -> TableHasher {
        TableHasher(self.0.clone(), 0)
    }
}

/// A deterministic "ordinary" hasher (SipHash with fixed keys).
#[derive(Clone, Default)]
pub struct FixedSip;
impl BuildHasher for FixedSip {
    type Hasher = DefaultHasher;
    fn build_hasher(&self) -> DefaultHasher {
        DefaultHasher::new()
    }
}

// ---------------------------------------------------------------------------------------------
// key types

/// The adapters are generic over the key type; operations and the model keep naming keys by a `u64`.
pub trait ZKey: Hash + Eq + Clone + 'static {
    fn mk(k: u64) -> Self;
    fn back(&self) -> u64;
}
impl ZKey for u64 {
    fn mk(k: u64) -> u64 {
        k
    }
    fn back(&self) -> u64 {
        *self
    }
}

/// (coverage audit) A key whose `Hash` feeds only `group` to the hasher while `Eq` compares `(group, id)`: keys
/// `10 g + i` (i < 10) of one group have the IDENTICAL full 64-bit hash under every hasher (also the fixed / randomly
/// seeded ones), keys of different groups hash like the plain `u64` values g.  Maps that cache a hash per slot
/// (`bucket.hash == hash && bucket.key == key`) are only correct if the key comparison is really made.
#[derive(Clone, PartialEq, Eq, Debug)]
pub struct GK {
    group: u64,
    id: u64,
}
impl Hash for GK {
    fn hash<H: Hasher>(&self, h: &mut H) {
        h.write_u64(self.group);
    }
}
impl ZKey for GK {
    fn mk(k: u64) -> GK {
        GK { group: k / 10, id: k % 10 }
    }
    fn back(&self) -> u64 {
        self.group * 10 + self.id
    }
}

// ---------------------------------------------------------------------------------------------
// adapter

pub trait MapLike {
    /// `Err` = the map refused the insertion (allowed: nothing may change then)
    fn insert(&mut self, k: u64, v: u64) -> Result<Option<u64>, String>;
    /// `Err` = the map refused the removal (allowed: nothing may change then)
    fn remove(&mut self, k: u64) -> Result<Option<u64>, String>;
    fn get(&self, k: u64) -> Option<u64>;
    /// `None` = operation not offered
    fn set_via_get_mut(&mut self, k: u64, v: u64) -> Option<bool>;
    fn contains(&self, k: u64) -> bool;
    fn len(&self) -> usize;
    /// false = `clear` not offered
    fn clear(&mut self) -> bool;
    /// `None` = iteration not offered; `Some(Err(msg))` = iterating panicked (the adapter catches the panic so that
    /// it is reported under clause `iter`, not lumped with panics of the mutators under clause `panic`)
    fn entries(&self) -> Option<Result<Vec<(u64, u64)>, String>>;
    /// a mutator that must not change the abstract map (`revoke_deleted`); `None` = not offered
    fn compact(&mut self) -> Option<Result<(), String>> {
        None
    }
    /// `insert` reports the previous value (false: `EasyHashMap::put` returns `()`)
    fn insert_reports_previous(&self) -> bool {
        true
    }
    // ---- coverage audit: further entry points of the public API, each "where offered" (`None` = not offered)
    /// a second insertion entry point (bulk / by-value variants); afterwards k maps to v
    fn insert2(&mut self, _k: u64, _v: u64) -> Option<Result<(), String>> {
        None
    }
    /// entry API: the value stored for k afterwards (the old one if k was present, else v)
    fn get_or_insert(&mut self, _k: u64, _v: u64) -> Option<Result<u64, String>> {
        None
    }
    /// `retain(|key, _| key != k)`; false = not offered
    fn retain_not(&mut self, _k: u64) -> bool {
        false
    }
    /// maintenance operations that must not change the abstract map: 0 = shrink_to_fit, 1 = reserve(8), 2 = toggle the hash cache
    fn maint(&mut self, _which: u8) -> Option<Result<(), String>> {
        None
    }
    /// a second lookup entry point (`get_fast`, `get_batch`, `get_by_fast_str`, `get_or_default`); `Err` = it panicked
    fn get2(&self, _k: u64) -> Option<Result<Option<u64>, String>> {
        None
    }
    /// `Clone`
    fn clone_box(&self) -> Option<Box<dyn MapLike>> {
        None
    }
}

impl<K: ZKey, S: BuildHasher> MapLike for ZiporaHashMap<K, u64, S> {
    fn insert(&mut self, k: u64, v: u64) -> Result<Option<u64>, String> {
        ZiporaHashMap::insert(self, K::mk(k), v).map_err(|e| e.to_string())
    }
    fn remove(&mut self, k: u64) -> Result<Option<u64>, String> {
        Ok(ZiporaHashMap::remove(self, &K::mk(k)))
    }
    fn get(&self, k: u64) -> Option<u64> {
        ZiporaHashMap::get(self, &K::mk(k)).copied()
    }
    fn set_via_get_mut(&mut self, k: u64, v: u64) -> Option<bool> {
        Some(match ZiporaHashMap::get_mut(self, &K::mk(k)) {
            Some(slot) => {
                *slot = v;
                true
            }
            None => false,
        })
    }
    fn contains(&self, k: u64) -> bool {
        ZiporaHashMap::contains_key(self, &K::mk(k))
    }
    fn len(&self) -> usize {
        ZiporaHashMap::len(self)
    }
    fn clear(&mut self) -> bool {
        ZiporaHashMap::clear(self);
        true
    }
    fn entries(&self) -> Option<Result<Vec<(u64, u64)>, String>> {
        Some(Ok(self.iter().map(|(k, v)| (k.back(), *v)).collect()))
    }
}

/// The same map with `iter()` left out of the observers (see the module comment).
pub struct NoIter<M: MapLike>(pub M);
impl<M: MapLike> MapLike for NoIter<M> {
    fn insert(&mut self, k: u64, v: u64) -> Result<Option<u64>, String> {
        self.0.insert(k, v)
    }
    fn remove(&mut self, k: u64) -> Result<Option<u64>, String> {
        self.0.remove(k)
    }
    fn get(&self, k: u64) -> Option<u64> {
        self.0.get(k)
    }
    fn set_via_get_mut(&mut self, k: u64, v: u64) -> Option<bool> {
        self.0.set_via_get_mut(k, v)
    }
    fn contains(&self, k: u64) -> bool {
        self.0.contains(k)
    }
    fn len(&self) -> usize {
        self.0.len()
    }
    fn clear(&mut self) -> bool {
        self.0.clear()
    }
    fn entries(&self) -> Option<Result<Vec<(u64, u64)>, String>> {
        None
    }
    fn compact(&mut self) -> Option<Result<(), String>> {
        self.0.compact()
    }
    fn insert_reports_previous(&self) -> bool {
        self.0.insert_reports_previous()
    }
}

/// (coverage audit) GoldHashMap driven through `reserve`, `set_hash_caching` and `iter_with_strategy(Safe)` as well.
pub struct GoldX<K: ZKey, L: LinkType>(pub GoldHashMap<K, u64, L>);
impl<K: ZKey, L: LinkType + 'static> MapLike for GoldX<K, L> {
    fn insert(&mut self, k: u64, v: u64) -> Result<Option<u64>, String> {
        MapLike::insert(&mut self.0, k, v)
    }
    fn remove(&mut self, k: u64) -> Result<Option<u64>, String> {
        MapLike::remove(&mut self.0, k)
    }
    fn get(&self, k: u64) -> Option<u64> {
        MapLike::get(&self.0, k)
    }
    fn set_via_get_mut(&mut self, k: u64, v: u64) -> Option<bool> {
        self.0.set_via_get_mut(k, v)
    }
    fn contains(&self, k: u64) -> bool {
        MapLike::contains(&self.0, k)
    }
    fn len(&self) -> usize {
        MapLike::len(&self.0)
    }
    fn clear(&mut self) -> bool {
        MapLike::clear(&mut self.0)
    }
    fn entries(&self) -> Option<Result<Vec<(u64, u64)>, String>> {
        // explicitly the Safe strategy (the configured default may be Fast, which is documented to yield deleted entries)
        Some(Ok(self.0.iter_with_strategy(IterationStrategy::Safe).map(|(k, v)| (k.back(), *v)).collect()))
    }
    fn compact(&mut self) -> Option<Result<(), String>> {
        self.0.compact()
    }
    fn maint(&mut self, which: u8) -> Option<Result<(), String>> {
        match which {
            1 => Some(self.0.reserve(8).map_err(|e| e.to_string())),
            2 => {
                let on = self.0.is_hash_cached();
                self.0.set_hash_caching(!on);
                Some(Ok(()))
            }
            _ => None,
        }
    }
}

impl<K: ZKey, L: LinkType> MapLike for GoldHashMap<K, u64, L> {
    fn insert(&mut self, k: u64, v: u64) -> Result<Option<u64>, String> {
        GoldHashMap::insert(self, K::mk(k), v).map_err(|e| e.to_string())
    }
    fn remove(&mut self, k: u64) -> Result<Option<u64>, String> {
        GoldHashMap::remove(self, &K::mk(k)).map_err(|e| e.to_string())
    }
    fn get(&self, k: u64) -> Option<u64> {
        GoldHashMap::get(self, &K::mk(k)).copied()
    }
    fn set_via_get_mut(&mut self, k: u64, v: u64) -> Option<bool> {
        Some(match GoldHashMap::get_mut(self, &K::mk(k)) {
            Some(slot) => {
                *slot = v;
                true
            }
            None => false,
        })
    }
    fn contains(&self, k: u64) -> bool {
        GoldHashMap::contains_key(self, &K::mk(k))
    }
    fn len(&self) -> usize {
        GoldHashMap::len(self)
    }
    fn clear(&mut self) -> bool {
        GoldHashMap::clear(self);
        true
    }
    fn entries(&self) -> Option<Result<Vec<(u64, u64)>, String>> {
        Some(Ok(self.iter().map(|(k, v)| (k.back(), *v)).collect()))
    }
    fn compact(&mut self) -> Option<Result<(), String>> {
        Some(self.revoke_deleted().map_err(|e| e.to_string()))
    }
}

impl<K: ZKey> MapLike for GoldHashIdx<K, u64> {
    fn insert(&mut self, k: u64, v: u64) -> Result<Option<u64>, String> {
        GoldHashIdx::insert(self, K::mk(k), v).map_err(|e| e.to_string())
    }
    fn remove(&mut self, k: u64) -> Result<Option<u64>, String> {
        Ok(GoldHashIdx::remove(self, &K::mk(k)))
    }
    fn get(&self, k: u64) -> Option<u64> {
        GoldHashIdx::get(self, &K::mk(k)).copied()
    }
    fn set_via_get_mut(&mut self, k: u64, v: u64) -> Option<bool> {
        Some(match GoldHashIdx::get_mut(self, &K::mk(k)) {
            Some(slot) => {
                *slot = v;
                true
            }
            None => false,
        })
    }
    fn contains(&self, k: u64) -> bool {
        GoldHashIdx::contains_key(self, &K::mk(k))
    }
    fn len(&self) -> usize {
        GoldHashIdx::len(self)
    }
    fn clear(&mut self) -> bool {
        false
    }
    fn entries(&self) -> Option<Result<Vec<(u64, u64)>, String>> {
        None
    }
}

/// (coverage audit) GoldHashIdx with `insert_batch`, `get_batch` and `shrink_to_fit`.
pub struct IdxX<K: ZKey>(pub GoldHashIdx<K, u64>);
impl<K: ZKey> MapLike for IdxX<K> {
    fn insert(&mut self, k: u64, v: u64) -> Result<Option<u64>, String> {
        MapLike::insert(&mut self.0, k, v)
    }
    fn remove(&mut self, k: u64) -> Result<Option<u64>, String> {
        MapLike::remove(&mut self.0, k)
    }
    fn get(&self, k: u64) -> Option<u64> {
        MapLike::get(&self.0, k)
    }
    fn set_via_get_mut(&mut self, k: u64, v: u64) -> Option<bool> {
        self.0.set_via_get_mut(k, v)
    }
    fn contains(&self, k: u64) -> bool {
        MapLike::contains(&self.0, k)
    }
    fn len(&self) -> usize {
        MapLike::len(&self.0)
    }
    fn clear(&mut self) -> bool {
        false
    }
    fn entries(&self) -> Option<Result<Vec<(u64, u64)>, String>> {
        None
    }
    fn insert2(&mut self, k: u64, v: u64) -> Option<Result<(), String>> {
        // the key twice in one batch (the second one is a replacement) plus the pre-sizing step of insert_batch
        Some(self.0.insert_batch(vec![(K::mk(k), v ^ 0xFFFF), (K::mk(k), v)]).map_err(|e| e.to_string()))
    }
    fn get2(&self, k: u64) -> Option<Result<Option<u64>, String>> {
        let r = self.0.get_batch(&[K::mk(k), K::mk(k)]);
        Some(if r.len() == 2 && r[0] == r[1] { Ok(r[0].copied()) } else { Err(format!("get_batch([k,k]) returned {:?}", r)) })
    }
    fn maint(&mut self, which: u8) -> Option<Result<(), String>> {
        if which == 0 {
            self.0.shrink_to_fit();
            Some(Ok(()))
        } else {
            None
        }
    }
}

/// (coverage audit) `SmallMap<u8, V>`: the only key type with a specialised (SIMD) lookup, `get_fast`.
pub struct SmallU8(pub SmallMap<u8, u64>);
fn u8_key(k: u64) -> u8 {
    if k == ABSENT_KEY {
        0xFE
    } else {
        k as u8
    }
}
impl MapLike for SmallU8 {
    fn insert(&mut self, k: u64, v: u64) -> Result<Option<u64>, String> {
        self.0.insert(u8_key(k), v).map_err(|e| e.to_string())
    }
    fn remove(&mut self, k: u64) -> Result<Option<u64>, String> {
        Ok(self.0.remove(&u8_key(k)))
    }
    fn get(&self, k: u64) -> Option<u64> {
        self.0.get(&u8_key(k)).copied()
    }
    fn set_via_get_mut(&mut self, k: u64, v: u64) -> Option<bool> {
        Some(match self.0.get_mut(&u8_key(k)) {
            Some(slot) => {
                *slot = v;
                true
            }
            None => false,
        })
    }
    fn contains(&self, k: u64) -> bool {
        self.0.contains_key(&u8_key(k))
    }
    fn len(&self) -> usize {
        self.0.len()
    }
    fn clear(&mut self) -> bool {
        self.0.clear();
        true
    }
    fn entries(&self) -> Option<Result<Vec<(u64, u64)>, String>> {
        Some(Ok(self.0.iter().map(|(k, v)| (*k as u64, *v)).collect()))
    }
    fn get2(&self, k: u64) -> Option<Result<Option<u64>, String>> {
        Some(zverif::util::catch(|| self.0.get_fast(&u8_key(k)).copied()).map_err(|f| format!("panicked: {}", f.detail)))
    }
    fn clone_box(&self) -> Option<Box<dyn MapLike>> {
        Some(Box::new(SmallU8(self.0.clone())))
    }
}

/// (coverage audit) SmallMap<u64,u64> with `Clone` offered (clone of the inline and of the promoted representation).
pub struct SmallClone<K: ZKey>(pub SmallMap<K, u64>);
impl<K: ZKey> MapLike for SmallClone<K> {
    fn insert(&mut self, k: u64, v: u64) -> Result<Option<u64>, String> {
        MapLike::insert(&mut self.0, k, v)
    }
    fn remove(&mut self, k: u64) -> Result<Option<u64>, String> {
        MapLike::remove(&mut self.0, k)
    }
    fn get(&self, k: u64) -> Option<u64> {
        MapLike::get(&self.0, k)
    }
    fn set_via_get_mut(&mut self, k: u64, v: u64) -> Option<bool> {
        self.0.set_via_get_mut(k, v)
    }
    fn contains(&self, k: u64) -> bool {
        MapLike::contains(&self.0, k)
    }
    fn len(&self) -> usize {
        MapLike::len(&self.0)
    }
    fn clear(&mut self) -> bool {
        MapLike::clear(&mut self.0)
    }
    fn entries(&self) -> Option<Result<Vec<(u64, u64)>, String>> {
        self.0.entries()
    }
    fn clone_box(&self) -> Option<Box<dyn MapLike>> {
        Some(Box::new(SmallClone(self.0.clone())))
    }
}

/// (coverage audit) EasyHashMap with its further entry points: `extend`, `get_or_insert`, `retain`, `shrink_to_fit`,
/// `reserve`, `get_or_default` (the map is built with default value `u64::MAX`).
pub struct EasyX<K: ZKey>(pub EasyHashMap<K, u64>);
impl<K: ZKey> MapLike for EasyX<K> {
    fn insert(&mut self, k: u64, v: u64) -> Result<Option<u64>, String> {
        MapLike::insert(&mut self.0, k, v)
    }
    fn remove(&mut self, k: u64) -> Result<Option<u64>, String> {
        MapLike::remove(&mut self.0, k)
    }
    fn get(&self, k: u64) -> Option<u64> {
        MapLike::get(&self.0, k)
    }
    fn set_via_get_mut(&mut self, _k: u64, _v: u64) -> Option<bool> {
        None
    }
    fn contains(&self, k: u64) -> bool {
        MapLike::contains(&self.0, k)
    }
    fn len(&self) -> usize {
        MapLike::len(&self.0)
    }
    fn clear(&mut self) -> bool {
        MapLike::clear(&mut self.0)
    }
    fn entries(&self) -> Option<Result<Vec<(u64, u64)>, String>> {
        None
    }
    fn insert_reports_previous(&self) -> bool {
        false
    }
    fn insert2(&mut self, k: u64, v: u64) -> Option<Result<(), String>> {
        self.0.extend(vec![(K::mk(k), v ^ 0xFFFF), (K::mk(k), v)]);
        Some(Ok(()))
    }
    fn get_or_insert(&mut self, k: u64, v: u64) -> Option<Result<u64, String>> {
        // both spellings of the entry point, chosen by the (deterministic) value: get_or_insert / get_or_insert_with
        if v % 2 == 0 {
            Some(self.0.get_or_insert(K::mk(k), v).map(|r| *r).map_err(|e| e.to_string()))
        } else {
            Some(self.0.get_or_insert_with(K::mk(k), || v).map(|r| *r).map_err(|e| e.to_string()))
        }
    }
    fn retain_not(&mut self, k: u64) -> bool {
        self.0.retain(|key, _| key.back() != k);
        true
    }
    fn maint(&mut self, which: u8) -> Option<Result<(), String>> {
        match which {
            0 => {
                self.0.shrink_to_fit();
                Some(Ok(()))
            }
            1 => {
                self.0.reserve(8);
                Some(self.0.try_reserve(8).map_err(|e| e.to_string()))
            }
            _ => None,
        }
    }
    fn get2(&self, k: u64) -> Option<Result<Option<u64>, String>> {
        Some(zverif::util::catch(|| *self.0.get_or_default(&K::mk(k))).map(|v| if v == u64::MAX { None } else { Some(v) }).map_err(|f| format!("panicked: {}", f.detail)))
    }
}

/// (coverage audit) ZiporaHashMap with `String` keys and borrowed `&str` lookups (`K: Borrow<Q>`).
pub struct ZStr<S: BuildHasher>(pub ZiporaHashMap<String, u64, S>);
impl<S: BuildHasher> MapLike for ZStr<S> {
    fn insert(&mut self, k: u64, v: u64) -> Result<Option<u64>, String> {
        self.0.insert(str_key(k), v).map_err(|e| e.to_string())
    }
    fn remove(&mut self, k: u64) -> Result<Option<u64>, String> {
        Ok(self.0.remove::<str>(str_key(k).as_str()))
    }
    fn get(&self, k: u64) -> Option<u64> {
        self.0.get::<str>(str_key(k).as_str()).copied()
    }
    fn set_via_get_mut(&mut self, k: u64, v: u64) -> Option<bool> {
        Some(match self.0.get_mut::<str>(str_key(k).as_str()) {
            Some(slot) => {
                *slot = v;
                true
            }
            None => false,
        })
    }
    fn contains(&self, k: u64) -> bool {
        self.0.contains_key::<str>(str_key(k).as_str())
    }
    fn len(&self) -> usize {
        self.0.len()
    }
    fn clear(&mut self) -> bool {
        self.0.clear();
        true
    }
    fn entries(&self) -> Option<Result<Vec<(u64, u64)>, String>> {
        let mut out = Vec::new();
        for (s, v) in self.0.iter() {
            let k = (0..64u64).find(|k| &str_key(*k) == s).unwrap_or(u64::MAX);
            out.push((k, *v));
        }
        Some(Ok(out))
    }
    fn get2(&self, k: u64) -> Option<Result<Option<u64>, String>> {
        // the owned-key lookup must agree with the borrowed one
        Some(Ok(self.0.get(&str_key(k)).copied()))
    }
}

/// (coverage audit) HashStrMap through its by-value / FastStr entry points.  Keys 5 and 6 are byte strings that are
/// not UTF-8 (a FastStr is a byte string); `remove`/`get_mut` exist for `&str` only and are refused for those.
pub struct StrX(pub HashStrMap<u64>);
fn bytes_key(k: u64) -> Vec<u8> {
    match k {
        5 => vec![0xff],
        6 => vec![0xfe],
        _ => str_key(k).into_bytes(),
    }
}
impl MapLike for StrX {
    fn insert(&mut self, k: u64, v: u64) -> Result<Option<u64>, String> {
        let b = bytes_key(k);
        self.0.insert_fast_str(FastStr::new(&b), v).map_err(|e| e.to_string())
    }
    fn remove(&mut self, k: u64) -> Result<Option<u64>, String> {
        match String::from_utf8(bytes_key(k)) {
            Ok(s) => Ok(self.0.remove(&s)),
            Err(_) => Err("remove takes &str".into()),
        }
    }
    fn get(&self, k: u64) -> Option<u64> {
        let b = bytes_key(k);
        self.0.get_by_fast_str(&FastStr::new(&b)).copied()
    }
    fn set_via_get_mut(&mut self, _k: u64, _v: u64) -> Option<bool> {
        None
    }
    fn contains(&self, k: u64) -> bool {
        self.get(k).is_some()
    }
    fn len(&self) -> usize {
        self.0.len()
    }
    fn clear(&mut self) -> bool {
        self.0.clear_all();
        true
    }
    fn entries(&self) -> Option<Result<Vec<(u64, u64)>, String>> {
        let mut out = Vec::new();
        for (s, v) in self.0.iter() {
            let k = (0..64u64).find(|k| bytes_key(*k) == s.as_bytes()).unwrap_or(u64::MAX);
            out.push((k, *v));
        }
        Some(Ok(out))
    }
    fn insert2(&mut self, k: u64, v: u64) -> Option<Result<(), String>> {
        match String::from_utf8(bytes_key(k)) {
            Ok(s) => Some(self.0.insert_string(s, v).map(|_| ()).map_err(|e| e.to_string())),
            Err(_) => Some(Err("insert_string takes a String".into())),
        }
    }
    fn maint(&mut self, which: u8) -> Option<Result<(), String>> {
        if which == 0 {
            self.0.shrink_to_fit();
            Some(Ok(()))
        } else {
            None
        }
    }
}

impl<K: ZKey> MapLike for SmallMap<K, u64> {
    fn insert(&mut self, k: u64, v: u64) -> Result<Option<u64>, String> {
        SmallMap::insert(self, K::mk(k), v).map_err(|e| e.to_string())
    }
    fn remove(&mut self, k: u64) -> Result<Option<u64>, String> {
        Ok(SmallMap::remove(self, &K::mk(k)))
    }
    fn get(&self, k: u64) -> Option<u64> {
        SmallMap::get(self, &K::mk(k)).copied()
    }
    fn set_via_get_mut(&mut self, k: u64, v: u64) -> Option<bool> {
        Some(match SmallMap::get_mut(self, &K::mk(k)) {
            Some(slot) => {
                *slot = v;
                true
            }
            None => false,
        })
    }
    fn contains(&self, k: u64) -> bool {
        SmallMap::contains_key(self, &K::mk(k))
    }
    fn len(&self) -> usize {
        SmallMap::len(self)
    }
    fn clear(&mut self) -> bool {
        SmallMap::clear(self);
        true
    }
    fn entries(&self) -> Option<Result<Vec<(u64, u64)>, String>> {
        Some(zverif::util::catch(|| self.iter().map(|(k, v)| (k.back(), *v)).collect::<Vec<_>>()).map_err(|f| f.detail))
    }
}

impl<K: ZKey> MapLike for EasyHashMap<K, u64> {
    fn insert(&mut self, k: u64, v: u64) -> Result<Option<u64>, String> {
        self.put(K::mk(k), v);
        Ok(None)
    }
    fn remove(&mut self, k: u64) -> Result<Option<u64>, String> {
        Ok(EasyHashMap::remove(self, &K::mk(k)))
    }
    fn get(&self, k: u64) -> Option<u64> {
        EasyHashMap::get(self, &K::mk(k)).copied()
    }
    fn set_via_get_mut(&mut self, _k: u64, _v: u64) -> Option<bool> {
        // EasyHashMap has no plain get_mut (only get_or_insert*, which is an insertion)
        None
    }
    fn contains(&self, k: u64) -> bool {
        EasyHashMap::contains_key(self, &K::mk(k))
    }
    fn len(&self) -> usize {
        EasyHashMap::len(self)
    }
    fn clear(&mut self) -> bool {
        EasyHashMap::clear(self);
        true
    }
    fn entries(&self) -> Option<Result<Vec<(u64, u64)>, String>> {
        None
    }
    fn insert_reports_previous(&self) -> bool {
        false
    }
}

/// String keys for `HashStrMap`: the empty string, a NUL inside, prefixes of each other, non-ASCII.
fn str_key(k: u64) -> String {
    match k {
        0 => String::new(),
        1 => "a".to_string(),
        2 => "a\0".to_string(),
        3 => "ab".to_string(),
        4 => "\u{e9}".to_string(),
        _ => format!("key_{k}"),
    }
}

impl MapLike for HashStrMap<u64> {
    fn insert(&mut self, k: u64, v: u64) -> Result<Option<u64>, String> {
        HashStrMap::insert(self, &str_key(k), v).map_err(|e| e.to_string())
    }
    fn remove(&mut self, k: u64) -> Result<Option<u64>, String> {
        Ok(HashStrMap::remove(self, &str_key(k)))
    }
    fn get(&self, k: u64) -> Option<u64> {
        HashStrMap::get(self, &str_key(k)).copied()
    }
    fn set_via_get_mut(&mut self, k: u64, v: u64) -> Option<bool> {
        Some(match HashStrMap::get_mut(self, &str_key(k)) {
            Some(slot) => {
                *slot = v;
                true
            }
            None => false,
        })
    }
    fn contains(&self, k: u64) -> bool {
        HashStrMap::contains_key(self, &str_key(k))
    }
    fn len(&self) -> usize {
        HashStrMap::len(self)
    }
    fn clear(&mut self) -> bool {
        HashStrMap::clear(self);
        true
    }
    fn entries(&self) -> Option<Result<Vec<(u64, u64)>, String>> {
        // map the string back to the key index through the probe universe
        let mut out = Vec::new();
        for (s, v) in self.iter() {
            let k = (0..64u64).find(|k| &str_key(*k) == s).unwrap_or(u64::MAX);
            out.push((k, *v));
        }
        Some(Ok(out))
    }
}

// ---------------------------------------------------------------------------------------------
// the spec

#[derive(Clone)]
pub enum Op {
    Insert(u64),
    Remove(u64),
    SetMut(u64),
    Clear,
    Compact,
    // ---- coverage audit (appended)
    Insert2(u64),
    GetOrInsert(u64),
    RetainNot(u64),
    Shrink,
    Reserve,
    ToggleCache,
    CloneSwap,
}

impl std::fmt::Debug for Op {
    fn fmt(&self, f: &mut std::fmt::Formatter<'_>) -> std::fmt::Result {
        match self {
            Op::Insert(k) => write!(f, "Insert({k})"),
            Op::Remove(k) => write!(f, "Remove({k})"),
            Op::SetMut(k) => write!(f, "SetMut({k})"),
            Op::Clear => write!(f, "Clear"),
            Op::Compact => write!(f, "Compact"),
            Op::Insert2(k) => write!(f, "Insert2({k})"),
            Op::GetOrInsert(k) => write!(f, "GetOrInsert({k})"),
            Op::RetainNot(k) => write!(f, "RetainNot({k})"),
            Op::Shrink => write!(f, "Shrink"),
            Op::Reserve => write!(f, "Reserve"),
            Op::ToggleCache => write!(f, "ToggleCache"),
            Op::CloneSwap => write!(f, "CloneSwap"),
        }
    }
}

pub struct St {
    map: Box<dyn MapLike>,
    model: BTreeMap<u64, u64>,
    /// number of mutators applied so far (the value written is 1000 + steps)
    steps: u64,
    /// a `remove` has succeeded since construction / the last `clear` (the table may hold a tombstone)
    removed: bool,
}

pub struct MapSpec {
    pub name: String,
    pub make: Box<dyn Fn() -> Result<Box<dyn MapLike>, String>>,
    pub keys: Vec<u64>,
    /// scripted prefix: insert these keys (value = key) before the exhaustive part
    pub prefill: Vec<u64>,
    pub depth_quick: usize,
    pub depth_thorough: usize,
    pub with_clear: bool,
    pub with_remove: bool,
    pub with_compact: bool,
    /// `*get_mut(k) = v` is in the alphabet (false for types without a plain get_mut)
    pub with_setmut: bool,
    /// maps whose internal hasher is seeded from the OS (`ahash::RandomState` / `AHasher::default()`):
    /// `Insert(k)` of a key that is present is disabled once a `remove` has succeeded, because the outcome
    /// of that one step (duplicate entry behind a tombstone) depends on the per-process seed
    pub random_hasher_guard: bool,
    pub note: &'static str,
    /// (coverage audit) additional mutators, each where the adapter offers it
    pub extra: Extra,
    /// (coverage audit) scripted operations applied after the prefill (start state with tombstones, after clear, ...)
    pub script: Vec<Op>,
}

#[derive(Clone, Copy, Default)]
pub struct Extra {
    pub insert2: bool,
    pub get_or_insert: bool,
    pub retain: bool,
    pub shrink: bool,
    pub reserve: bool,
    pub toggle: bool,
    pub clone: bool,
}

const ABSENT_KEY: u64 = 0xDEAD_0000_0000_0001;

impl SeqSpec for MapSpec {
    type Op = Op;
    type St = St;

    fn name(&self) -> String {
        self.name.clone()
    }
    fn depth(&self, tier: Tier) -> usize {
        tier.pick(self.depth_quick, self.depth_thorough)
    }
    fn bound(&self, tier: Tier) -> String {
        let mut muts = vec!["insert(k,fresh v)"];
        if self.with_remove {
            muts.push("remove(k)");
        }
        if self.with_setmut {
            muts.push("*get_mut(k)=fresh v");
        }
        if self.with_clear {
            muts.push("clear");
        }
        if self.with_compact {
            muts.push("revoke_deleted");
        }
        if self.extra.insert2 {
            muts.push("second insertion entry point (insert_batch / extend / insert_string)(k,fresh v)");
        }
        if self.extra.get_or_insert {
            muts.push("get_or_insert(k,fresh v)");
        }
        if self.extra.retain {
            muts.push("retain(key != k)");
        }
        if self.extra.shrink {
            muts.push("shrink_to_fit");
        }
        if self.extra.reserve {
            muts.push("reserve(8)");
        }
        if self.extra.toggle {
            muts.push("set_hash_caching(!is_hash_cached())");
        }
        if self.extra.clone {
            muts.push("m = m.clone()");
        }
        let script = if self.script.is_empty() { String::new() } else { format!(" and the scripted operations {:?}", self.script) };
        format!(
            "all histories of <= {} mutators from {{{}}} over keys {:?}, after a scripted prefill of {} keys{}; observers after every step: get/contains_key (and the second lookup entry point where offered) on every key + prefill keys + 1 absent key, len, iter() as sorted multiset (where offered){}{}",
            self.depth(tier),
            muts.join(", "),
            self.keys,
            self.prefill.len(),
            script,
            if self.random_hasher_guard { "; insert of a present key is disabled after a successful remove (seed-dependent step)" } else { "" },
            if self.note.is_empty() { String::new() } else { format!("; {}", self.note) }
        )
    }
    fn init(&self, _scratch: &Path) -> Result<St, Fail> {
        let mut map = (self.make)().map_err(|e| Fail::new("construct", e))?;
        let mut model = BTreeMap::new();
        for &k in &self.prefill {
            let r = map.insert(k, k).map_err(|e| Fail::new("prefill_insert_err", e))?;
            let m = model.insert(k, k);
            if map.insert_reports_previous() {
                check!(r == m, "insert_return", "prefill insert({k}) returned {:?}, model {:?}", r, m);
            }
        }
        let mut st = St { map, model, steps: 0, removed: false };
        for op in &self.script {
            self.apply(&mut st, op)?;
        }
        Ok(st)
    }
    fn ops(&self, st: &St) -> Vec<Op> {
        let mut v = Vec::new();
        for &k in &self.keys {
            if self.random_hasher_guard && st.removed && st.model.contains_key(&k) {
                continue;
            }
            v.push(Op::Insert(k));
        }
        if self.with_remove {
            for &k in &self.keys {
                v.push(Op::Remove(k));
            }
        }
        if self.with_setmut {
            for &k in &self.keys {
                v.push(Op::SetMut(k));
            }
        }
        if self.with_clear {
            v.push(Op::Clear);
        }
        if self.with_compact {
            v.push(Op::Compact);
        }
        if self.extra.insert2 {
            for &k in &self.keys {
                v.push(Op::Insert2(k));
            }
        }
        if self.extra.get_or_insert {
            for &k in &self.keys {
                v.push(Op::GetOrInsert(k));
            }
        }
        if self.extra.retain {
            for &k in &self.keys {
                v.push(Op::RetainNot(k));
            }
        }
        if self.extra.shrink {
            v.push(Op::Shrink);
        }
        if self.extra.reserve {
            v.push(Op::Reserve);
        }
        if self.extra.toggle {
            v.push(Op::ToggleCache);
        }
        if self.extra.clone {
            v.push(Op::CloneSwap);
        }
        v
    }
    fn apply(&self, st: &mut St, op: &Op) -> Result<(), Fail> {
        st.steps += 1;
        let v = 1000 + st.steps;
        match *op {
            Op::Insert(k) => match st.map.insert(k, v) {
                Ok(r) => {
                    let m = st.model.insert(k, v);
                    if st.map.insert_reports_previous() {
                        check!(r == m, "insert_return", "insert({k},{v}) returned {:?}, model says {:?}", r, m);
                    }
                }
                Err(e) => {
                    // refused: model unchanged; observers will verify nothing changed — but only refusals the unchanged
                    // library makes as well are tolerated
                    zverif::core::tolerate_refusal(&self.name(), &format!("insert/present={}/len={}", st.model.contains_key(&k), st.model.len().min(9)), &e)?;
                }
            },
            Op::Remove(k) => match st.map.remove(k) {
                Ok(r) => {
                    let m = st.model.remove(&k);
                    check!(r == m, "remove_return", "remove({k}) returned {:?}, model says {:?}", r, m);
                    if m.is_some() {
                        st.removed = true;
                    }
                }
                Err(e) => {
                    zverif::core::tolerate_refusal(&self.name(), &format!("remove/present={}", st.model.contains_key(&k)), &e)?;
                }
            },
            Op::SetMut(k) => {
                if let Some(found) = st.map.set_via_get_mut(k, v) {
                    let m = st.model.get_mut(&k).map(|s| *s = v).is_some();
                    check!(found == m, "get_mut", "get_mut({k}) found={found}, model says present={m}");
                }
            }
            Op::Clear => {
                if st.map.clear() {
                    st.model.clear();
                    st.removed = false;
                }
            }
            Op::Compact => {
                // must not change the abstract map; an Err is a refusal
                let _ = st.map.compact();
            }
            Op::Insert2(k) => {
                if let Some(Ok(())) = st.map.insert2(k, v) {
                    st.model.insert(k, v);
                }
            }
            Op::GetOrInsert(k) => {
                if let Some(r) = st.map.get_or_insert(k, v) {
                    match r {
                        Ok(got) => {
                            let want = *st.model.entry(k).or_insert(v);
                            check!(got == want, "get_or_insert", "*get_or_insert({k},{v}) = {got}, model says {want}");
                        }
                        Err(_e) => {}
                    }
                }
            }
            Op::RetainNot(k) => {
                if st.map.retain_not(k) {
                    if st.model.remove(&k).is_some() {
                        st.removed = true;
                    }
                }
            }
            Op::Shrink => {
                let _ = st.map.maint(0);
            }
            Op::Reserve => {
                let _ = st.map.maint(1);
            }
            Op::ToggleCache => {
                let _ = st.map.maint(2);
            }
            Op::CloneSwap => {
                if let Some(c) = st.map.clone_box() {
                    st.map = c;
                }
            }
        }
        Ok(())
    }
    fn observe(&self, st: &mut St, h: &mut DefaultHasher) -> Result<(), Fail> {
        st.model.hash(h);
        let mut probes = self.keys.clone();
        for &k in &self.prefill {
            if !probes.contains(&k) {
                probes.push(k);
            }
        }
        probes.push(ABSENT_KEY);
        for &k in &probes {
            let g = st.map.get(k);
            let m = st.model.get(&k).copied();
            check!(g == m, "get", "get({k}) = {:?}, model says {:?}", g, m);
            let c = st.map.contains(k);
            check!(c == m.is_some(), "contains_key", "contains_key({k}) = {c}, model says {}", m.is_some());
            if let Some(r) = st.map.get2(k) {
                match r {
                    Ok(g2) => check!(g2 == m, "get", "second lookup entry point ({k}) = {:?}, model says {:?}", g2, m),
                    Err(msg) => return Err(Fail::new("get", format!("second lookup entry point ({k}) {msg}, model says {:?}", m))),
                }
            }
        }
        let l = st.map.len();
        check!(l == st.model.len(), "len", "len() = {l}, model says {}", st.model.len());
        if let Some(r) = st.map.entries() {
            let mut e = r.map_err(|msg| Fail::new("iter", format!("iter() {msg}")))?;
            e.sort();
            let m: Vec<(u64, u64)> = st.model.iter().map(|(k, v)| (*k, *v)).collect();
            check!(e == m, "iter", "iter() yields {:?}, model says {:?}", e, m);
        }
        Ok(())
    }
}

// ---------------------------------------------------------------------------------------------
// subject constructors

struct P {
    keys: Vec<u64>,
    prefill: Vec<u64>,
    dq: usize,
    dt: usize,
}

fn p(keys: &[u64], prefill: Vec<u64>, dq: usize, dt: usize) -> P {
    P { keys: keys.to_vec(), prefill, dq, dt }
}

fn spec(label: &str, make: Box<dyn Fn() -> Result<Box<dyn MapLike>, String>>, p: P) -> MapSpec {
    MapSpec {
        name: label.to_string(),
        make,
        keys: p.keys,
        prefill: p.prefill,
        depth_quick: p.dq,
        depth_thorough: p.dt,
        with_clear: true,
        with_remove: true,
        with_compact: false,
        with_setmut: true,
        random_hasher_guard: false,
        note: "",
        extra: Extra::default(),
        script: Vec::new(),
    }
}

fn zipora_spec<S: BuildHasher + Clone + 'static>(
    label: &str,
    cfg: impl Fn() -> ZiporaHashMapConfig + 'static,
    hasher: S,
    noiter: bool,
    p: P,
) -> Seq<MapSpec> {
    let mut s = spec(
        label,
        Box::new(move || {
            let m = ZiporaHashMap::<u64, u64, S>::with_config_and_hasher(cfg(), hasher.clone()).map_err(|e| e.to_string())?;
            Ok(if noiter { Box::new(NoIter(m)) as Box<dyn MapLike> } else { Box::new(m) as Box<dyn MapLike> })
        }),
        p,
    );
    if noiter {
        s.note = "projection: iter() is not observed (it yields tombstones; see the full-oracle subject)";
    }
    Seq(s)
}

fn pool_cfg() -> ZiporaHashMapConfig {
    let pool = SecureMemoryPool::new(SecurePoolConfig::small_secure()).expect("SecureMemoryPool::new(small_secure)");
    ZiporaHashMapConfig::concurrent_pool(pool)
}

fn sip(k: u64) -> u64 {
    let mut h = DefaultHasher::new();
    k.hash(&mut h);
    h.finish()
}

/// The first `n` keys >= `from` whose GoldHashMap bucket (SipHash(0,0) mod `buckets`) equals the bucket of `anchor`.
fn gold_colliding(anchor: u64, buckets: u64, from: u64, n: usize) -> Vec<u64> {
    let want = sip(anchor) % buckets;
    (from..).filter(|k| sip(*k) % buckets == want).take(n).collect()
}

/// The first `n` keys whose GoldHashMap buckets (SipHash(0,0) mod `buckets`) are pairwise different: a slot that is
/// re-used by a *different* key then belongs to a different chain (a stale cached hash or link shows up at the
/// next relink), which the all-colliding alphabet cannot show.
fn gold_spread(buckets: u64, n: usize) -> Vec<u64> {
    let mut seen = Vec::new();
    let mut out = Vec::new();
    for k in 0u64.. {
        let b = sip(k) % buckets;
        if !seen.contains(&b) {
            seen.push(b);
            out.push(k);
            if out.len() == n {
                break;
            }
        }
    }
    out
}

fn gold_cfg(cap: usize, cache: bool, gc: bool, reuse: bool) -> GoldHashMapConfig {
    GoldHashMapConfig {
        initial_capacity: cap,
        load_factor: 0.7,
        enable_hash_cache: cache,
        enable_auto_gc: gc,
        enable_freelist_reuse: reuse,
        default_iteration_strategy: IterationStrategy::Safe,
    }
}

fn gold_spec<L: LinkType + 'static>(label: &str, cfg: impl Fn() -> GoldHashMapConfig + 'static, p: P) -> Seq<MapSpec> {
    let mut s = spec(label, Box::new(move || Ok(Box::new(GoldHashMap::<u64, u64, L>::with_config(cfg())) as Box<dyn MapLike>)), p);
    s.with_compact = true;
    Seq(s)
}

fn main() {
    zverif::main_with("C06", |reg, _tier| {
        let k4: &[u64] = &[0, 1, 2, 3];
        let k3: &[u64] = &[0, 1, 2];
        let k2: &[u64] = &[0, 1];
        let dflt = ZiporaHashMapConfig::default;

        // ---- ZiporaHashMap, default preset (Standard storage), hostile hashers: full oracle
        reg.add(zipora_spec("ZiporaHashMap[default]/FixedSip", dflt, FixedSip, false, p(k4, vec![], 4, 5)));
        reg.add(zipora_spec("ZiporaHashMap[default]/Const(7)", dflt, ConstBuild(7), false, p(k4, vec![], 4, 5)));
        reg.add(zipora_spec("ZiporaHashMap[default]/Const(0)", dflt, ConstBuild(0), false, p(k3, vec![], 3, 4)));
        reg.add(zipora_spec("ZiporaHashMap[default]/Const(MAX)", dflt, ConstBuild(u64::MAX), false, p(k3, vec![], 3, 4)));
        reg.add(zipora_spec(
            "ZiporaHashMap[default]/Table(0,MAX,15,16)",
            dflt,
            TableBuild(vec![0, u64::MAX, 15, 16]),
            false,
            p(k4, vec![], 3, 4),
        ));
        // start from non-initial states: grown tables (16 -> 32 -> 64 slots)
        reg.add(zipora_spec("ZiporaHashMap[default]/FixedSip/prefill40", dflt, FixedSip, false, p(&[0, 1, 100], (10..50).collect(), 3, 4)));

        // ---- the same storage without the iter() observer: histories with tombstones
        reg.add(zipora_spec("ZiporaHashMap[default,noiter]/Const(7)", dflt, ConstBuild(7), true, p(k2, vec![], 5, 7)));
        // hashes 5 and 21: same home slot (5) in a 16-slot table, different stored hash values
        reg.add(zipora_spec("ZiporaHashMap[default,noiter]/Table(5,21)", dflt, TableBuild(vec![5, 21]), true, p(k2, vec![], 5, 7)));
        // a full 16-slot table (prefill 14 + 2): removal/re-insertion at 100% load and across the resize to 32
        reg.add(zipora_spec("ZiporaHashMap[default,noiter]/FixedSip/prefill14", dflt, FixedSip, true, p(k2, (10..24).collect(), 5, 6)));

        // ---- concurrent_pool preset (falls back to Standard storage with 64 slots)
        reg.add(zipora_spec("ZiporaHashMap[concurrent_pool]/FixedSip", pool_cfg, FixedSip, false, p(k3, vec![], 4, 5)));
        reg.add(zipora_spec("ZiporaHashMap[concurrent_pool]/Const(7)", pool_cfg, ConstBuild(7), false, p(k3, vec![], 4, 5)));
        reg.add(zipora_spec("ZiporaHashMap[concurrent_pool,noiter]/Const(7)", pool_cfg, ConstBuild(7), true, p(k2, vec![], 5, 6)));

        // ---- presets whose storage back end is selected by the config
        reg.add(zipora_spec("ZiporaHashMap[cache_optimized]/FixedSip", ZiporaHashMapConfig::cache_optimized, FixedSip, false, p(k2, vec![], 4, 5)));
        reg.add(zipora_spec("ZiporaHashMap[string_optimized]/FixedSip", ZiporaHashMapConfig::string_optimized, FixedSip, false, p(k2, vec![], 4, 5)));
        reg.add(zipora_spec("ZiporaHashMap[small_inline(4)]/FixedSip", || ZiporaHashMapConfig::small_inline(4), FixedSip, false, p(k2, vec![], 4, 5)));
        reg.add(zipora_spec("ZiporaHashMap[small_inline(16)]/FixedSip", || ZiporaHashMapConfig::small_inline(16), FixedSip, false, p(k2, vec![], 4, 5)));

        // ---- GoldHashMap: chained buckets; 5 buckets initially (rehash to 11 at the 4th key, to 23 at the 8th);
        //      the four keys share one bucket of the 5-bucket table (SipHash(0,0) % 5), so every chain operation
        //      (head/middle/tail unlink, freelist reuse) is reached
        let g4 = gold_colliding(0, 5, 0, 4);
        let g3: Vec<u64> = g4[..3].to_vec();
        let gpre: Vec<u64> = gold_colliding(0, 5, 1000, 6); // six more keys in the same residue class
        reg.add(gold_spec::<u32>("GoldHashMap[u32,cap5]", || gold_cfg(1, false, false, true), p(&g4, vec![], 4, 6)));
        reg.add(gold_spec::<u64>("GoldHashMap[u64,cap5]", || gold_cfg(1, false, false, true), p(&g4, vec![], 4, 5)));
        reg.add(gold_spec::<u32>("GoldHashMap[u32,cap5,hash_cache]", || gold_cfg(1, true, false, true), p(&g4, vec![], 4, 5)));
        reg.add(gold_spec::<u32>("GoldHashMap[u32,cap5,auto_gc]", || gold_cfg(1, false, true, true), p(&g4, vec![], 4, 5)));
        reg.add(gold_spec::<u64>("GoldHashMap[u64,cap5,auto_gc,hash_cache]", || gold_cfg(1, true, true, true), p(&g4, vec![], 4, 5)));
        reg.add(gold_spec::<u32>("GoldHashMap[u32,cap5,no_freelist_reuse]", || gold_cfg(1, false, false, false), p(&g4, vec![], 4, 5)));
        reg.add(gold_spec::<u32>("GoldHashMap[u32,cap5,hash_cache]/prefill6", || gold_cfg(1, true, false, true), p(&g3, gpre.clone(), 3, 4)));
        reg.add(gold_spec::<u32>("GoldHashMap[u32,cap5,auto_gc]/prefill6", || gold_cfg(1, false, true, true), p(&g3, gpre.clone(), 3, 4)));
        // keys in pairwise different buckets (of the 5- and of the 11-bucket table where possible)
        let s4 = gold_spread(5, 4);
        reg.add(gold_spec::<u32>("GoldHashMap[u32,cap5]/spread", || gold_cfg(1, false, false, true), p(&s4, vec![], 4, 5)));
        reg.add(gold_spec::<u32>("GoldHashMap[u32,cap5,hash_cache]/spread", || gold_cfg(1, true, false, true), p(&s4, vec![], 4, 5)));
        reg.add(gold_spec::<u64>("GoldHashMap[u64,cap5,auto_gc,hash_cache]/spread", || gold_cfg(1, true, true, true), p(&s4, vec![], 4, 5)));
        reg.add(gold_spec::<u32>("GoldHashMap[small()]/spread", GoldHashMapConfig::small, p(&s4, vec![], 4, 5)));
        reg.add(gold_spec::<u32>("GoldHashMap[u32,cap5,hash_cache]/spread/prefill6", || gold_cfg(1, true, false, true), p(&s4[..3], (100..106).collect(), 4, 5)));
        reg.add(gold_spec::<u32>("GoldHashMap[small()]", GoldHashMapConfig::small, p(&g4, vec![], 3, 4)));
        reg.add(gold_spec::<u32>("GoldHashMap[high_churn()]", GoldHashMapConfig::high_churn, p(&g4, vec![], 3, 4)));

        // ---- GoldHashIdx (open addressing with re-insertion of the following cluster on removal; AHasher::default())
        let idx = |label: &str, make: Box<dyn Fn() -> Result<Box<dyn MapLike>, String>>, p: P| {
            let mut s = spec(label, make, p);
            s.with_clear = false;
            s.note = "hash seed is per process (AHasher::default()): each shard explores the space under its own hash function";
            Seq(s)
        };
        reg.add(idx("GoldHashIdx/new", Box::new(|| Ok(Box::new(GoldHashIdx::<u64, u64>::new()) as Box<dyn MapLike>)), p(k4, vec![], 4, 6)));
        // 11 of 16 slots used: long clusters, and the resize to 32 slots happens at the 13th key
        reg.add(idx("GoldHashIdx/prefill11", Box::new(|| Ok(Box::new(GoldHashIdx::<u64, u64>::new()) as Box<dyn MapLike>)), p(&[0, 1, 10], (10..21).collect(), 4, 5)));
        reg.add(idx(
            "GoldHashIdx/with_pool/prefill11",
            Box::new(|| {
                let pool = SecureMemoryPool::new(SecurePoolConfig::small_secure()).map_err(|e| e.to_string())?;
                Ok(Box::new(GoldHashIdx::<u64, u64>::with_pool(16, pool as Arc<SecureMemoryPool>)) as Box<dyn MapLike>)
            }),
            p(&[0, 1, 10], (10..21).collect(), 3, 4),
        ));

        // ---- SmallMap: inline arrays up to SMALL_MAP_THRESHOLD = 8, promoted to ZiporaHashMap at the 9th key
        let small = |label: &str, p: P| Seq(spec(label, Box::new(|| Ok(Box::new(SmallMap::<u64, u64>::new()) as Box<dyn MapLike>)), p));
        reg.add(small("SmallMap/new", p(k4, vec![], 4, 6)));
        reg.add(small("SmallMap/prefill5", p(k3, (10..15).collect(), 4, 5))); // 5..8 entries: the partially unrolled search paths
        reg.add(small("SmallMap/prefill7", p(k2, (10..17).collect(), 4, 5))); // 7, 8 (full inline), 9 (promoted)
        reg.add(small("SmallMap/prefill8", p(&[0, 10], (10..18).collect(), 4, 5))); // key 10 is present: replace at the threshold must not promote

        // ---- EasyHashMap (ZiporaHashMap<K,V,ahash::RandomState> inside: per-process hash seed)
        let easy = |label: &str, make: Box<dyn Fn() -> Result<Box<dyn MapLike>, String>>, with_remove: bool, p: P| {
            let mut s = spec(label, make, p);
            s.with_remove = with_remove;
            s.with_setmut = false;
            s.random_hasher_guard = true;
            s.note = "hash seed is per process (ahash::RandomState)";
            Seq(s)
        };
        reg.add(easy("EasyHashMap/new", Box::new(|| Ok(Box::new(EasyHashMap::<u64, u64>::new()) as Box<dyn MapLike>)), true, p(k4, vec![], 4, 5)));
        // put() re-creates the map at load 12/16: crossing the growth step, without removals
        reg.add(easy("EasyHashMap/prefill11", Box::new(|| Ok(Box::new(EasyHashMap::<u64, u64>::new()) as Box<dyn MapLike>)), false, p(k3, (10..21).collect(), 3, 4)));
        // auto_grow off: the inner table fills to 16/16 and is resized by ZiporaHashMap itself
        reg.add(easy(
            "EasyHashMap[builder,auto_grow=false]/prefill15",
            Box::new(|| Ok(Box::new(EasyHashMap::<u64, u64>::initial_capacity(16).auto_grow(false).build()) as Box<dyn MapLike>)),
            false,
            p(k3, (10..25).collect(), 3, 4),
        ));

        // ---- HashStrMap (std HashMap<String, V> inside)
        reg.add(Seq(spec("HashStrMap/new", Box::new(|| Ok(Box::new(HashStrMap::<u64>::new()) as Box<dyn MapLike>)), p(&[0, 1, 2, 3, 4], vec![], 3, 4))));
        reg.add(Seq(spec("HashStrMap/prefill30", Box::new(|| Ok(Box::new(HashStrMap::<u64>::with_capacity(1)) as Box<dyn MapLike>)), p(&[0, 1, 10], (10..40).collect(), 3, 4))));

        // =====================================================================================
        // coverage audit (notes/C06.md "## Coverage audit"): new subjects only, appended; the subjects above are unchanged.
        const AUDIT: &str = "coverage audit";
        let audit = |mut s: MapSpec, f: &dyn Fn(&mut MapSpec)| -> Seq<MapSpec> {
            s.note = AUDIT;
            f(&mut s);
            Seq(s)
        };

        // ---- (1) ZiporaHashMap Standard storage: the resize (16 -> 32 slots, taken when all 16 slots are live) INSIDE the explored
        //          alphabet with the full oracle, also with every key on one probe run; non-power-of-two capacities
        //          (`with_capacity(n)` / EasyHashMap::shrink_to_fit build `mask = n - 1`, i.e. only a subset of the slots is addressable)
        let zs = |label: &str, make: Box<dyn Fn() -> Result<Box<dyn MapLike>, String>>, p: P| spec(label, make, p);
        reg.add(audit(zipora_spec("ZiporaHashMap[default]/FixedSip/prefill15", dflt, FixedSip, false, p(k3, (10..25).collect(), 4, 5)).0, &|_| {}));
        reg.add(audit(zipora_spec("ZiporaHashMap[default]/Const(7)/prefill15", dflt, ConstBuild(7), false, p(k3, (10..25).collect(), 4, 5)).0, &|_| {}));
        reg.add(audit(zipora_spec("ZiporaHashMap[default]/Identity/prefill15", dflt, TableBuild(vec![]), false, p(&[0, 16, 32], (1..16).collect(), 4, 5)).0, &|_| {}));
        // tombstones already present when the exhaustive part starts (prefill 15, then three removals)
        reg.add(audit(zipora_spec("ZiporaHashMap[default]/FixedSip/prefill15-3", dflt, FixedSip, false, p(&[0, 1, 10, 11], (10..25).collect(), 3, 4)).0, &|s| {
            s.script = vec![Op::Remove(10), Op::Remove(17), Op::Remove(24)]
        }));
        reg.add(audit(
            zs(
                "ZiporaHashMap::with_capacity(20)/FixedSip/prefill6",
                Box::new(|| ZiporaHashMap::<u64, u64, FixedSip>::with_capacity(20).map(|m| Box::new(m) as Box<dyn MapLike>).map_err(|e| e.to_string())),
                p(k3, (10..16).collect(), 4, 5),
            ),
            &|_| {},
        ));
        reg.add(audit(
            zs(
                "ZiporaHashMap::with_capacity(17)/Identity",
                Box::new(|| ZiporaHashMap::<u64, u64, TableBuild>::with_capacity(17).map(|m| Box::new(m) as Box<dyn MapLike>).map_err(|e| e.to_string())),
                p(&[0, 1, 16, 17], vec![], 4, 5),
            ),
            &|_| {},
        ));
        reg.add(audit(
            zs(
                "ZiporaHashMap::with_capacity(100)/FixedSip/prefill30",
                Box::new(|| ZiporaHashMap::<u64, u64, FixedSip>::with_capacity(100).map(|m| Box::new(m) as Box<dyn MapLike>).map_err(|e| e.to_string())),
                p(k3, (10..40).collect(), 3, 4),
            ),
            &|_| {},
        ));
        // String keys, borrowed &str lookups
        reg.add(audit(
            zs(
                "ZiporaHashMap<String,u64>[default]/FixedSip",
                Box::new(|| {
                    ZiporaHashMap::<String, u64, FixedSip>::with_config_and_hasher(ZiporaHashMapConfig::default(), FixedSip)
                        .map(|m| Box::new(ZStr(m)) as Box<dyn MapLike>)
                        .map_err(|e| e.to_string())
                }),
                p(&[0, 1, 2, 3, 4], vec![], 3, 4),
            ),
            &|_| {},
        ));
        reg.add(audit(
            zs(
                "ZiporaHashMap<String,u64>[default]/Const(7)",
                Box::new(|| {
                    ZiporaHashMap::<String, u64, ConstBuild>::with_config_and_hasher(ZiporaHashMapConfig::default(), ConstBuild(7))
                        .map(|m| Box::new(ZStr(m)) as Box<dyn MapLike>)
                        .map_err(|e| e.to_string())
                }),
                p(&[0, 1, 2, 3], vec![], 3, 4),
            ),
            &|_| {},
        ));

        // ---- (2) SmallMap<u8, V>: the SIMD lookup `get_fast` is used for 5..=8 inline entries; key 0 is what the padding lanes hold
        let small_u8 = |label: &str, p: P| spec(label, Box::new(|| Ok(Box::new(SmallU8(SmallMap::<u8, u64>::new())) as Box<dyn MapLike>)), p);
        reg.add(audit(small_u8("SmallMap<u8,u64>/get_fast/new", p(&[0, 1, 2, 255], vec![], 4, 5)), &|s| s.extra.clone = true));
        // key 0 present in the start state (8 entries incl. key 0 after two more inserts; 9 = promoted)
        reg.add(audit(small_u8("SmallMap<u8,u64>/get_fast/prefill[0,10..15]", p(&[0, 1, 2], vec![0, 10, 11, 12, 13, 14], 4, 5)), &|_| {}));
        // the same without key 0 in the alphabet at all: 4..=8 entries, get_fast of present keys, of an absent non-zero key
        reg.add(audit(small_u8("SmallMap<u8,u64>/get_fast/nonzero-keys", p(&[1, 2, 128, 255], vec![10, 11, 12, 13], 4, 5)), &|_| {}));
        let small_clone = |label: &str, p: P| spec(label, Box::new(|| Ok(Box::new(SmallClone(SmallMap::<u64, u64>::new())) as Box<dyn MapLike>)), p);
        reg.add(audit(small_clone("SmallMap/prefill7+clone", p(k2, (10..17).collect(), 4, 5)), &|s| s.extra.clone = true));

        // ---- (3) EasyHashMap: the fragment that was excluded while ZiporaHashMap duplicated keys behind tombstones (repaired since):
        //          put of a present key after a removal, growth with tombstones present; and the remaining entry points
        let easy_x = |label: &str, make: Box<dyn Fn() -> Result<Box<dyn MapLike>, String>>, p: P| {
            let mut s = spec(label, make, p);
            s.with_setmut = false;
            s.extra.insert2 = true;
            s.extra.get_or_insert = true;
            s.extra.retain = true;
            s
        };
        let easy_default: fn() -> Result<Box<dyn MapLike>, String> = || Ok(Box::new(EasyX(EasyHashMap::<u64, u64>::with_default(u64::MAX))) as Box<dyn MapLike>);
        reg.add(audit(easy_x("EasyHashMap[with_default]/all-entry-points", Box::new(easy_default), p(k2, vec![], 4, 5)), &|_| {}));
        reg.add(audit(easy_x("EasyHashMap[with_default]/all-entry-points/prefill11", Box::new(easy_default), p(&[0, 10], (10..21).collect(), 3, 4)), &|s| {
            s.extra.shrink = true;
            s.extra.reserve = true;
        }));
        // grown to 64 slots by the prefill; shrink_to_fit then rebuilds with capacity 2*len (not a power of two)
        reg.add(audit(easy_x("EasyHashMap[with_default]/prefill13+shrink", Box::new(easy_default), p(&[0, 10], (10..23).collect(), 3, 4)), &|s| {
            s.extra.shrink = true;
            s.extra.get_or_insert = false;
            s.extra.insert2 = false;
        }));
        reg.add(audit(
            easy_x(
                "EasyHashMap[builder,max_load_factor=0.1]",
                Box::new(|| Ok(Box::new(EasyX(EasyHashMap::<u64, u64>::with_default_value(u64::MAX).max_load_factor(0.1).build())) as Box<dyn MapLike>)),
                p(k3, vec![], 3, 4),
            ),
            &|s| {
                s.extra.insert2 = false;
                s.extra.retain = false;
            },
        ));

        // ---- (4) GoldHashMap: reserve / set_hash_caching as mutators; presets with keys that really share a bucket of THEIR table
        //          (the g4 keys collide modulo 5 only); default config, large(); extreme load factors; explicit Safe iteration
        let gold_x = |label: &str, cfg: fn() -> GoldHashMapConfig, p: P| {
            let mut s = spec(label, Box::new(move || Ok(Box::new(GoldX(GoldHashMap::<u64, u64, u32>::with_config(cfg()))) as Box<dyn MapLike>)), p);
            s.with_compact = true;
            s
        };
        // two keys, one step deeper: insert, insert, remove, toggle, then a relink (compact / reserve / growth) is the shortest history
        // in which a cache built by set_hash_caching(true) over a table with a deleted slot is actually read
        reg.add(audit(gold_x("GoldHashMap[u32,cap5]/reserve+toggle_cache", || gold_cfg(1, false, false, true), p(&g3[..2], vec![], 5, 6)), &|s| {
            s.extra.reserve = true;
            s.extra.toggle = true;
        }));
        reg.add(audit(gold_x("GoldHashMap[u32,cap5,auto_gc,hash_cache]/spread/reserve+toggle_cache", || gold_cfg(1, true, true, true), p(&s4[..3], vec![], 4, 5)), &|s| {
            s.extra.reserve = true;
            s.extra.toggle = true;
        }));
        let c23 = gold_colliding(0, 23, 0, 4);
        let c97 = gold_colliding(0, 97, 0, 4);
        let c1741 = gold_colliding(0, 1741, 0, 3);
        reg.add(audit(gold_x("GoldHashMap[small()]/collide23", GoldHashMapConfig::small, p(&c23, vec![], 4, 5)), &|_| {}));
        reg.add(audit(gold_x("GoldHashMap[default()]/collide23", GoldHashMapConfig::default, p(&c23, vec![], 4, 5)), &|_| {}));
        reg.add(audit(gold_x("GoldHashMap[high_churn()]/collide97", GoldHashMapConfig::high_churn, p(&c97, vec![], 4, 5)), &|_| {}));
        reg.add(audit(gold_x("GoldHashMap[large()]/collide1741", GoldHashMapConfig::large, p(&c1741, vec![], 3, 4)), &|_| {}));
        reg.add(audit(
            gold_x(
                "GoldHashMap[u32,cap5,load=0.1]",
                || {
                    let mut c = gold_cfg(1, true, false, true);
                    c.load_factor = 0.1;
                    c
                },
                p(&g4, vec![], 4, 5),
            ),
            &|_| {},
        ));
        reg.add(audit(
            gold_x(
                "GoldHashMap[u32,cap5,load=0.999]",
                || {
                    let mut c = gold_cfg(1, true, false, true);
                    c.load_factor = 0.999;
                    c
                },
                p(&g4, vec![], 4, 5),
            ),
            &|_| {},
        ));
        reg.add(audit(
            gold_x(
                "GoldHashMap[u32,cap5,default_iter=Fast]/iter_with_strategy(Safe)",
                || {
                    let mut c = gold_cfg(1, false, false, true);
                    c.default_iteration_strategy = IterationStrategy::Fast;
                    c
                },
                p(&g3, vec![], 4, 5),
            ),
            &|_| {},
        ));
        // 23 -> 47 buckets at the 17th key
        reg.add(audit(gold_x("GoldHashMap[small()]/prefill15", GoldHashMapConfig::small, p(&c23[..3], (100..115).collect(), 3, 4)), &|_| {}));

        // ---- (5) GoldHashIdx: insert_batch (pre-sizing resize_to + duplicate key in one batch), get_batch, shrink_to_fit, with_capacity
        let idx_x = |label: &str, make: Box<dyn Fn() -> Result<Box<dyn MapLike>, String>>, p: P| {
            let mut s = spec(label, make, p);
            s.with_clear = false;
            s.extra.insert2 = true;
            s.extra.shrink = true;
            s
        };
        reg.add(audit(idx_x("GoldHashIdx/new/batch+shrink", Box::new(|| Ok(Box::new(IdxX(GoldHashIdx::<u64, u64>::new())) as Box<dyn MapLike>)), p(k3, vec![], 4, 5)), &|_| {}));
        // 13 keys: the table has grown to 32 slots; after one removal shrink_to_fit goes back to 16
        reg.add(audit(idx_x("GoldHashIdx/prefill13/batch+shrink", Box::new(|| Ok(Box::new(IdxX(GoldHashIdx::<u64, u64>::new())) as Box<dyn MapLike>)), p(&[0, 10, 11], (10..23).collect(), 3, 4)), &|_| {}));
        reg.add(audit(idx_x("GoldHashIdx::with_capacity(100)/prefill13/batch+shrink", Box::new(|| Ok(Box::new(IdxX(GoldHashIdx::<u64, u64>::with_capacity(100))) as Box<dyn MapLike>)), p(&[0, 10], (10..23).collect(), 3, 4)), &|_| {}));

        // ---- (6) HashStrMap: insert_string / insert_fast_str / get_by_fast_str / clear_all / shrink_to_fit
        reg.add(audit(spec("HashStrMap/fast_str+insert_string", Box::new(|| Ok(Box::new(StrX(HashStrMap::<u64>::new())) as Box<dyn MapLike>)), p(&[0, 1, 2, 4], vec![], 3, 4)), &|s| {
            s.with_setmut = false;
            s.extra.insert2 = true;
            s.extra.shrink = true;
        }));
        reg.add(audit(spec("HashStrMap/fast_str/non-utf8-keys", Box::new(|| Ok(Box::new(StrX(HashStrMap::<u64>::new())) as Box<dyn MapLike>)), p(&[1, 5, 6], vec![], 3, 4)), &|s| {
            s.with_setmut = false;
        }));

        // ---- (7) groups of DISTINCT keys with the IDENTICAL full 64-bit hash (key type GK: Hash feeds only k / 10), plus keys in
        //          other groups, for every map that stores / compares a cached hash next to the key.  Keys 0,1,2 = group 0,
        //          10,11 = group 1, 20 = group 2.  Colliding modulo the capacity (the alphabets above) never makes
        //          `stored_hash == hash` true for a different key; here it is true for every pair of one group.
        let grp4: &[u64] = &[0, 1, 2, 10];
        let grp5: &[u64] = &[0, 1, 10, 11, 20];
        let gpre7: Vec<u64> = vec![30, 31, 40, 41, 50, 60, 70]; // prefill: two more groups of two + singles
        // GoldHashIdx (AHasher::default(): fixed hasher, hence the key type)
        let idx_g = |label: &str, make: Box<dyn Fn() -> Result<Box<dyn MapLike>, String>>, p: P| {
            let mut s = spec(label, make, p);
            s.with_clear = false;
            s
        };
        reg.add(audit(idx_g("GoldHashIdx<GK>/equal-hash-groups", Box::new(|| Ok(Box::new(GoldHashIdx::<GK, u64>::new()) as Box<dyn MapLike>)), p(grp4, vec![], 4, 5)), &|_| {}));
        reg.add(audit(idx_g("GoldHashIdx<GK>/equal-hash-groups/5keys", Box::new(|| Ok(Box::new(GoldHashIdx::<GK, u64>::new()) as Box<dyn MapLike>)), p(grp5, vec![], 3, 4)), &|_| {}));
        reg.add(audit(idx_g("GoldHashIdx<GK>/equal-hash-groups/prefill7+batch+shrink", Box::new(|| Ok(Box::new(IdxX(GoldHashIdx::<GK, u64>::new())) as Box<dyn MapLike>)), p(&[0, 1, 30], gpre7.clone(), 3, 4)), &|s| {
            s.extra.insert2 = true;
            s.extra.shrink = true;
        }));
        // GoldHashMap (DefaultHasher::new(): fixed hasher); the optional hash cache is what relink() trusts
        let gold_g = |label: &str, cfg: fn() -> GoldHashMapConfig, p: P| {
            let mut s = spec(label, Box::new(move || Ok(Box::new(GoldX(GoldHashMap::<GK, u64, u32>::with_config(cfg()))) as Box<dyn MapLike>)), p);
            s.with_compact = true;
            s
        };
        reg.add(audit(gold_g("GoldHashMap<GK>[u32,cap5]/equal-hash-groups", || gold_cfg(1, false, false, true), p(grp4, vec![], 4, 5)), &|_| {}));
        reg.add(audit(gold_g("GoldHashMap<GK>[u32,cap5,hash_cache]/equal-hash-groups", || gold_cfg(1, true, false, true), p(grp4, vec![], 4, 5)), &|_| {}));
        reg.add(audit(gold_g("GoldHashMap<GK>[u32,cap5,auto_gc,hash_cache]/equal-hash-groups/5keys", || gold_cfg(1, true, true, true), p(grp5, vec![], 3, 4)), &|_| {}));
        reg.add(audit(gold_g("GoldHashMap<GK>[u32,cap5,hash_cache]/equal-hash-groups/prefill7", || gold_cfg(1, true, false, true), p(&[0, 1, 30], gpre7.clone(), 3, 4)), &|s| {
            s.extra.reserve = true;
            s.extra.toggle = true;
        }));
        // ZiporaHashMap standard storage (`entry.hash == hash && entry.key == key`): groups + other groups under an ordinary hasher
        // (Const(7) above makes ALL keys equal; Identity puts group g on home slot g)
        let zip_g = |label: &str, make: Box<dyn Fn() -> Result<Box<dyn MapLike>, String>>, p: P| spec(label, make, p);
        reg.add(audit(
            zip_g(
                "ZiporaHashMap<GK>[default]/FixedSip/equal-hash-groups",
                Box::new(|| ZiporaHashMap::<GK, u64, FixedSip>::with_config_and_hasher(ZiporaHashMapConfig::default(), FixedSip).map(|m| Box::new(m) as Box<dyn MapLike>).map_err(|e| e.to_string())),
                p(grp4, vec![], 4, 5),
            ),
            &|_| {},
        ));
        reg.add(audit(
            zip_g(
                "ZiporaHashMap<GK>[default]/Identity/equal-hash-groups/5keys",
                Box::new(|| ZiporaHashMap::<GK, u64, TableBuild>::with_config_and_hasher(ZiporaHashMapConfig::default(), TableBuild(vec![])).map(|m| Box::new(m) as Box<dyn MapLike>).map_err(|e| e.to_string())),
                p(grp5, vec![], 3, 4),
            ),
            &|_| {},
        ));
        // groups 1 and 17 share home slot 1 of the 16-slot table but have different hashes; 10,11 / 170,171 are equal-hash pairs
        reg.add(audit(
            zip_g(
                "ZiporaHashMap<GK>[default]/Identity/equal-hash-groups/same-slot-groups",
                Box::new(|| ZiporaHashMap::<GK, u64, TableBuild>::with_config_and_hasher(ZiporaHashMapConfig::default(), TableBuild(vec![])).map(|m| Box::new(m) as Box<dyn MapLike>).map_err(|e| e.to_string())),
                p(&[10, 11, 170, 171], vec![], 4, 5),
            ),
            &|_| {},
        ));
        reg.add(audit(
            zip_g(
                "ZiporaHashMap<GK>[default]/FixedSip/equal-hash-groups/prefill14",
                Box::new(|| ZiporaHashMap::<GK, u64, FixedSip>::with_config_and_hasher(ZiporaHashMapConfig::default(), FixedSip).map(|m| Box::new(m) as Box<dyn MapLike>).map_err(|e| e.to_string())),
                p(&[0, 1, 30], vec![30, 31, 32, 40, 41, 50, 51, 60, 70, 80, 90, 100, 110, 120], 3, 4),
            ),
            &|_| {},
        ));
        // SmallMap after the promotion (ZiporaHashMap<K, V, ahash::RandomState> inside) and EasyHashMap (the same map inside)
        reg.add(audit(spec("SmallMap<GK>/equal-hash-groups/prefill7", Box::new(|| Ok(Box::new(SmallClone(SmallMap::<GK, u64>::new())) as Box<dyn MapLike>)), p(&[0, 1, 30], gpre7.clone(), 4, 5)), &|s| s.extra.clone = true));
        reg.add(audit(spec("SmallMap<GK>/equal-hash-groups/prefill8", Box::new(|| Ok(Box::new(SmallMap::<GK, u64>::new()) as Box<dyn MapLike>)), p(&[0, 1, 2, 30], vec![30, 31, 40, 41, 50, 60, 70, 80], 3, 4)), &|_| {}));
        let easy_g = |label: &str, p: P| {
            let mut s = spec(label, Box::new(|| Ok(Box::new(EasyX(EasyHashMap::<GK, u64>::with_default(u64::MAX))) as Box<dyn MapLike>)), p);
            s.with_setmut = false;
            s.extra.get_or_insert = true;
            s
        };
        reg.add(audit(easy_g("EasyHashMap<GK>/equal-hash-groups", p(grp4, vec![], 3, 4)), &|_| {}));
        reg.add(audit(easy_g("EasyHashMap<GK>/equal-hash-groups/prefill10", p(&[0, 1, 30], vec![30, 31, 32, 40, 41, 50, 60, 70, 80, 90], 3, 4)), &|s| {
            s.extra.retain = true;
            s.extra.shrink = true;
        }));
    });
}
