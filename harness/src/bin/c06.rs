//! C06 — hash maps behave as maps for every operation history and hasher (engine E1).
//!
//! Worked example of an E1 subject family: a tiny `MapLike` adapter per map type, one generic
//! `MapSpec` that steps the real map and a `BTreeMap` in lock-step.

use std::collections::BTreeMap;
use std::collections::hash_map::DefaultHasher;
use std::hash::{BuildHasher, Hash, Hasher};
use std::path::Path;
use zverif::seq::{Seq, SeqSpec};
use zverif::{check, Fail, Tier};

use zipora::hash_map::{ZiporaHashMap, ZiporaHashMapConfig};

// ---------------------------------------------------------------------------------------------
// hostile hashers

/// Every key hashes to the same constant.
#[derive(Clone, Default)]
pub struct ConstBuild(pub u64);
pub struct ConstHasher(u64);
impl Hasher for ConstHasher {
    fn finish(&self) -> u64 {
        self.0
    }
    fn write(&mut self, _b: &[u8]) {}
}
impl BuildHasher for ConstBuild {
    type Hasher = ConstHasher;
    fn build_hasher(&self) -> ConstHasher {
        ConstHasher(self.0)
    }
}

/// key i (a u64 written with `write_u64`) hashes to table[i % len].
#[derive(Clone, Default)]
pub struct TableBuild(pub Vec<u64>);
pub struct TableHasher(Vec<u64>, u64);
impl Hasher for TableHasher {
    fn finish(&self) -> u64 {
        if self.0.is_empty() {
            self.1
        } else {
            self.0[(self.1 as usize) % self.0.len()]
        }
    }
    fn write(&mut self, b: &[u8]) {
        for x in b {
            self.1 = self.1.wrapping_mul(31).wrapping_add(*x as u64);
        }
    }
    fn write_u64(&mut self, v: u64) {
        self.1 = v;
    }
}
impl BuildHasher for TableBuild {
    type Hasher = TableHasher;
    fn build_hasher(&self) -> TableHasher {
        TableHasher(self.0.clone(), 0)
    }
}

/// A deterministic "ordinary" hasher (SipHash with fixed keys).
#[derive(Clone, Default)]
pub struct FixedSip;
impl BuildHasher for FixedSip {
    type Hasher = DefaultHasher;
    fn build_hasher(&self) -> DefaultHasher {
        DefaultHasher::new()
    }
}

// ---------------------------------------------------------------------------------------------
// adapter

pub trait MapLike {
    /// `Err` = the map refused the insertion (allowed: nothing may change then)
    fn insert(&mut self, k: u64, v: u64) -> Result<Option<u64>, String>;
    fn remove(&mut self, k: u64) -> Option<u64>;
    fn get(&self, k: u64) -> Option<u64>;
    /// `None` = operation not offered
    fn set_via_get_mut(&mut self, k: u64, v: u64) -> Option<bool>;
    fn contains(&self, k: u64) -> bool;
    fn len(&self) -> usize;
    fn clear(&mut self) -> bool;
    /// `None` = iteration not offered
    fn entries(&self) -> Option<Vec<(u64, u64)>>;
}

impl<S: BuildHasher> MapLike for ZiporaHashMap<u64, u64, S> {
    fn insert(&mut self, k: u64, v: u64) -> Result<Option<u64>, String> {
        ZiporaHashMap::insert(self, k, v).map_err(|e| e.to_string())
    }
    fn remove(&mut self, k: u64) -> Option<u64> {
        ZiporaHashMap::remove(self, &k)
    }
    fn get(&self, k: u64) -> Option<u64> {
        ZiporaHashMap::get(self, &k).copied()
    }
    fn set_via_get_mut(&mut self, k: u64, v: u64) -> Option<bool> {
        Some(match ZiporaHashMap::get_mut(self, &k) {
            Some(slot) => {
                *slot = v;
                true
            }
            None => false,
        })
    }
    fn contains(&self, k: u64) -> bool {
        ZiporaHashMap::contains_key(self, &k)
    }
    fn len(&self) -> usize {
        ZiporaHashMap::len(self)
    }
    fn clear(&mut self) -> bool {
        ZiporaHashMap::clear(self);
        true
    }
    fn entries(&self) -> Option<Vec<(u64, u64)>> {
        Some(self.iter().map(|(k, v)| (*k, *v)).collect())
    }
}

// ---------------------------------------------------------------------------------------------
// the spec

#[derive(Clone, Debug)]
pub enum Op {
    Insert(u64, u64),
    Remove(u64),
    SetMut(u64, u64),
    Clear,
}

pub struct St {
    map: Box<dyn MapLike>,
    model: BTreeMap<u64, u64>,
}

pub struct MapSpec {
    pub name: String,
    pub make: Box<dyn Fn() -> Result<Box<dyn MapLike>, String>>,
    pub keys: Vec<u64>,
    /// scripted prefix: insert these keys (value = key) before the exhaustive part
    pub prefill: Vec<u64>,
    pub depth_quick: usize,
    pub depth_thorough: usize,
    pub with_clear: bool,
}

const ABSENT_KEY: u64 = 0xDEAD_0000_0000_0001;

impl SeqSpec for MapSpec {
    type Op = Op;
    type St = St;

    fn name(&self) -> String {
        self.name.clone()
    }
    fn depth(&self, tier: Tier) -> usize {
        tier.pick(self.depth_quick, self.depth_thorough)
    }
    fn bound(&self, tier: Tier) -> String {
        format!(
            "all histories of <= {} mutators from {{insert(k,v), remove(k), *get_mut(k)=v, clear}} over keys {:?} x values {{0,1}}, after prefill of {} keys; observers after every step: get/contains on every key + 1 absent key, len, iter() as sorted multiset",
            self.depth(tier),
            self.keys,
            self.prefill.len()
        )
    }
    fn init(&self, _scratch: &Path) -> Result<St, Fail> {
        let mut map = (self.make)().map_err(|e| Fail::new("construct", e))?;
        let mut model = BTreeMap::new();
        for &k in &self.prefill {
            let r = map.insert(k, k).map_err(|e| Fail::new("prefill_insert_err", e))?;
            let m = model.insert(k, k);
            check!(r == m, "insert_return", "prefill insert({k}) returned {:?}, model {:?}", r, m);
        }
        Ok(St { map, model })
    }
    fn ops(&self, _st: &St) -> Vec<Op> {
        let mut v = Vec::new();
        for &k in &self.keys {
            for val in [0u64, 1] {
                v.push(Op::Insert(k, val));
            }
        }
        for &k in &self.keys {
            v.push(Op::Remove(k));
        }
        for &k in &self.keys {
            v.push(Op::SetMut(k, 1));
        }
        if self.with_clear {
            v.push(Op::Clear);
        }
        v
    }
    fn apply(&self, st: &mut St, op: &Op) -> Result<(), Fail> {
        match *op {
            Op::Insert(k, v) => match st.map.insert(k, v) {
                Ok(r) => {
                    let m = st.model.insert(k, v);
                    check!(r == m, "insert_return", "insert({k},{v}) returned {:?}, model says {:?}", r, m);
                }
                Err(_e) => { /* refused: model unchanged; observers will verify nothing changed */ }
            },
            Op::Remove(k) => {
                let r = st.map.remove(k);
                let m = st.model.remove(&k);
                check!(r == m, "remove_return", "remove({k}) returned {:?}, model says {:?}", r, m);
            }
            Op::SetMut(k, v) => {
                if let Some(found) = st.map.set_via_get_mut(k, v) {
                    let m = st.model.get_mut(&k).map(|s| *s = v).is_some();
                    check!(found == m, "get_mut", "get_mut({k}) found={found}, model says present={m}");
                }
            }
            Op::Clear => {
                if st.map.clear() {
                    st.model.clear();
                }
            }
        }
        Ok(())
    }
    fn observe(&self, st: &mut St, h: &mut DefaultHasher) -> Result<(), Fail> {
        st.model.hash(h);
        let mut probes = self.keys.clone();
        for &k in &self.prefill {
            if !probes.contains(&k) {
                probes.push(k);
            }
        }
        probes.push(ABSENT_KEY);
        for &k in &probes {
            let g = st.map.get(k);
            let m = st.model.get(&k).copied();
            check!(g == m, "get", "get({k}) = {:?}, model says {:?}", g, m);
            let c = st.map.contains(k);
            check!(c == m.is_some(), "contains_key", "contains_key({k}) = {c}, model says {}", m.is_some());
        }
        let l = st.map.len();
        check!(l == st.model.len(), "len", "len() = {l}, model says {}", st.model.len());
        if let Some(mut e) = st.map.entries() {
            e.sort();
            let m: Vec<(u64, u64)> = st.model.iter().map(|(k, v)| (*k, *v)).collect();
            check!(e == m, "iter", "iter() yields {:?}, model says {:?}", e, m);
        }
        Ok(())
    }
}

fn zipora_spec<S: BuildHasher + Clone + 'static>(
    label: &str,
    cfg: fn() -> ZiporaHashMapConfig,
    hasher: S,
    keys: Vec<u64>,
    prefill: Vec<u64>,
    dq: usize,
    dt: usize,
) -> Seq<MapSpec> {
    Seq(MapSpec {
        name: label.to_string(),
        make: Box::new(move || {
            ZiporaHashMap::<u64, u64, S>::with_config_and_hasher(cfg(), hasher.clone())
                .map(|m| Box::new(m) as Box<dyn MapLike>)
                .map_err(|e| e.to_string())
        }),
        keys,
        prefill,
        depth_quick: dq,
        depth_thorough: dt,
        with_clear: true,
    })
}

fn main() {
    zverif::main_with("C06", |reg, _tier| {
        let k4 = vec![0u64, 1, 2, 3];
        let k3 = vec![0u64, 1, 2];
        reg.add(zipora_spec("ZiporaHashMap[default]/FixedSip", ZiporaHashMapConfig::default, FixedSip, k4.clone(), vec![], 4, 5));
        reg.add(zipora_spec("ZiporaHashMap[default]/Const(7)", ZiporaHashMapConfig::default, ConstBuild(7), k4.clone(), vec![], 4, 5));
        reg.add(zipora_spec("ZiporaHashMap[default]/Const(0)", ZiporaHashMapConfig::default, ConstBuild(0), k3.clone(), vec![], 3, 4));
        reg.add(zipora_spec("ZiporaHashMap[default]/Const(MAX)", ZiporaHashMapConfig::default, ConstBuild(u64::MAX), k3.clone(), vec![], 3, 4));
        reg.add(zipora_spec(
            "ZiporaHashMap[default]/Table(0,MAX,15,16)",
            ZiporaHashMapConfig::default,
            TableBuild(vec![0, u64::MAX, 15, 16]),
            k4.clone(),
            vec![],
            3,
            4,
        ));
        // start from non-initial states: grown tables
        reg.add(zipora_spec(
            "ZiporaHashMap[default]/FixedSip/prefill40",
            ZiporaHashMapConfig::default,
            FixedSip,
            vec![0, 1, 100],
            (10..50).collect(),
            3,
            4,
        ));
    });
}
