//! C06 — hash maps behave as maps for every operation history and hasher (engine E1).
//!
//! A tiny `MapLike` adapter per map type, one generic `MapSpec` that steps the real map and a
//! `BTreeMap` in lock-step.
//!
//! Alphabet.  Mutators are `Insert(k)`, `Remove(k)`, `SetMut(k)` (`*get_mut(k) = v`), `Clear` and, where the
//! type offers it, `Compact` (`GoldHashMap::revoke_deleted`).  The value written by `Insert`/`SetMut` is not
//! part of the alphabet: it is `1000 + number of mutators applied so far`, i.e. every write stores a value
//! that identifies the write (strictly more discriminating than a {0,1} value alphabet, and it keeps the
//! branching factor at 3·|K|+1).  All maps under test treat values as opaque.
//!
//! Projections.  The engine does not extend a history whose visit failed.  `ZiporaHashMap::iter()` yields
//! tombstones, so in the full-oracle subjects nothing behind the first `Insert(k) Remove(k)` is explored.
//! The `[...,noiter]` subjects run the same map with every observer except `iter()`; they exist *in addition
//! to* the full-oracle subjects so that the insert/remove/get clauses are checked on histories with tombstones.

use std::collections::hash_map::DefaultHasher;
use std::collections::BTreeMap;
use std::hash::{BuildHasher, Hash, Hasher};
use std::path::Path;
use std::sync::Arc;
use zverif::seq::{Seq, SeqSpec};
use zverif::{check, Fail, Tier};

use zipora::containers::specialized::{EasyHashMap, GoldHashIdx, HashStrMap, SmallMap};
use zipora::hash_map::{GoldHashMap, GoldHashMapConfig, IterationStrategy, LinkType, ZiporaHashMap, ZiporaHashMapConfig};
use zipora::memory::{SecureMemoryPool, SecurePoolConfig};

// ---------------------------------------------------------------------------------------------
// hostile hashers

/// Every key hashes to the same constant.
#[derive(Clone, Default)]
pub struct ConstBuild(pub u64);
pub struct ConstHasher(u64);
impl Hasher for ConstHasher {
    fn finish(&self) -> u64 {
        self.0
    }
    fn write(&mut self, _b: &[u8]) {}
}
impl BuildHasher for ConstBuild {
    type Hasher = ConstHasher;
    fn build_hasher(&self) -> ConstHasher {
        ConstHasher(self.0)
    }
}

/// key i (a u64 written with `write_u64`) hashes to table[i % len].
#[derive(Clone, Default)]
pub struct TableBuild(pub Vec<u64>);
pub struct TableHasher(Vec<u64>, u64);
impl Hasher for TableHasher {
    fn finish(&self) -> u64 {
        if self.0.is_empty() {
            self.1
        } else {
            self.0[(self.1 as usize) % self.0.len()]
        }
    }
    fn write(&mut self, b: &[u8]) {
        for x in b {
            self.1 = self.1.wrapping_mul(31).wrapping_add(*x as u64);
        }
    }
    fn write_u64(&mut self, v: u64) {
        self.1 = v;
    }
}
impl BuildHasher for TableBuild {
    type Hasher = TableHasher;
    fn build_hasher(&self) -> TableHasher {
        TableHasher(self.0.clone(), 0)
    }
}

/// A deterministic "ordinary" hasher (SipHash with fixed keys).
#[derive(Clone, Default)]
pub struct FixedSip;
impl BuildHasher for FixedSip {
    type Hasher = DefaultHasher;
    fn build_hasher(&self) -> DefaultHasher {
        DefaultHasher::new()
    }
}

// ---------------------------------------------------------------------------------------------
// adapter

pub trait MapLike {
    /// `Err` = the map refused the insertion (allowed: nothing may change then)
    fn insert(&mut self, k: u64, v: u64) -> Result<Option<u64>, String>;
    /// `Err` = the map refused the removal (allowed: nothing may change then)
    fn remove(&mut self, k: u64) -> Result<Option<u64>, String>;
    fn get(&self, k: u64) -> Option<u64>;
    /// `None` = operation not offered
    fn set_via_get_mut(&mut self, k: u64, v: u64) -> Option<bool>;
    fn contains(&self, k: u64) -> bool;
    fn len(&self) -> usize;
    /// false = `clear` not offered
    fn clear(&mut self) -> bool;
    /// `None` = iteration not offered; `Some(Err(msg))` = iterating panicked (the adapter catches the panic so that
    /// it is reported under clause `iter`, not lumped with panics of the mutators under clause `panic`)
    fn entries(&self) -> Option<Result<Vec<(u64, u64)>, String>>;
    /// a mutator that must not change the abstract map (`revoke_deleted`); `None` = not offered
    fn compact(&mut self) -> Option<Result<(), String>> {
        None
    }
    /// `insert` reports the previous value (false: `EasyHashMap::put` returns `()`)
    fn insert_reports_previous(&self) -> bool {
        true
    }
}

impl<S: BuildHasher> MapLike for ZiporaHashMap<u64, u64, S> {
    fn insert(&mut self, k: u64, v: u64) -> Result<Option<u64>, String> {
        ZiporaHashMap::insert(self, k, v).map_err(|e| e.to_string())
    }
    fn remove(&mut self, k: u64) -> Result<Option<u64>, String> {
        Ok(ZiporaHashMap::remove(self, &k))
    }
    fn get(&self, k: u64) -> Option<u64> {
        ZiporaHashMap::get(self, &k).copied()
    }
    fn set_via_get_mut(&mut self, k: u64, v: u64) -> Option<bool> {
        Some(match ZiporaHashMap::get_mut(self, &k) {
            Some(slot) => {
                *slot = v;
                true
            }
            None => false,
        })
    }
    fn contains(&self, k: u64) -> bool {
        ZiporaHashMap::contains_key(self, &k)
    }
    fn len(&self) -> usize {
        ZiporaHashMap::len(self)
    }
    fn clear(&mut self) -> bool {
        ZiporaHashMap::clear(self);
        true
    }
    fn entries(&self) -> Option<Result<Vec<(u64, u64)>, String>> {
        Some(Ok(self.iter().map(|(k, v)| (*k, *v)).collect()))
    }
}

/// The same map with `iter()` left out of the observers (see the module comment).
pub struct NoIter<M: MapLike>(pub M);
impl<M: MapLike> MapLike for NoIter<M> {
    fn insert(&mut self, k: u64, v: u64) -> Result<Option<u64>, String> {
        self.0.insert(k, v)
    }
    fn remove(&mut self, k: u64) -> Result<Option<u64>, String> {
        self.0.remove(k)
    }
    fn get(&self, k: u64) -> Option<u64> {
        self.0.get(k)
    }
    fn set_via_get_mut(&mut self, k: u64, v: u64) -> Option<bool> {
        self.0.set_via_get_mut(k, v)
    }
    fn contains(&self, k: u64) -> bool {
        self.0.contains(k)
    }
    fn len(&self) -> usize {
        self.0.len()
    }
    fn clear(&mut self) -> bool {
        self.0.clear()
    }
    fn entries(&self) -> Option<Result<Vec<(u64, u64)>, String>> {
        None
    }
    fn compact(&mut self) -> Option<Result<(), String>> {
        self.0.compact()
    }
    fn insert_reports_previous(&self) -> bool {
        self.0.insert_reports_previous()
    }
}

impl<L: LinkType> MapLike for GoldHashMap<u64, u64, L> {
    fn insert(&mut self, k: u64, v: u64) -> Result<Option<u64>, String> {
        GoldHashMap::insert(self, k, v).map_err(|e| e.to_string())
    }
    fn remove(&mut self, k: u64) -> Result<Option<u64>, String> {
        GoldHashMap::remove(self, &k).map_err(|e| e.to_string())
    }
    fn get(&self, k: u64) -> Option<u64> {
        GoldHashMap::get(self, &k).copied()
    }
    fn set_via_get_mut(&mut self, k: u64, v: u64) -> Option<bool> {
        Some(match GoldHashMap::get_mut(self, &k) {
            Some(slot) => {
                *slot = v;
                true
            }
            None => false,
        })
    }
    fn contains(&self, k: u64) -> bool {
        GoldHashMap::contains_key(self, &k)
    }
    fn len(&self) -> usize {
        GoldHashMap::len(self)
    }
    fn clear(&mut self) -> bool {
        GoldHashMap::clear(self);
        true
    }
    fn entries(&self) -> Option<Result<Vec<(u64, u64)>, String>> {
        Some(Ok(self.iter().map(|(k, v)| (*k, *v)).collect()))
    }
    fn compact(&mut self) -> Option<Result<(), String>> {
        Some(self.revoke_deleted().map_err(|e| e.to_string()))
    }
}

impl MapLike for GoldHashIdx<u64, u64> {
    fn insert(&mut self, k: u64, v: u64) -> Result<Option<u64>, String> {
        GoldHashIdx::insert(self, k, v).map_err(|e| e.to_string())
    }
    fn remove(&mut self, k: u64) -> Result<Option<u64>, String> {
        Ok(GoldHashIdx::remove(self, &k))
    }
    fn get(&self, k: u64) -> Option<u64> {
        GoldHashIdx::get(self, &k).copied()
    }
    fn set_via_get_mut(&mut self, k: u64, v: u64) -> Option<bool> {
        Some(match GoldHashIdx::get_mut(self, &k) {
            Some(slot) => {
                *slot = v;
                true
            }
            None => false,
        })
    }
    fn contains(&self, k: u64) -> bool {
        GoldHashIdx::contains_key(self, &k)
    }
    fn len(&self) -> usize {
        GoldHashIdx::len(self)
    }
    fn clear(&mut self) -> bool {
        false
    }
    fn entries(&self) -> Option<Result<Vec<(u64, u64)>, String>> {
        None
    }
}

impl MapLike for SmallMap<u64, u64> {
    fn insert(&mut self, k: u64, v: u64) -> Result<Option<u64>, String> {
        SmallMap::insert(self, k, v).map_err(|e| e.to_string())
    }
    fn remove(&mut self, k: u64) -> Result<Option<u64>, String> {
        Ok(SmallMap::remove(self, &k))
    }
    fn get(&self, k: u64) -> Option<u64> {
        SmallMap::get(self, &k).copied()
    }
    fn set_via_get_mut(&mut self, k: u64, v: u64) -> Option<bool> {
        Some(match SmallMap::get_mut(self, &k) {
            Some(slot) => {
                *slot = v;
                true
            }
            None => false,
        })
    }
    fn contains(&self, k: u64) -> bool {
        SmallMap::contains_key(self, &k)
    }
    fn len(&self) -> usize {
        SmallMap::len(self)
    }
    fn clear(&mut self) -> bool {
        SmallMap::clear(self);
        true
    }
    fn entries(&self) -> Option<Result<Vec<(u64, u64)>, String>> {
        Some(zverif::util::catch(|| self.iter().map(|(k, v)| (*k, *v)).collect::<Vec<_>>()).map_err(|f| f.detail))
    }
}

impl MapLike for EasyHashMap<u64, u64> {
    fn insert(&mut self, k: u64, v: u64) -> Result<Option<u64>, String> {
        self.put(k, v);
        Ok(None)
    }
    fn remove(&mut self, k: u64) -> Result<Option<u64>, String> {
        Ok(EasyHashMap::remove(self, &k))
    }
    fn get(&self, k: u64) -> Option<u64> {
        EasyHashMap::get(self, &k).copied()
    }
    fn set_via_get_mut(&mut self, _k: u64, _v: u64) -> Option<bool> {
        // EasyHashMap has no plain get_mut (only get_or_insert*, which is an insertion)
        None
    }
    fn contains(&self, k: u64) -> bool {
        EasyHashMap::contains_key(self, &k)
    }
    fn len(&self) -> usize {
        EasyHashMap::len(self)
    }
    fn clear(&mut self) -> bool {
        EasyHashMap::clear(self);
        true
    }
    fn entries(&self) -> Option<Result<Vec<(u64, u64)>, String>> {
        None
    }
    fn insert_reports_previous(&self) -> bool {
        false
    }
}

/// String keys for `HashStrMap`: the empty string, a NUL inside, prefixes of each other, non-ASCII.
fn str_key(k: u64) -> String {
    match k {
        0 => String::new(),
        1 => "a".to_string(),
        2 => "a\0".to_string(),
        3 => "ab".to_string(),
        4 => "\u{e9}".to_string(),
        _ => format!("key_{k}"),
    }
}

impl MapLike for HashStrMap<u64> {
    fn insert(&mut self, k: u64, v: u64) -> Result<Option<u64>, String> {
        HashStrMap::insert(self, &str_key(k), v).map_err(|e| e.to_string())
    }
    fn remove(&mut self, k: u64) -> Result<Option<u64>, String> {
        Ok(HashStrMap::remove(self, &str_key(k)))
    }
    fn get(&self, k: u64) -> Option<u64> {
        HashStrMap::get(self, &str_key(k)).copied()
    }
    fn set_via_get_mut(&mut self, k: u64, v: u64) -> Option<bool> {
        Some(match HashStrMap::get_mut(self, &str_key(k)) {
            Some(slot) => {
                *slot = v;
                true
            }
            None => false,
        })
    }
    fn contains(&self, k: u64) -> bool {
        HashStrMap::contains_key(self, &str_key(k))
    }
    fn len(&self) -> usize {
        HashStrMap::len(self)
    }
    fn clear(&mut self) -> bool {
        HashStrMap::clear(self);
        true
    }
    fn entries(&self) -> Option<Result<Vec<(u64, u64)>, String>> {
        // map the string back to the key index through the probe universe
        let mut out = Vec::new();
        for (s, v) in self.iter() {
            let k = (0..64u64).find(|k| &str_key(*k) == s).unwrap_or(u64::MAX);
            out.push((k, *v));
        }
        Some(Ok(out))
    }
}

// ---------------------------------------------------------------------------------------------
// the spec

#[derive(Clone)]
pub enum Op {
    Insert(u64),
    Remove(u64),
    SetMut(u64),
    Clear,
    Compact,
}

impl std::fmt::Debug for Op {
    fn fmt(&self, f: &mut std::fmt::Formatter<'_>) -> std::fmt::Result {
        match self {
            Op::Insert(k) => write!(f, "Insert({k})"),
            Op::Remove(k) => write!(f, "Remove({k})"),
            Op::SetMut(k) => write!(f, "SetMut({k})"),
            Op::Clear => write!(f, "Clear"),
            Op::Compact => write!(f, "Compact"),
        }
    }
}

pub struct St {
    map: Box<dyn MapLike>,
    model: BTreeMap<u64, u64>,
    /// number of mutators applied so far (the value written is 1000 + steps)
    steps: u64,
    /// a `remove` has succeeded since construction / the last `clear` (the table may hold a tombstone)
    removed: bool,
}

pub struct MapSpec {
    pub name: String,
    pub make: Box<dyn Fn() -> Result<Box<dyn MapLike>, String>>,
    pub keys: Vec<u64>,
    /// scripted prefix: insert these keys (value = key) before the exhaustive part
    pub prefill: Vec<u64>,
    pub depth_quick: usize,
    pub depth_thorough: usize,
    pub with_clear: bool,
    pub with_remove: bool,
    pub with_compact: bool,
    /// `*get_mut(k) = v` is in the alphabet (false for types without a plain get_mut)
    pub with_setmut: bool,
    /// maps whose internal hasher is seeded from the OS (`ahash::RandomState` / `AHasher::default()`):
    /// `Insert(k)` of a key that is present is disabled once a `remove` has succeeded, because the outcome
    /// of that one step (duplicate entry behind a tombstone) depends on the per-process seed
    pub random_hasher_guard: bool,
    pub note: &'static str,
}

const ABSENT_KEY: u64 = 0xDEAD_0000_0000_0001;

impl SeqSpec for MapSpec {
    type Op = Op;
    type St = St;

    fn name(&self) -> String {
        self.name.clone()
    }
    fn depth(&self, tier: Tier) -> usize {
        tier.pick(self.depth_quick, self.depth_thorough)
    }
    fn bound(&self, tier: Tier) -> String {
        let mut muts = vec!["insert(k,fresh v)"];
        if self.with_remove {
            muts.push("remove(k)");
        }
        if self.with_setmut {
            muts.push("*get_mut(k)=fresh v");
        }
        if self.with_clear {
            muts.push("clear");
        }
        if self.with_compact {
            muts.push("revoke_deleted");
        }
        format!(
            "all histories of <= {} mutators from {{{}}} over keys {:?}, after a scripted prefill of {} keys; observers after every step: get/contains_key on every key + prefill keys + 1 absent key, len, iter() as sorted multiset (where offered){}{}",
            self.depth(tier),
            muts.join(", "),
            self.keys,
            self.prefill.len(),
            if self.random_hasher_guard { "; insert of a present key is disabled after a successful remove (seed-dependent step)" } else { "" },
            if self.note.is_empty() { String::new() } else { format!("; {}", self.note) }
        )
    }
    fn init(&self, _scratch: &Path) -> Result<St, Fail> {
        let mut map = (self.make)().map_err(|e| Fail::new("construct", e))?;
        let mut model = BTreeMap::new();
        for &k in &self.prefill {
            let r = map.insert(k, k).map_err(|e| Fail::new("prefill_insert_err", e))?;
            let m = model.insert(k, k);
            if map.insert_reports_previous() {
                check!(r == m, "insert_return", "prefill insert({k}) returned {:?}, model {:?}", r, m);
            }
        }
        Ok(St { map, model, steps: 0, removed: false })
    }
    fn ops(&self, st: &St) -> Vec<Op> {
        let mut v = Vec::new();
        for &k in &self.keys {
            if self.random_hasher_guard && st.removed && st.model.contains_key(&k) {
                continue;
            }
            v.push(Op::Insert(k));
        }
        if self.with_remove {
            for &k in &self.keys {
                v.push(Op::Remove(k));
            }
        }
        if self.with_setmut {
            for &k in &self.keys {
                v.push(Op::SetMut(k));
            }
        }
        if self.with_clear {
            v.push(Op::Clear);
        }
        if self.with_compact {
            v.push(Op::Compact);
        }
        v
    }
    fn apply(&self, st: &mut St, op: &Op) -> Result<(), Fail> {
        st.steps += 1;
        let v = 1000 + st.steps;
        match *op {
            Op::Insert(k) => match st.map.insert(k, v) {
                Ok(r) => {
                    let m = st.model.insert(k, v);
                    if st.map.insert_reports_previous() {
                        check!(r == m, "insert_return", "insert({k},{v}) returned {:?}, model says {:?}", r, m);
                    }
                }
                Err(_e) => { /* refused: model unchanged; observers will verify nothing changed */ }
            },
            Op::Remove(k) => match st.map.remove(k) {
                Ok(r) => {
                    let m = st.model.remove(&k);
                    check!(r == m, "remove_return", "remove({k}) returned {:?}, model says {:?}", r, m);
                    if m.is_some() {
                        st.removed = true;
                    }
                }
                Err(_e) => {}
            },
            Op::SetMut(k) => {
                if let Some(found) = st.map.set_via_get_mut(k, v) {
                    let m = st.model.get_mut(&k).map(|s| *s = v).is_some();
                    check!(found == m, "get_mut", "get_mut({k}) found={found}, model says present={m}");
                }
            }
            Op::Clear => {
                if st.map.clear() {
                    st.model.clear();
                    st.removed = false;
                }
            }
            Op::Compact => {
                // must not change the abstract map; an Err is a refusal
                let _ = st.map.compact();
            }
        }
        Ok(())
    }
    fn observe(&self, st: &mut St, h: &mut DefaultHasher) -> Result<(), Fail> {
        st.model.hash(h);
        let mut probes = self.keys.clone();
        for &k in &self.prefill {
            if !probes.contains(&k) {
                probes.push(k);
            }
        }
        probes.push(ABSENT_KEY);
        for &k in &probes {
            let g = st.map.get(k);
            let m = st.model.get(&k).copied();
            check!(g == m, "get", "get({k}) = {:?}, model says {:?}", g, m);
            let c = st.map.contains(k);
            check!(c == m.is_some(), "contains_key", "contains_key({k}) = {c}, model says {}", m.is_some());
        }
        let l = st.map.len();
        check!(l == st.model.len(), "len", "len() = {l}, model says {}", st.model.len());
        if let Some(r) = st.map.entries() {
            let mut e = r.map_err(|msg| Fail::new("iter", format!("iter() {msg}")))?;
            e.sort();
            let m: Vec<(u64, u64)> = st.model.iter().map(|(k, v)| (*k, *v)).collect();
            check!(e == m, "iter", "iter() yields {:?}, model says {:?}", e, m);
        }
        Ok(())
    }
}

// ---------------------------------------------------------------------------------------------
// subject constructors

struct P {
    keys: Vec<u64>,
    prefill: Vec<u64>,
    dq: usize,
    dt: usize,
}

fn p(keys: &[u64], prefill: Vec<u64>, dq: usize, dt: usize) -> P {
    P { keys: keys.to_vec(), prefill, dq, dt }
}

fn spec(label: &str, make: Box<dyn Fn() -> Result<Box<dyn MapLike>, String>>, p: P) -> MapSpec {
    MapSpec {
        name: label.to_string(),
        make,
        keys: p.keys,
        prefill: p.prefill,
        depth_quick: p.dq,
        depth_thorough: p.dt,
        with_clear: true,
        with_remove: true,
        with_compact: false,
        with_setmut: true,
        random_hasher_guard: false,
        note: "",
    }
}

fn zipora_spec<S: BuildHasher + Clone + 'static>(
    label: &str,
    cfg: impl Fn() -> ZiporaHashMapConfig + 'static,
    hasher: S,
    noiter: bool,
    p: P,
) -> Seq<MapSpec> {
    let mut s = spec(
        label,
        Box::new(move || {
            let m = ZiporaHashMap::<u64, u64, S>::with_config_and_hasher(cfg(), hasher.clone()).map_err(|e| e.to_string())?;
            Ok(if noiter { Box::new(NoIter(m)) as Box<dyn MapLike> } else { Box::new(m) as Box<dyn MapLike> })
        }),
        p,
    );
    if noiter {
        s.note = "projection: iter() is not observed (it yields tombstones; see the full-oracle subject)";
    }
    Seq(s)
}

fn pool_cfg() -> ZiporaHashMapConfig {
    let pool = SecureMemoryPool::new(SecurePoolConfig::small_secure()).expect("SecureMemoryPool::new(small_secure)");
    ZiporaHashMapConfig::concurrent_pool(pool)
}

fn sip(k: u64) -> u64 {
    let mut h = DefaultHasher::new();
    k.hash(&mut h);
    h.finish()
}

/// The first `n` keys >= `from` whose GoldHashMap bucket (SipHash(0,0) mod `buckets`) equals the bucket of `anchor`.
fn gold_colliding(anchor: u64, buckets: u64, from: u64, n: usize) -> Vec<u64> {
    let want = sip(anchor) % buckets;
    (from..).filter(|k| sip(*k) % buckets == want).take(n).collect()
}

/// The first `n` keys whose GoldHashMap buckets (SipHash(0,0) mod `buckets`) are pairwise different: a slot that is
/// re-used by a *different* key then belongs to a different chain (a stale cached hash or link shows up at the
/// next relink), which the all-colliding alphabet cannot show.
fn gold_spread(buckets: u64, n: usize) -> Vec<u64> {
    let mut seen = Vec::new();
    let mut out = Vec::new();
    for k in 0u64.. {
        let b = sip(k) % buckets;
        if !seen.contains(&b) {
            seen.push(b);
            out.push(k);
            if out.len() == n {
                break;
            }
        }
    }
    out
}

fn gold_cfg(cap: usize, cache: bool, gc: bool, reuse: bool) -> GoldHashMapConfig {
    GoldHashMapConfig {
        initial_capacity: cap,
        load_factor: 0.7,
        enable_hash_cache: cache,
        enable_auto_gc: gc,
        enable_freelist_reuse: reuse,
        default_iteration_strategy: IterationStrategy::Safe,
    }
}

fn gold_spec<L: LinkType + 'static>(label: &str, cfg: impl Fn() -> GoldHashMapConfig + 'static, p: P) -> Seq<MapSpec> {
    let mut s = spec(label, Box::new(move || Ok(Box::new(GoldHashMap::<u64, u64, L>::with_config(cfg())) as Box<dyn MapLike>)), p);
    s.with_compact = true;
    Seq(s)
}

fn main() {
    zverif::main_with("C06", |reg, _tier| {
        let k4: &[u64] = &[0, 1, 2, 3];
        let k3: &[u64] = &[0, 1, 2];
        let k2: &[u64] = &[0, 1];
        let dflt = ZiporaHashMapConfig::default;

        // ---- ZiporaHashMap, default preset (Standard storage), hostile hashers: full oracle
        reg.add(zipora_spec("ZiporaHashMap[default]/FixedSip", dflt, FixedSip, false, p(k4, vec![], 4, 5)));
        reg.add(zipora_spec("ZiporaHashMap[default]/Const(7)", dflt, ConstBuild(7), false, p(k4, vec![], 4, 5)));
        reg.add(zipora_spec("ZiporaHashMap[default]/Const(0)", dflt, ConstBuild(0), false, p(k3, vec![], 3, 4)));
        reg.add(zipora_spec("ZiporaHashMap[default]/Const(MAX)", dflt, ConstBuild(u64::MAX), false, p(k3, vec![], 3, 4)));
        reg.add(zipora_spec(
            "ZiporaHashMap[default]/Table(0,MAX,15,16)",
            dflt,
            TableBuild(vec![0, u64::MAX, 15, 16]),
            false,
            p(k4, vec![], 3, 4),
        ));
        // start from non-initial states: grown tables (16 -> 32 -> 64 slots)
        reg.add(zipora_spec("ZiporaHashMap[default]/FixedSip/prefill40", dflt, FixedSip, false, p(&[0, 1, 100], (10..50).collect(), 3, 4)));

        // ---- the same storage without the iter() observer: histories with tombstones
        reg.add(zipora_spec("ZiporaHashMap[default,noiter]/Const(7)", dflt, ConstBuild(7), true, p(k2, vec![], 5, 7)));
        // hashes 5 and 21: same home slot (5) in a 16-slot table, different stored hash values
        reg.add(zipora_spec("ZiporaHashMap[default,noiter]/Table(5,21)", dflt, TableBuild(vec![5, 21]), true, p(k2, vec![], 5, 7)));
        // a full 16-slot table (prefill 14 + 2): removal/re-insertion at 100% load and across the resize to 32
        reg.add(zipora_spec("ZiporaHashMap[default,noiter]/FixedSip/prefill14", dflt, FixedSip, true, p(k2, (10..24).collect(), 5, 6)));

        // ---- concurrent_pool preset (falls back to Standard storage with 64 slots)
        reg.add(zipora_spec("ZiporaHashMap[concurrent_pool]/FixedSip", pool_cfg, FixedSip, false, p(k3, vec![], 4, 5)));
        reg.add(zipora_spec("ZiporaHashMap[concurrent_pool]/Const(7)", pool_cfg, ConstBuild(7), false, p(k3, vec![], 4, 5)));
        reg.add(zipora_spec("ZiporaHashMap[concurrent_pool,noiter]/Const(7)", pool_cfg, ConstBuild(7), true, p(k2, vec![], 5, 6)));

        // ---- presets whose storage back end is selected by the config
        reg.add(zipora_spec("ZiporaHashMap[cache_optimized]/FixedSip", ZiporaHashMapConfig::cache_optimized, FixedSip, false, p(k2, vec![], 4, 5)));
        reg.add(zipora_spec("ZiporaHashMap[string_optimized]/FixedSip", ZiporaHashMapConfig::string_optimized, FixedSip, false, p(k2, vec![], 4, 5)));
        reg.add(zipora_spec("ZiporaHashMap[small_inline(4)]/FixedSip", || ZiporaHashMapConfig::small_inline(4), FixedSip, false, p(k2, vec![], 4, 5)));
        reg.add(zipora_spec("ZiporaHashMap[small_inline(16)]/FixedSip", || ZiporaHashMapConfig::small_inline(16), FixedSip, false, p(k2, vec![], 4, 5)));

        // ---- GoldHashMap: chained buckets; 5 buckets initially (rehash to 11 at the 4th key, to 23 at the 8th);
        //      the four keys share one bucket of the 5-bucket table (SipHash(0,0) % 5), so every chain operation
        //      (head/middle/tail unlink, freelist reuse) is reached
        let g4 = gold_colliding(0, 5, 0, 4);
        let g3: Vec<u64> = g4[..3].to_vec();
        let gpre: Vec<u64> = gold_colliding(0, 5, 1000, 6); // six more keys in the same residue class
        reg.add(gold_spec::<u32>("GoldHashMap[u32,cap5]", || gold_cfg(1, false, false, true), p(&g4, vec![], 4, 6)));
        reg.add(gold_spec::<u64>("GoldHashMap[u64,cap5]", || gold_cfg(1, false, false, true), p(&g4, vec![], 4, 5)));
        reg.add(gold_spec::<u32>("GoldHashMap[u32,cap5,hash_cache]", || gold_cfg(1, true, false, true), p(&g4, vec![], 4, 5)));
        reg.add(gold_spec::<u32>("GoldHashMap[u32,cap5,auto_gc]", || gold_cfg(1, false, true, true), p(&g4, vec![], 4, 5)));
        reg.add(gold_spec::<u64>("GoldHashMap[u64,cap5,auto_gc,hash_cache]", || gold_cfg(1, true, true, true), p(&g4, vec![], 4, 5)));
        reg.add(gold_spec::<u32>("GoldHashMap[u32,cap5,no_freelist_reuse]", || gold_cfg(1, false, false, false), p(&g4, vec![], 4, 5)));
        reg.add(gold_spec::<u32>("GoldHashMap[u32,cap5,hash_cache]/prefill6", || gold_cfg(1, true, false, true), p(&g3, gpre.clone(), 3, 4)));
        reg.add(gold_spec::<u32>("GoldHashMap[u32,cap5,auto_gc]/prefill6", || gold_cfg(1, false, true, true), p(&g3, gpre.clone(), 3, 4)));
        // keys in pairwise different buckets (of the 5- and of the 11-bucket table where possible)
        let s4 = gold_spread(5, 4);
        reg.add(gold_spec::<u32>("GoldHashMap[u32,cap5]/spread", || gold_cfg(1, false, false, true), p(&s4, vec![], 4, 5)));
        reg.add(gold_spec::<u32>("GoldHashMap[u32,cap5,hash_cache]/spread", || gold_cfg(1, true, false, true), p(&s4, vec![], 4, 5)));
        reg.add(gold_spec::<u64>("GoldHashMap[u64,cap5,auto_gc,hash_cache]/spread", || gold_cfg(1, true, true, true), p(&s4, vec![], 4, 5)));
        reg.add(gold_spec::<u32>("GoldHashMap[small()]/spread", GoldHashMapConfig::small, p(&s4, vec![], 4, 5)));
        reg.add(gold_spec::<u32>("GoldHashMap[u32,cap5,hash_cache]/spread/prefill6", || gold_cfg(1, true, false, true), p(&s4[..3], (100..106).collect(), 4, 5)));
        reg.add(gold_spec::<u32>("GoldHashMap[small()]", GoldHashMapConfig::small, p(&g4, vec![], 3, 4)));
        reg.add(gold_spec::<u32>("GoldHashMap[high_churn()]", GoldHashMapConfig::high_churn, p(&g4, vec![], 3, 4)));

        // ---- GoldHashIdx (open addressing with re-insertion of the following cluster on removal; AHasher::default())
        let idx = |label: &str, make: Box<dyn Fn() -> Result<Box<dyn MapLike>, String>>, p: P| {
            let mut s = spec(label, make, p);
            s.with_clear = false;
            s.note = "hash seed is per process (AHasher::default()): each shard explores the space under its own hash function";
            Seq(s)
        };
        reg.add(idx("GoldHashIdx/new", Box::new(|| Ok(Box::new(GoldHashIdx::<u64, u64>::new()) as Box<dyn MapLike>)), p(k4, vec![], 4, 6)));
        // 11 of 16 slots used: long clusters, and the resize to 32 slots happens at the 13th key
        reg.add(idx("GoldHashIdx/prefill11", Box::new(|| Ok(Box::new(GoldHashIdx::<u64, u64>::new()) as Box<dyn MapLike>)), p(&[0, 1, 10], (10..21).collect(), 4, 5)));
        reg.add(idx(
            "GoldHashIdx/with_pool/prefill11",
            Box::new(|| {
                let pool = SecureMemoryPool::new(SecurePoolConfig::small_secure()).map_err(|e| e.to_string())?;
                Ok(Box::new(GoldHashIdx::<u64, u64>::with_pool(16, pool as Arc<SecureMemoryPool>)) as Box<dyn MapLike>)
            }),
            p(&[0, 1, 10], (10..21).collect(), 3, 4),
        ));

        // ---- SmallMap: inline arrays up to SMALL_MAP_THRESHOLD = 8, promoted to ZiporaHashMap at the 9th key
        let small = |label: &str, p: P| Seq(spec(label, Box::new(|| Ok(Box::new(SmallMap::<u64, u64>::new()) as Box<dyn MapLike>)), p));
        reg.add(small("SmallMap/new", p(k4, vec![], 4, 6)));
        reg.add(small("SmallMap/prefill5", p(k3, (10..15).collect(), 4, 5))); // 5..8 entries: the partially unrolled search paths
        reg.add(small("SmallMap/prefill7", p(k2, (10..17).collect(), 4, 5))); // 7, 8 (full inline), 9 (promoted)
        reg.add(small("SmallMap/prefill8", p(&[0, 10], (10..18).collect(), 4, 5))); // key 10 is present: replace at the threshold must not promote

        // ---- EasyHashMap (ZiporaHashMap<K,V,ahash::RandomState> inside: per-process hash seed)
        let easy = |label: &str, make: Box<dyn Fn() -> Result<Box<dyn MapLike>, String>>, with_remove: bool, p: P| {
            let mut s = spec(label, make, p);
            s.with_remove = with_remove;
            s.with_setmut = false;
            s.random_hasher_guard = true;
            s.note = "hash seed is per process (ahash::RandomState)";
            Seq(s)
        };
        reg.add(easy("EasyHashMap/new", Box::new(|| Ok(Box::new(EasyHashMap::<u64, u64>::new()) as Box<dyn MapLike>)), true, p(k4, vec![], 4, 5)));
        // put() re-creates the map at load 12/16: crossing the growth step, without removals
        reg.add(easy("EasyHashMap/prefill11", Box::new(|| Ok(Box::new(EasyHashMap::<u64, u64>::new()) as Box<dyn MapLike>)), false, p(k3, (10..21).collect(), 3, 4)));
        // auto_grow off: the inner table fills to 16/16 and is resized by ZiporaHashMap itself
        reg.add(easy(
            "EasyHashMap[builder,auto_grow=false]/prefill15",
            Box::new(|| Ok(Box::new(EasyHashMap::<u64, u64>::initial_capacity(16).auto_grow(false).build()) as Box<dyn MapLike>)),
            false,
            p(k3, (10..25).collect(), 3, 4),
        ));

        // ---- HashStrMap (std HashMap<String, V> inside)
        reg.add(Seq(spec("HashStrMap/new", Box::new(|| Ok(Box::new(HashStrMap::<u64>::new()) as Box<dyn MapLike>)), p(&[0, 1, 2, 3, 4], vec![], 3, 4))));
        reg.add(Seq(spec("HashStrMap/prefill30", Box::new(|| Ok(Box::new(HashStrMap::<u64>::with_capacity(1)) as Box<dyn MapLike>)), p(&[0, 1, 10], (10..40).collect(), 3, 4))));
    });
}
