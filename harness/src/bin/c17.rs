//! C17 — caches stay within capacity, evict least-recently-used, never serve stale data (engine E1).
//!
//! * `LruMap` / `ConcurrentLruMap`: stepped against a reference LRU (one `VecDeque` recency list per shard, the
//!   real shard function, learned from a probe map).  Accesses are exactly the statement's: `get` and `put`;
//!   `contains_key`, `len`, `capacity`, `shard_sizes` are read-only observers.  Because `get` changes the
//!   recency order it is a *mutator* of the alphabet; in addition `finish` (the object is discarded afterwards)
//!   reads every key back and compares with the model, so every explored state is fully read out.
//! * `LruPageCache` / `SingleLruPageCache`: reads, prefetches, invalidations and external overwrites (followed by
//!   invalidation) over two scratch files; every read is compared with the bytes of the file; `finish` sweeps the
//!   whole offset x length grid.
//! * `CachedBlobStore`: every id answers like the wrapped store (`inner()`).
//! * `FsaCache`: only the clauses that apply to a non-LRU cache: at most `max_states` entries, `get_state` never
//!   returns anything but the last state cached under that id.

use std::collections::hash_map::DefaultHasher;
use std::collections::{BTreeMap, VecDeque};
use std::fmt;
use std::hash::Hash;
use std::io::{Seek, SeekFrom, Write};
use std::path::{Path, PathBuf};
use std::sync::{Arc, Mutex};

use zverif::seq::{Seq, SeqSpec};
use zverif::util::{brief, h64};
use zverif::{check, Fail, Tier};

use zipora::blob_store::cached_store::CacheWriteStrategy;
use zipora::blob_store::{BlobStore, CachedBlobStore, MemoryBlobStore};
use zipora::cache::{BufferPool, CacheBuffer, LruPageCache, PageCacheConfig, SingleLruPageCache, PAGE_SIZE};
use zipora::containers::specialized::{
    ConcurrentLruMap, ConcurrentLruMapConfig, EvictionCallback, LoadBalancingStrategy, LruMap, LruMapConfig,
};
use zipora::fsa::cache::{CacheStrategy, FsaCache, FsaCacheConfig};

fn failc(clause: &str, class: &str, detail: String) -> Fail {
    Fail::new(clause, detail).with_class(class)
}

// =============================================================================================
// LRU maps

#[derive(Clone, Default)]
pub struct Recorder(Arc<Mutex<Vec<(u64, u64)>>>);
impl EvictionCallback<u64, u64> for Recorder {
    fn on_evict(&self, key: &u64, value: &u64) {
        self.0.lock().unwrap_or_else(|e| e.into_inner()).push((*key, *value));
    }
}
impl Recorder {
    fn log(&self) -> Vec<(u64, u64)> {
        self.0.lock().unwrap_or_else(|e| e.into_inner()).clone()
    }
}

pub trait MapLike {
    fn get(&self, k: u64) -> Option<u64>;
    /// Err = refused
    fn put(&self, k: u64, v: u64) -> Result<Option<u64>, String>;
    fn remove(&self, k: u64) -> Option<u64>;
    fn contains(&self, k: u64) -> bool;
    fn clear(&self) -> Result<(), String>;
    fn len(&self) -> usize;
    fn capacity(&self) -> usize;
    fn shard_sizes(&self) -> Option<Vec<usize>> {
        None
    }
    fn is_empty(&self) -> bool;
    /// None = not offered
    fn rebalance(&self) -> Option<Result<(), String>> {
        None
    }
}

/// every flavour of `LruMap` (with the recorder or with the library's no-op callback)
impl<E: EvictionCallback<u64, u64>> MapLike for LruMap<u64, u64, E> {
    fn get(&self, k: u64) -> Option<u64> {
        LruMap::get(self, &k)
    }
    fn put(&self, k: u64, v: u64) -> Result<Option<u64>, String> {
        LruMap::put(self, k, v).map_err(|e| e.to_string())
    }
    fn remove(&self, k: u64) -> Option<u64> {
        LruMap::remove(self, &k)
    }
    fn contains(&self, k: u64) -> bool {
        LruMap::contains_key(self, &k)
    }
    fn clear(&self) -> Result<(), String> {
        LruMap::clear(self).map_err(|e| e.to_string())
    }
    fn len(&self) -> usize {
        LruMap::len(self)
    }
    fn capacity(&self) -> usize {
        LruMap::capacity(self)
    }
    fn is_empty(&self) -> bool {
        LruMap::is_empty(self)
    }
}

impl<E: EvictionCallback<u64, u64> + Send + Sync + Clone> MapLike for ConcurrentLruMap<u64, u64, E> {
    fn get(&self, k: u64) -> Option<u64> {
        ConcurrentLruMap::get(self, &k)
    }
    fn put(&self, k: u64, v: u64) -> Result<Option<u64>, String> {
        ConcurrentLruMap::put(self, k, v).map_err(|e| e.to_string())
    }
    fn remove(&self, k: u64) -> Option<u64> {
        ConcurrentLruMap::remove(self, &k)
    }
    fn contains(&self, k: u64) -> bool {
        ConcurrentLruMap::contains_key(self, &k)
    }
    fn clear(&self) -> Result<(), String> {
        ConcurrentLruMap::clear(self).map_err(|e| e.to_string())
    }
    fn len(&self) -> usize {
        ConcurrentLruMap::len(self)
    }
    fn capacity(&self) -> usize {
        ConcurrentLruMap::capacity(self)
    }
    fn shard_sizes(&self) -> Option<Vec<usize>> {
        Some(ConcurrentLruMap::shard_sizes(self))
    }
    fn is_empty(&self) -> bool {
        ConcurrentLruMap::is_empty(self)
    }
    fn rebalance(&self) -> Option<Result<(), String>> {
        Some(ConcurrentLruMap::rebalance(self).map_err(|e| e.to_string()))
    }
}

/// The shard function of `ConcurrentLruMap` (LoadBalancingStrategy::Hash), *learned from the implementation*
/// rather than recomputed: a scratch map with `shards` shards receives the single key `k`, and `shard_sizes()`
/// says where it went.  (Today that is `((h >> 32) ^ h) & (shards - 1)` with `h = DefaultHasher::new()` over the
/// key; a different but consistent function would be learned just as well.)  Learned once per (shards, key).
fn hash_shard(k: u64, shards: usize) -> usize {
    use std::collections::HashMap;
    use std::sync::OnceLock;
    static TABLE: OnceLock<Mutex<HashMap<(usize, u64), usize>>> = OnceLock::new();
    if shards <= 1 {
        return 0;
    }
    let table = TABLE.get_or_init(|| Mutex::new(HashMap::new()));
    if let Some(s) = table.lock().unwrap_or_else(|e| e.into_inner()).get(&(shards, k)) {
        return *s;
    }
    let probe = ConcurrentLruMap::<u64, u64, Recorder>::with_eviction_callback(shards, shards, Recorder::default()).expect("probe map");
    probe.put(k, 0).expect("probe put");
    let sizes = probe.shard_sizes();
    let s = sizes.iter().position(|n| *n == 1).expect("the key went to exactly one shard");
    table.lock().unwrap_or_else(|e| e.into_inner()).insert((shards, k), s);
    s
}

#[derive(Clone, Copy, PartialEq, Eq, Debug)]
pub enum Sharding {
    /// one shard, or the hash function above
    Hash,
    /// every key of this (single-threaded) history lands in one and the same shard
    OneShard,
    /// RoundRobin picks the shard from a call counter, not from the key: the per-shard capacity is chosen >= number of
    /// keys so that no eviction can ever be needed, and the model is a plain map
    NoEvictionPossible,
}

#[derive(Clone, Debug)]
pub enum MapOp {
    Get(u64),
    Put(u64, u64),
    Remove(u64),
    Clear,
    /// `ConcurrentLruMap::rebalance()`: may move entries between shards but must not change what the map answers
    Rebalance,
}

pub struct RefLru {
    /// per shard: most recently accessed first
    shards: Vec<VecDeque<(u64, u64)>>,
    per_shard_capacity: usize,
    sharding: Sharding,
    /// evictions the model has performed, in order
    evicted: Vec<(u64, u64)>,
}

impl RefLru {
    fn shard_of(&self, k: u64) -> usize {
        match self.sharding {
            Sharding::Hash => hash_shard(k, self.shards.len()),
            _ => 0,
        }
    }
    fn peek(&self, k: u64) -> Option<u64> {
        self.shards[self.shard_of(k)].iter().find(|e| e.0 == k).map(|e| e.1)
    }
    fn get(&mut self, k: u64) -> Option<u64> {
        let s = self.shard_of(k);
        let pos = self.shards[s].iter().position(|e| e.0 == k)?;
        let e = self.shards[s].remove(pos).unwrap();
        self.shards[s].push_front(e);
        Some(e.1)
    }
    /// returns the entry evicted to make room, if any
    fn put(&mut self, k: u64, v: u64) -> Option<(u64, u64)> {
        let s = self.shard_of(k);
        if let Some(pos) = self.shards[s].iter().position(|e| e.0 == k) {
            self.shards[s].remove(pos);
            self.shards[s].push_front((k, v));
            return None;
        }
        let mut victim = None;
        if self.shards[s].len() >= self.per_shard_capacity {
            victim = self.shards[s].pop_back();
            if let Some(e) = victim {
                self.evicted.push(e);
            }
        }
        self.shards[s].push_front((k, v));
        victim
    }
    fn remove(&mut self, k: u64) {
        let s = self.shard_of(k);
        self.shards[s].retain(|e| e.0 != k);
    }
    fn clear(&mut self) {
        for s in self.shards.iter_mut() {
            s.clear();
        }
    }
    fn len(&self) -> usize {
        self.shards.iter().map(|s| s.len()).sum()
    }
}

pub struct MapSt {
    map: Box<dyn MapLike>,
    rec: Recorder,
    model: RefLru,
}

pub struct LruSpec {
    pub name: String,
    pub make: Box<dyn Fn(Recorder) -> Result<Box<dyn MapLike>, String>>,
    pub shards: usize,
    pub per_shard_capacity: usize,
    pub sharding: Sharding,
    pub keys: Vec<u64>,
    pub depth_quick: usize,
    pub depth_thorough: usize,
    /// scripted prefix: the start state of every history is the state after these operations (applied to the real
    /// map and the model through `apply`, i.e. judged like any other step)
    pub prefix: Vec<MapOp>,
    /// false: constructed without a recording callback (`new` / `with_config`): the callback clauses are not evaluated,
    /// the victim is judged through get/contains_key only
    pub has_callback: bool,
    /// `rebalance()` is in the alphabet
    pub rebalance: bool,
}

const ABSENT_KEY: u64 = 0xDEAD_0000_0000_0001;

impl SeqSpec for LruSpec {
    type Op = MapOp;
    type St = MapSt;

    fn name(&self) -> String {
        self.name.clone()
    }
    fn depth(&self, tier: Tier) -> usize {
        tier.pick(self.depth_quick, self.depth_thorough)
    }
    fn bound(&self, tier: Tier) -> String {
        format!(
            "all histories of <= {} operations from {{get(k), put(k,v), remove(k), clear}} (RoundRobin subject: get/put only, judged on get and capacity only) over keys {:?} (shards of the keys: {:?}) x values {{0,1}}; {} shard(s) of capacity {}; after every step: contains_key on every key + 1 absent key, len, capacity, shard_sizes, the complete eviction-callback log; at the end of every history every key is read back with get",
            self.depth(tier),
            self.keys,
            self.keys.iter().map(|k| if self.sharding == Sharding::Hash { hash_shard(*k, self.shards) } else { 0 }).collect::<Vec<_>>(),
            self.shards,
            self.per_shard_capacity
        ) + &if self.prefix.is_empty() { String::new() } else { format!("; every history starts in the state after the scripted prefix {:?}", self.prefix) }
            + if self.rebalance { "; rebalance() is a further operation of the alphabet (must not change any answer)" } else { "" }
            + if self.has_callback { "" } else { "; constructed without a recording callback: callback clauses not evaluated, victims judged through get/contains_key/len" }
    }
    fn init(&self, _scratch: &Path) -> Result<MapSt, Fail> {
        let rec = Recorder::default();
        let map = (self.make)(rec.clone()).map_err(|e| Fail::new("construct", e))?;
        let nshards = if self.sharding == Sharding::Hash { self.shards } else { 1 };
        let cap = if self.sharding == Sharding::NoEvictionPossible { usize::MAX } else { self.per_shard_capacity };
        let mut st = MapSt {
            map,
            rec,
            model: RefLru { shards: vec![VecDeque::new(); nshards], per_shard_capacity: cap, sharding: self.sharding, evicted: Vec::new() },
        };
        for op in &self.prefix {
            self.apply(&mut st, op)?;
        }
        Ok(st)
    }
    fn ops(&self, _st: &MapSt) -> Vec<MapOp> {
        let mut v = Vec::new();
        for &k in &self.keys {
            v.push(MapOp::Get(k));
        }
        for &k in &self.keys {
            for val in [0u64, 1] {
                v.push(MapOp::Put(k, val));
            }
        }
        if self.sharding == Sharding::NoEvictionPossible {
            // get/put only: nothing can be evicted or removed, so get must always return the last value put
            return v;
        }
        for &k in &self.keys {
            v.push(MapOp::Remove(k));
        }
        v.push(MapOp::Clear);
        if self.rebalance {
            v.push(MapOp::Rebalance);
        }
        v
    }
    fn apply(&self, st: &mut MapSt, op: &MapOp) -> Result<(), Fail> {
        match *op {
            MapOp::Get(k) => {
                let r = st.map.get(k);
                let m = st.model.get(k);
                judge_get(k, r, m, self.sharding)?;
            }
            MapOp::Put(k, v) => {
                let log_before = st.rec.log().len();
                match st.map.put(k, v) {
                    Ok(_old) => {
                        let victim = st.model.put(k, v);
                        let log = st.rec.log();
                        let new = &log[log_before.min(log.len())..];
                        match victim {
                            Some(_) if !self.has_callback => {}
                            Some((vk, vv)) => {
                                if new.len() == 1 && new[0].0 != vk {
                                    return Err(failc(
                                        "victim",
                                        "not_lru",
                                        format!("put({k},{v}) evicted key {} (callback), the least recently accessed entry is ({vk},{vv})", new[0].0),
                                    ));
                                }
                                let n = new.iter().filter(|e| **e == (vk, vv)).count();
                                if n != 1 {
                                    return Err(failc(
                                        "callback",
                                        if n == 0 { "missing" } else { "repeated" },
                                        format!("put({k},{v}) evicts ({vk},{vv}) to make room: the callback was invoked {n} times with that entry (new invocations: {:?})", new),
                                    ));
                                }
                            }
                            None => {}
                        }
                        // never for an entry that is still retrievable
                        for e in new {
                            if Some(*e) != victim && st.model.peek(e.0) == Some(e.1) {
                                return Err(failc("callback", "for_retrievable", format!("put({k},{v}): callback invoked with {:?}, which is still retrievable", e)));
                            }
                        }
                    }
                    Err(e) => {
                        // A cache with room for at least one entry always has a way to store the new value: a free slot, the
                        // entry of the same key, or the least recently used entry, which "is evicted to make room".  A refusal
                        // means the eviction the statement describes did not happen (seed C17f: after clear() every put of a
                        // new key into the full map was refused for good).  ZV_C17_LENIENT_PUT=1 restores the old behaviour
                        // (model unchanged, observers verify that nothing changed).
                        let s = st.model.shard_of(k);
                        if std::env::var_os("ZV_C17_LENIENT_PUT").is_none() && st.model.per_shard_capacity >= 1 {
                            let class = if st.model.peek(k).is_some() {
                                "existing_key"
                            } else if st.model.shards[s].len() < st.model.per_shard_capacity {
                                "new_key_below_capacity"
                            } else {
                                "new_key_at_capacity"
                            };
                            return Err(failc("put_refused", class, format!("put({k},{v}) = Err({e}) while the shard holds {} of {} entries", st.model.shards[s].len(), st.model.per_shard_capacity)));
                        }
                    }
                }
            }
            MapOp::Remove(k) => {
                let _ = st.map.remove(k);
                st.model.remove(k);
            }
            MapOp::Clear => {
                if st.map.clear().is_ok() {
                    st.model.clear();
                }
            }
            MapOp::Rebalance => {
                // Ok or Err, the map must answer as before: the observers and the read-back judge that
                let _ = st.map.rebalance();
            }
        }
        Ok(())
    }
    fn observe(&self, st: &mut MapSt, h: &mut DefaultHasher) -> Result<(), Fail> {
        for s in &st.model.shards {
            s.hash(h);
        }
        st.model.evicted.hash(h);
        let cap = st.map.capacity();
        let l = st.map.len();
        if l > cap {
            return Err(failc("capacity", "len_gt_capacity", format!("len() = {l} > capacity() = {cap}")));
        }
        if self.sharding != Sharding::NoEvictionPossible {
            let want = self.shards * self.per_shard_capacity;
            check!(cap == want, "capacity", "capacity() = {cap}, configured {} shard(s) x {}", self.shards, self.per_shard_capacity);
        }
        if let (Some(sizes), Sharding::Hash) = (st.map.shard_sizes(), self.sharding) {
            for (i, s) in sizes.iter().enumerate() {
                if *s > self.per_shard_capacity {
                    return Err(failc("capacity", "shard_gt_capacity", format!("shard {i} holds {s} entries, per-shard capacity {}", self.per_shard_capacity)));
                }
            }
            let want: Vec<usize> = st.model.shards.iter().map(|s| s.len()).collect();
            check!(sizes == want, "shard_function_check", "shard_sizes() = {:?}, model (shard function learned from a probe map) {:?}", sizes, want);
        }
        if self.sharding == Sharding::NoEvictionPossible {
            // weaker, shard-agnostic clauses only (capacity above, get in apply/finish): contains_key/len depend on the shard routing
            return Ok(());
        }
        let mut probes = self.keys.clone();
        probes.push(ABSENT_KEY);
        for &k in &probes {
            let c = st.map.contains(k);
            let m = st.model.peek(k).is_some();
            if c != m {
                return Err(failc(
                    "contains",
                    if c { "true_for_absent" } else { "false_for_present" },
                    format!("contains_key({k}) = {c}, reference LRU says {m} (recency order, most recent first: {:?})", st.model.shards),
                ));
            }
        }
        check!(l == st.model.len(), "len", "len() = {l}, reference LRU holds {} entries", st.model.len());
        let e = st.map.is_empty();
        check!(e == (st.model.len() == 0), "len", "is_empty() = {e}, reference LRU holds {} entries", st.model.len());
        if !self.has_callback {
            return Ok(());
        }
        let log = st.rec.log();
        if log != st.model.evicted {
            let class = if log.len() > st.model.evicted.len() { "extra" } else if log.len() < st.model.evicted.len() { "missing" } else { "wrong_entry" };
            return Err(failc("callback", class, format!("eviction callback log {:?}, entries evicted to make room {:?}", log, st.model.evicted)));
        }
        Ok(())
    }
    fn finish(&self, st: MapSt) -> Result<(), Fail> {
        // the object is discarded after this, so the recency order may be disturbed: read every key back
        for &k in &self.keys {
            let r = st.map.get(k);
            let m = st.model.peek(k);
            judge_get(k, r, m, self.sharding)?;
        }
        drop(st);
        Ok(())
    }
}

fn judge_get(k: u64, r: Option<u64>, m: Option<u64>, sharding: Sharding) -> Result<(), Fail> {
    if r == m {
        return Ok(());
    }
    if sharding == Sharding::NoEvictionPossible {
        // nothing can have been evicted or removed in these histories: one outcome class
        return Err(failc("get", "not_last_put", format!("get({k}) = {:?}, the most recent value put for that key is {:?} and nothing can have been evicted or removed", r, m)));
    }
    match (r, m) {
        (Some(x), Some(y)) => Err(failc("get", "stale", format!("get({k}) = Some({x}), the most recent value put for that key is {y}"))),
        (None, Some(y)) => Err(failc("get", "lost", format!("get({k}) = None, but ({k},{y}) was put and has been neither evicted nor removed"))),
        (Some(x), None) => Err(failc("get", "ghost", format!("get({k}) = Some({x}), but that key was evicted, removed or never put"))),
        _ => unreachable!(),
    }
}

fn lru_cfg(preset: &str, capacity: usize) -> LruMapConfig {
    let mut c = match preset {
        "performance_optimized" => LruMapConfig::performance_optimized(),
        "memory_optimized" => LruMapConfig::memory_optimized(),
        "security_optimized" => LruMapConfig::security_optimized(),
        _ => LruMapConfig::default(),
    };
    c.capacity = capacity;
    c
}

/// `n_same` keys of shard 0 followed by `n_other` keys of other shards, smallest keys first.
fn pick_keys(shards: usize, n_same: usize, n_other: usize) -> Vec<u64> {
    let mut same = Vec::new();
    let mut other = Vec::new();
    for k in 0u64..256 {
        if hash_shard(k, shards) == 0 {
            if same.len() < n_same {
                same.push(k);
            }
        } else if other.len() < n_other {
            other.push(k);
        }
    }
    same.extend(other);
    same
}

fn boxed<M: MapLike + 'static>(r: Result<M, zipora::error::ZiporaError>) -> Result<Box<dyn MapLike>, String> {
    r.map(|m| Box::new(m) as Box<dyn MapLike>).map_err(|e| e.to_string())
}

impl LruSpec {
    /// a subject with the recording callback, no prefix, no rebalance
    fn plain(name: String, make: Box<dyn Fn(Recorder) -> Result<Box<dyn MapLike>, String>>, shards: usize, per: usize, sharding: Sharding, keys: Vec<u64>, dq: usize, dt: usize) -> Self {
        LruSpec { name, make, shards, per_shard_capacity: per, sharding, keys, depth_quick: dq, depth_thorough: dt, prefix: Vec::new(), has_callback: true, rebalance: false }
    }
}

fn register_maps(reg: &mut zverif::Registry) {
    use MapOp::*;
    for cap in [1usize, 2, 3] {
        reg.add(Seq(LruSpec::plain(
            format!("LruMap[default,capacity={cap}]"),
            Box::new(move |rec| boxed(LruMap::with_eviction_callback(cap, rec))),
            1,
            cap,
            Sharding::Hash,
            vec![0, 1, 2, 3],
            4,
            5,
        )));
    }
    // depth 6 over 3 keys (DESIGN §7 C17 B): capacity 2
    reg.add(Seq(LruSpec::plain(
        "LruMap[default,capacity=2]/3keys".into(),
        Box::new(move |rec| boxed(LruMap::with_eviction_callback(2, rec))),
        1,
        2,
        Sharding::Hash,
        vec![0, 1, 2],
        4,
        6,
    )));
    for preset in ["performance_optimized", "memory_optimized", "security_optimized"] {
        reg.add(Seq(LruSpec::plain(
            format!("LruMap[{preset},capacity=2]"),
            Box::new(move |rec| boxed(LruMap::with_config_and_callback(lru_cfg(preset, 2), rec))),
            1,
            2,
            Sharding::Hash,
            vec![0, 1, 2],
            4,
            5,
        )));
    }
    for (shards, per) in [(1usize, 2usize), (2, 1), (2, 2), (4, 1)] {
        // three keys collide in shard 0 (evictions inside a shard), one key lives in another shard
        let keys = if shards == 1 { vec![0, 1, 2, 3] } else { pick_keys(shards, 3, 1) };
        let mut spec = LruSpec::plain(
            format!("ConcurrentLruMap[Hash,shards={shards},per_shard={per}]"),
            Box::new(move |rec| boxed(ConcurrentLruMap::with_eviction_callback(shards * per, shards, rec))),
            shards,
            per,
            Sharding::Hash,
            keys,
            4,
            5,
        );
        spec.rebalance = true;
        reg.add(Seq(spec));
    }
    reg.add(Seq(LruSpec::plain(
        "ConcurrentLruMap[ThreadAffinity,shards=2,per_shard=2]".into(),
        Box::new(move |rec| {
            let cfg = ConcurrentLruMapConfig { base_config: lru_cfg("default", 2), shard_count: 2, load_balancing: LoadBalancingStrategy::ThreadAffinity };
            boxed(ConcurrentLruMap::with_config_and_callback(cfg, rec))
        }),
        2,
        2,
        Sharding::OneShard,
        vec![0, 1, 2],
        4,
        5,
    )));
    reg.add(Seq(LruSpec::plain(
        "ConcurrentLruMap[RoundRobin,shards=2,per_shard=4]".into(),
        Box::new(move |rec| {
            let cfg = ConcurrentLruMapConfig { base_config: lru_cfg("default", 4), shard_count: 2, load_balancing: LoadBalancingStrategy::RoundRobin };
            boxed(ConcurrentLruMap::with_config_and_callback(cfg, rec))
        }),
        2,
        4,
        Sharding::NoEvictionPossible,
        vec![0, 1, 2],
        4,
        5,
    )));

    // ---- coverage audit: start states other than the empty map --------------------------------------------------
    // full list of 3 with the MIDDLE node accessed last: every following get/remove/eviction works on a 3-node list
    // whose head, middle and tail are all distinct from the insertion order
    let mut s = LruSpec::plain(
        "LruMap[default,capacity=3]/after[fill,get-middle]".into(),
        Box::new(move |rec| boxed(LruMap::with_eviction_callback(3, rec))),
        1,
        3,
        Sharding::Hash,
        vec![0, 1, 2, 3],
        4,
        5,
    );
    s.prefix = vec![Put(0, 0), Put(1, 0), Put(2, 0), Get(1)];
    reg.add(Seq(s));
    // capacity 4 over 5 keys, after a remove of a middle node and the reuse of its slot (free list), one eviction done
    let mut s = LruSpec::plain(
        "LruMap[default,capacity=4]/after[fill,evict,remove-middle,reuse-slot]".into(),
        Box::new(move |rec| boxed(LruMap::with_eviction_callback(4, rec))),
        1,
        4,
        Sharding::Hash,
        vec![0, 1, 2, 3, 4],
        3,
        4,
    );
    s.prefix = vec![Put(0, 0), Put(1, 0), Put(2, 0), Put(3, 0), Put(4, 0), Get(2), Remove(3), Put(0, 1)];
    reg.add(Seq(s));
    // after clear() of a map that has evicted: the free list must again hold exactly `capacity` slots
    let mut s = LruSpec::plain(
        "LruMap[default,capacity=2]/after[evict,clear]".into(),
        Box::new(move |rec| boxed(LruMap::with_eviction_callback(2, rec))),
        1,
        2,
        Sharding::Hash,
        vec![0, 1, 2, 3],
        4,
        5,
    );
    s.prefix = vec![Put(0, 0), Put(1, 0), Get(0), Put(2, 0), Clear];
    reg.add(Seq(s));
    // both shards full, their recency orders interleaved in time
    let keys22 = pick_keys(2, 2, 2);
    let mut s = LruSpec::plain(
        "ConcurrentLruMap[Hash,shards=2,per_shard=2]/2+2keys/after[fill both shards]".into(),
        Box::new(move |rec| boxed(ConcurrentLruMap::with_eviction_callback(4, 2, rec))),
        2,
        2,
        Sharding::Hash,
        pick_keys(2, 3, 3),
        3,
        4,
    );
    s.prefix = vec![Put(keys22[0], 0), Put(keys22[2], 0), Put(keys22[1], 0), Put(keys22[3], 0), Get(keys22[0])];
    s.rebalance = true;
    reg.add(Seq(s));

    // ---- coverage audit: two keys in EACH of two shards (evictions in both shards inside one history) ------------
    let mut s = LruSpec::plain(
        "ConcurrentLruMap[Hash,shards=2,per_shard=1]/2+2keys".into(),
        Box::new(move |rec| boxed(ConcurrentLruMap::with_eviction_callback(2, 2, rec))),
        2,
        1,
        Sharding::Hash,
        pick_keys(2, 2, 2),
        4,
        5,
    );
    s.rebalance = true;
    reg.add(Seq(s));

    // ---- coverage audit: constructors / presets that were never instantiated ------------------------------------
    // LruMap::new / with_config have their own copy of the construction code (no callback parameter)
    for cap in [1usize, 2] {
        let mut s = LruSpec::plain(
            format!("LruMap::new[capacity={cap}]"),
            Box::new(move |_rec| boxed(LruMap::<u64, u64>::new(cap))),
            1,
            cap,
            Sharding::Hash,
            vec![0, 1, 2],
            4,
            5,
        );
        s.has_callback = false;
        reg.add(Seq(s));
    }
    let mut s = LruSpec::plain(
        "LruMap::with_config[memory_optimized,capacity=2]".into(),
        Box::new(move |_rec| boxed(LruMap::<u64, u64>::with_config(lru_cfg("memory_optimized", 2)))),
        1,
        2,
        Sharding::Hash,
        vec![0, 1, 2],
        4,
        5,
    );
    s.has_callback = false;
    reg.add(Seq(s));
    // ConcurrentLruMap::new: total capacity 5 over 2 shards = 2 per shard (the remainder is dropped)
    let mut s = LruSpec::plain(
        "ConcurrentLruMap::new[total=5,shards=2]".into(),
        Box::new(move |_rec| boxed(ConcurrentLruMap::<u64, u64>::new(5, 2))),
        2,
        2,
        Sharding::Hash,
        pick_keys(2, 3, 1),
        4,
        5,
    );
    s.has_callback = false;
    s.rebalance = true;
    reg.add(Seq(s));
    // the library presets of the sharded map (memory_optimized: 4 shards; performance_optimized: 2 x CPUs shards, refused by
    // validate() when that is not a power of two -> construct error -> the subject reports nothing but the root)
    let mut s = LruSpec::plain(
        "ConcurrentLruMap[memory_optimized preset,shards=4,per_shard=1]".into(),
        Box::new(move |rec| {
            let mut cfg = ConcurrentLruMapConfig::memory_optimized();
            cfg.base_config.capacity = 1;
            boxed(ConcurrentLruMap::with_config_and_callback(cfg, rec))
        }),
        4,
        1,
        Sharding::Hash,
        pick_keys(4, 2, 2),
        4,
        5,
    );
    s.rebalance = true;
    reg.add(Seq(s));
    let mut cfg = ConcurrentLruMapConfig::performance_optimized();
    if cfg.validate().is_ok() {
        let shards = cfg.shard_count;
        cfg.base_config.capacity = 1;
        let mut s = LruSpec::plain(
            format!("ConcurrentLruMap[performance_optimized preset,shards=2xCPUs,per_shard=1]"),
            Box::new(move |rec| boxed(ConcurrentLruMap::with_config_and_callback(cfg.clone(), rec))),
            shards,
            1,
            Sharding::Hash,
            pick_keys(shards, 2, 1),
            4,
            5,
        );
        s.rebalance = true;
        reg.add(Seq(s));
    }
}

// =============================================================================================
// page caches

pub trait PageCacheLike {
    fn open(&self, p: &Path) -> Result<u32, String>;
    fn read(&self, f: u32, off: u64, len: usize) -> Result<Vec<u8>, String>;
    /// None = not offered
    fn read_batch(&self, reqs: Vec<(u32, u64, usize)>) -> Option<Result<Vec<Vec<u8>>, String>>;
    fn prefetch(&self, f: u32, off: u64, len: usize) -> Result<(), String>;
    fn invalidate_page(&self, f: u32, page: u32) -> Result<(), String>;
    fn invalidate_range(&self, f: u32, off: u64, len: usize) -> Result<(), String>;
    /// None = not offered
    fn read_with_prefetch(&self, _f: u32, _off: u64, _len: usize, _ahead: usize) -> Option<Result<Vec<u8>, String>> {
        None
    }
    fn mark_dirty(&self, f: u32, page: u32) -> Result<(), String>;
    fn flush_file(&self, f: u32) -> Result<(), String>;
    fn close(&self, f: u32) -> Result<(), String>;
}

impl PageCacheLike for LruPageCache {
    fn open(&self, p: &Path) -> Result<u32, String> {
        self.open_file(p).map_err(|e| e.to_string())
    }
    fn read(&self, f: u32, off: u64, len: usize) -> Result<Vec<u8>, String> {
        LruPageCache::read(self, f, off, len).map(|b| b.data().to_vec()).map_err(|e| e.to_string())
    }
    fn read_batch(&self, reqs: Vec<(u32, u64, usize)>) -> Option<Result<Vec<Vec<u8>>, String>> {
        Some(LruPageCache::read_batch(self, reqs).map(|v| v.iter().map(|b| b.data().to_vec()).collect()).map_err(|e| e.to_string()))
    }
    fn prefetch(&self, f: u32, off: u64, len: usize) -> Result<(), String> {
        LruPageCache::prefetch(self, f, off, len).map_err(|e| e.to_string())
    }
    fn invalidate_page(&self, f: u32, page: u32) -> Result<(), String> {
        LruPageCache::invalidate_page(self, f, page).map_err(|e| e.to_string())
    }
    fn invalidate_range(&self, f: u32, off: u64, len: usize) -> Result<(), String> {
        LruPageCache::invalidate_range(self, f, off, len).map_err(|e| e.to_string())
    }
    fn read_with_prefetch(&self, f: u32, off: u64, len: usize, ahead: usize) -> Option<Result<Vec<u8>, String>> {
        Some(LruPageCache::read_with_prefetch(self, f, off, len, ahead).map(|b| b.data().to_vec()).map_err(|e| e.to_string()))
    }
    fn mark_dirty(&self, f: u32, page: u32) -> Result<(), String> {
        LruPageCache::mark_dirty(self, f, page).map_err(|e| e.to_string())
    }
    fn flush_file(&self, f: u32) -> Result<(), String> {
        LruPageCache::flush_file(self, f).map_err(|e| e.to_string())
    }
    fn close(&self, f: u32) -> Result<(), String> {
        LruPageCache::close_file(self, f).map_err(|e| e.to_string())
    }
}

/// `SingleLruPageCache`; `into_buffer` selects `read(.., &mut CacheBuffer)` instead of `read_new`.
pub struct SingleAdapter {
    cache: SingleLruPageCache,
    into_buffer: bool,
    /// Some: every `read` goes into this one caller-owned buffer, never cleared by the caller (the documented way to
    /// avoid an allocation per read); None: a fresh buffer per read
    reused: Option<std::sync::Mutex<CacheBuffer>>,
    /// Some: every `read` takes its buffer from this `BufferPool` and hands it back afterwards
    pool: Option<BufferPool>,
}
impl PageCacheLike for SingleAdapter {
    fn open(&self, p: &Path) -> Result<u32, String> {
        self.cache.open_file(p).map_err(|e| e.to_string())
    }
    fn read(&self, f: u32, off: u64, len: usize) -> Result<Vec<u8>, String> {
        if let Some(pool) = &self.pool {
            let mut b = pool.get();
            if !b.data().is_empty() {
                return Err(format!("BufferPool::get() handed out a buffer that still holds {} bytes of an earlier read", b.data().len()));
            }
            let r = self.cache.read(f, off, len, &mut b).map_err(|e| e.to_string());
            let out = b.data().to_vec();
            pool.put(b);
            r.map(|_| out)
        } else if let Some(shared) = &self.reused {
            let mut b = shared.lock().unwrap();
            self.cache.read(f, off, len, &mut b).map_err(|e| e.to_string())?;
            Ok(b.data().to_vec())
        } else if self.into_buffer {
            let mut b = CacheBuffer::new();
            self.cache.read(f, off, len, &mut b).map_err(|e| e.to_string())?;
            Ok(b.data().to_vec())
        } else {
            self.cache.read_new(f, off, len).map(|b| b.data().to_vec()).map_err(|e| e.to_string())
        }
    }
    fn read_batch(&self, _reqs: Vec<(u32, u64, usize)>) -> Option<Result<Vec<Vec<u8>>, String>> {
        None
    }
    fn prefetch(&self, f: u32, off: u64, len: usize) -> Result<(), String> {
        self.cache.prefetch(f, off, len).map_err(|e| e.to_string())
    }
    fn invalidate_page(&self, f: u32, page: u32) -> Result<(), String> {
        self.cache.invalidate_page(f, page).map_err(|e| e.to_string())
    }
    fn invalidate_range(&self, f: u32, off: u64, len: usize) -> Result<(), String> {
        self.cache.invalidate_range(f, off, len).map_err(|e| e.to_string())
    }
    fn mark_dirty(&self, f: u32, page: u32) -> Result<(), String> {
        self.cache.mark_dirty(f, page).map_err(|e| e.to_string())
    }
    fn flush_file(&self, f: u32) -> Result<(), String> {
        self.cache.flush_file(f).map_err(|e| e.to_string())
    }
    fn close(&self, f: u32) -> Result<(), String> {
        self.cache.close_file(f).map_err(|e| e.to_string())
    }
}

const F0_SIZE: usize = 2 * PAGE_SIZE + PAGE_SIZE / 2; // 2.5 pages
const EOF0: u64 = F0_SIZE as u64;
/// a second NON-EMPTY file (coverage audit): one page + 100 bytes whose pages 0 and 1 differ from file 0's
const F2_SIZE: usize = PAGE_SIZE + 100;
const EOF2: u64 = F2_SIZE as u64;
fn file2_byte(i: usize) -> u8 {
    ((i * 13 + 5 + (i / PAGE_SIZE) * 3) % 241) as u8 ^ 0x80
}

fn file_byte(generation: u32, i: usize) -> u8 {
    ((i * 31 + (i / PAGE_SIZE) * 7 + generation as usize * 101) % 251) as u8
}

#[derive(Clone, PartialEq, Eq)]
pub enum PcOp {
    Read(u8, u64, usize),
    ReadBatch,
    Prefetch(u8, u64, usize),
    InvalidatePage(u8, u32),
    InvalidateRange(u8, u64, usize),
    /// rewrite the whole of file 0 with new contents of the same length from outside, then invalidate_range(0, size)
    OverwriteAllThenInvalidate,
    /// rewrite page 1 of file 0 from outside, then invalidate_page(1)
    OverwritePage1ThenInvalidate,
    /// rewrite bytes [off, off+len) of file 0 from outside, then invalidate_range(off, len) with exactly that
    /// (unaligned, page-straddling) range
    OverwriteRangeThenInvalidate(u64, usize),
    // ---- coverage audit (appended) ----
    /// read_with_prefetch(f, off, len, prefetch_ahead) (LruPageCache only; a no-op where not offered)
    ReadWithPrefetch(u8, u64, usize, usize),
    MarkDirty(u8, u32),
    FlushFile(u8),
    /// close_file(f) and open_file(path of f) again: later operations use the new file id
    CloseReopen(u8),
    /// rewrite page 1 of file 0 from outside, then close_file + open_file instead of an invalidation
    OverwritePage1ThenCloseReopen,
}

impl fmt::Debug for PcOp {
    fn fmt(&self, f: &mut fmt::Formatter<'_>) -> fmt::Result {
        match self {
            PcOp::Read(x, o, l) => write!(f, "Read(f{x},{o},{l})"),
            PcOp::ReadBatch => write!(f, "ReadBatch"),
            PcOp::Prefetch(x, o, l) => write!(f, "Prefetch(f{x},{o},{l})"),
            PcOp::InvalidatePage(x, p) => write!(f, "InvalidatePage(f{x},{p})"),
            PcOp::InvalidateRange(x, o, l) => write!(f, "InvalidateRange(f{x},{o},{l})"),
            PcOp::OverwriteAllThenInvalidate => write!(f, "OverwriteAllThenInvalidate"),
            PcOp::OverwritePage1ThenInvalidate => write!(f, "OverwritePage1ThenInvalidate"),
            PcOp::OverwriteRangeThenInvalidate(o, l) => write!(f, "OverwriteRangeThenInvalidate({o},{l})"),
            PcOp::ReadWithPrefetch(x, o, l, a) => write!(f, "ReadWithPrefetch(f{x},{o},{l},ahead={a})"),
            PcOp::MarkDirty(x, p) => write!(f, "MarkDirty(f{x},{p})"),
            PcOp::FlushFile(x) => write!(f, "FlushFile(f{x})"),
            PcOp::CloseReopen(x) => write!(f, "CloseReopen(f{x})"),
            PcOp::OverwritePage1ThenCloseReopen => write!(f, "OverwritePage1ThenCloseReopen"),
        }
    }
}

pub struct PcSt {
    cache: Box<dyn PageCacheLike>,
    fids: [u32; 3],
    files: [Vec<u8>; 3],
    paths: [PathBuf; 3],
    generation: u32,
    dir: PathBuf,
}

pub struct PcSpec {
    pub name: String,
    pub make: Box<dyn Fn() -> Result<Box<dyn PageCacheLike>, String>>,
    /// include ranges that start inside the file and end beyond EOF in the final sweep
    pub straddle_eof: bool,
    pub depth_quick: usize,
    pub depth_thorough: usize,
    /// offsets at and beyond the point where `offset / PAGE_SIZE` no longer fits the 32-bit page id are part of the final sweep
    pub huge_offsets: bool,
}

/// the bytes of the file at [off, off+len)
fn file_range(file: &[u8], off: u64, len: usize) -> &[u8] {
    let s = (off as usize).min(file.len());
    let e = (off as usize).saturating_add(len).min(file.len());
    &file[s..e]
}

fn judge_read(what: &str, file: &[u8], off: u64, len: usize, got: Result<Vec<u8>, String>) -> Result<(), Fail> {
    let want = file_range(file, off, len);
    let end = off as usize + len;
    let region = if off as usize >= file.len() && len > 0 {
        "beyond_eof"
    } else if end > file.len() {
        "straddles_eof"
    } else {
        "inside"
    };
    match got {
        Ok(g) => {
            if g != want {
                let kind = if g.len() < want.len() { "short" } else if g.len() > want.len() { "long" } else { "wrong_bytes" };
                return Err(failc(
                    "read_bytes",
                    &format!("{kind}/{region}"),
                    format!("{what}(off={off}, len={len}) returned {} but the file (size {}) holds {} there", brief(&g), file.len(), brief(want)),
                ));
            }
            Ok(())
        }
        Err(e) => Err(failc("read_bytes", &format!("err/{region}"), format!("{what}(off={off}, len={len}) = Err({e}), the file (size {}) holds {}", file.len(), brief(want)))),
    }
}

impl PcSpec {
    fn offsets(f: usize) -> Vec<u64> {
        match f {
            0 => vec![0, 1, 4095, 4096, 4097, EOF0 - 1, EOF0, EOF0 + 1],
            1 => vec![0, 1],
            _ => vec![0, 4095, 4096, EOF2 - 1, EOF2],
        }
    }
    fn lengths(f: usize) -> Vec<usize> {
        match f {
            0 => vec![0, 1, 4096, 4097],
            1 => vec![0, 1, 4096],
            _ => vec![1, 100, 4096],
        }
    }
    /// offsets around 2^44 = 2^32 pages (the page id is a u32) and at the top of the u64 range; all far beyond EOF
    fn huge() -> Vec<(u64, usize)> {
        let wrap = (PAGE_SIZE as u64) << 32;
        vec![(wrap - 1, 1), (wrap - 1, 2), (wrap, 1), (wrap + 1, 4096), (wrap + 4096, 1), (wrap + EOF0 - 1, 1), (u64::MAX - 4096, 1), (u64::MAX - 1, 1)]
    }
}

impl SeqSpec for PcSpec {
    type Op = PcOp;
    type St = PcSt;

    fn name(&self) -> String {
        self.name.clone()
    }
    fn depth(&self, tier: Tier) -> usize {
        tier.pick(self.depth_quick, self.depth_thorough)
    }
    fn bound(&self, tier: Tier) -> String {
        format!(
            "all histories of <= {} operations from {{8 reads of file 0 (2.5 pages) at page-boundary offsets, 1 read of file 1 (empty), read_batch, 2 prefetches, invalidate_page(0..=2), invalidate_range, external overwrite of the whole file / of page 1 / of two unaligned page-straddling ranges followed by invalidation of exactly that range}}; every read is compared with the file; at the end of every history the grid offsets {:?} x lengths {:?} (file 0) and {:?} x {:?} (file 1) is read{}",
            self.depth(tier),
            Self::offsets(0),
            Self::lengths(0),
            Self::offsets(1),
            Self::lengths(1),
            if self.straddle_eof { " including ranges that straddle EOF" } else { " except ranges that start inside the file and end beyond EOF (see the /straddle_eof subject)" }
        ) + &format!(
            "; coverage audit: a third file (file 2, {} bytes, contents different from file 0) with 2 reads in the alphabet and the grid {:?} x {:?} in the final sweep; further operations read_with_prefetch, mark_dirty, flush_file, close_file+open_file (with and without an external overwrite before it)",
            F2_SIZE,
            Self::offsets(2),
            Self::lengths(2)
        ) + &if self.huge_offsets { format!("; the final sweep also reads at the huge offsets {:?} (all beyond EOF: the file has no bytes there)", Self::huge()) } else { String::new() }
    }
    fn init(&self, scratch: &Path) -> Result<PcSt, Fail> {
        let dir = scratch.join(format!("c17-{:016x}", h64(&self.name)));
        let _ = std::fs::remove_dir_all(&dir);
        std::fs::create_dir_all(&dir).map_err(|e| Fail::new("harness", e.to_string()))?;
        let f0: Vec<u8> = (0..F0_SIZE).map(|i| file_byte(0, i)).collect();
        let f1: Vec<u8> = Vec::new();
        let f2: Vec<u8> = (0..F2_SIZE).map(file2_byte).collect();
        let paths = [dir.join("f0"), dir.join("f1"), dir.join("f2")];
        std::fs::write(&paths[0], &f0).map_err(|e| Fail::new("harness", e.to_string()))?;
        std::fs::write(&paths[1], &f1).map_err(|e| Fail::new("harness", e.to_string()))?;
        std::fs::write(&paths[2], &f2).map_err(|e| Fail::new("harness", e.to_string()))?;
        let cache = (self.make)().map_err(|e| Fail::new("construct", e))?;
        let a = cache.open(&paths[0]).map_err(|e| Fail::new("construct", e))?;
        let b = cache.open(&paths[1]).map_err(|e| Fail::new("construct", e))?;
        let c = cache.open(&paths[2]).map_err(|e| Fail::new("construct", e))?;
        Ok(PcSt { cache, fids: [a, b, c], files: [f0, f1, f2], paths, generation: 0, dir })
    }
    fn ops(&self, _st: &PcSt) -> Vec<PcOp> {
        let p = PAGE_SIZE;
        vec![
            PcOp::Read(0, 0, 1),
            PcOp::Read(0, 4095, 2),
            PcOp::Read(0, 4096, p),
            PcOp::Read(0, 4097, p + 1),
            PcOp::Read(0, 2 * p as u64, p / 2),
            PcOp::Read(0, EOF0 - 1, 1),
            PcOp::Read(0, EOF0, 1),
            PcOp::Read(0, 0, F0_SIZE),
            PcOp::Read(1, 0, 1),
            PcOp::ReadBatch,
            PcOp::Prefetch(0, 0, 1),
            PcOp::Prefetch(0, 4000, 5000),
            PcOp::InvalidatePage(0, 0),
            PcOp::InvalidatePage(0, 1),
            PcOp::InvalidatePage(0, 2),
            PcOp::InvalidateRange(0, 4095, 2),
            PcOp::OverwriteAllThenInvalidate,
            PcOp::OverwritePage1ThenInvalidate,
            // unaligned ranges whose tail crosses one more page boundary than their length suggests
            PcOp::OverwriteRangeThenInvalidate(4000, 200),
            PcOp::OverwriteRangeThenInvalidate(4095, 4098),
            // coverage audit (appended): a second non-empty file, the remaining public operations, close + reopen
            PcOp::Read(2, 0, 1),
            PcOp::Read(2, 4000, 196),
            PcOp::ReadWithPrefetch(0, 4090, 10, 2 * p),
            PcOp::MarkDirty(0, 1),
            PcOp::FlushFile(0),
            PcOp::CloseReopen(0),
            PcOp::OverwritePage1ThenCloseReopen,
        ]
    }
    fn apply(&self, st: &mut PcSt, op: &PcOp) -> Result<(), Fail> {
        match op {
            PcOp::Read(f, off, len) => {
                let got = st.cache.read(st.fids[*f as usize], *off, *len);
                judge_read("read", &st.files[*f as usize], *off, *len, got)?;
            }
            PcOp::ReadBatch => {
                let reqs = [(0usize, 4090u64, 10usize), (1, 0, 4), (0, 0, 4096), (0, 8192, 2048)];
                let r = st.cache.read_batch(reqs.iter().map(|(f, o, l)| (st.fids[*f], *o, *l)).collect());
                match r {
                    None => {}
                    Some(Err(e)) => return Err(failc("read_bytes", "err/batch", format!("read_batch = Err({e})"))),
                    Some(Ok(v)) => {
                        check!(v.len() == reqs.len(), "read_bytes", "read_batch of {} requests returned {} buffers", reqs.len(), v.len());
                        for ((f, o, l), g) in reqs.iter().zip(v) {
                            judge_read("read_batch", &st.files[*f], *o, *l, Ok(g))?;
                        }
                    }
                }
            }
            PcOp::Prefetch(f, off, len) => {
                // a refused prefetch changes nothing
                let _ = st.cache.prefetch(st.fids[*f as usize], *off, *len);
            }
            PcOp::InvalidatePage(f, p) => {
                st.cache.invalidate_page(st.fids[*f as usize], *p).map_err(|e| failc("invalidate", "err", format!("invalidate_page({p}) = Err({e})")))?;
            }
            PcOp::InvalidateRange(f, off, len) => {
                st.cache
                    .invalidate_range(st.fids[*f as usize], *off, *len)
                    .map_err(|e| failc("invalidate", "err", format!("invalidate_range({off},{len}) = Err({e})")))?;
            }
            PcOp::ReadWithPrefetch(f, off, len, ahead) => {
                if let Some(got) = st.cache.read_with_prefetch(st.fids[*f as usize], *off, *len, *ahead) {
                    judge_read("read_with_prefetch", &st.files[*f as usize], *off, *len, got)?;
                }
            }
            PcOp::MarkDirty(f, p) => {
                // the cache has no write path: a page marked dirty still holds the bytes of the file
                st.cache.mark_dirty(st.fids[*f as usize], *p).map_err(|e| failc("invalidate", "err", format!("mark_dirty({p}) = Err({e})")))?;
            }
            PcOp::FlushFile(f) => {
                st.cache.flush_file(st.fids[*f as usize]).map_err(|e| failc("invalidate", "err", format!("flush_file = Err({e})")))?;
            }
            PcOp::CloseReopen(_) | PcOp::OverwritePage1ThenCloseReopen => {
                let f = if let PcOp::CloseReopen(f) = op { *f as usize } else { 0 };
                if *op == PcOp::OverwritePage1ThenCloseReopen {
                    st.generation += 1;
                    for i in PAGE_SIZE..2 * PAGE_SIZE {
                        st.files[0][i] = file_byte(st.generation, i);
                    }
                    let io = |e: std::io::Error| Fail::new("harness", e.to_string());
                    let mut fh = std::fs::OpenOptions::new().write(true).open(&st.paths[0]).map_err(io)?;
                    fh.seek(SeekFrom::Start(PAGE_SIZE as u64)).map_err(io)?;
                    fh.write_all(&st.files[0][PAGE_SIZE..2 * PAGE_SIZE]).map_err(io)?;
                    fh.sync_all().map_err(io)?;
                }
                st.cache.close(st.fids[f]).map_err(|e| failc("invalidate", "err", format!("close_file = Err({e})")))?;
                st.fids[f] = st.cache.open(&st.paths[f]).map_err(|e| failc("invalidate", "err", format!("open_file after close_file = Err({e})")))?;
            }
            PcOp::OverwriteAllThenInvalidate | PcOp::OverwritePage1ThenInvalidate | PcOp::OverwriteRangeThenInvalidate(..) => {
                st.generation += 1;
                let (from, to) = match op {
                    PcOp::OverwriteAllThenInvalidate => (0, F0_SIZE),
                    PcOp::OverwriteRangeThenInvalidate(o, l) => (*o as usize, (*o as usize + *l).min(F0_SIZE)),
                    _ => (PAGE_SIZE, 2 * PAGE_SIZE),
                };
                for i in from..to {
                    st.files[0][i] = file_byte(st.generation, i);
                }
                let io = |e: std::io::Error| Fail::new("harness", e.to_string());
                let mut fh = std::fs::OpenOptions::new().write(true).open(&st.paths[0]).map_err(io)?;
                fh.seek(SeekFrom::Start(from as u64)).map_err(io)?;
                fh.write_all(&st.files[0][from..to]).map_err(io)?;
                fh.sync_all().map_err(io)?;
                drop(fh);
                if *op == PcOp::OverwriteAllThenInvalidate {
                    st.cache.invalidate_range(st.fids[0], 0, F0_SIZE).map_err(|e| failc("invalidate", "err", format!("invalidate_range(0,{F0_SIZE}) = Err({e})")))?;
                } else if let PcOp::OverwriteRangeThenInvalidate(o, l) = op {
                    st.cache.invalidate_range(st.fids[0], *o, *l).map_err(|e| failc("invalidate", "err", format!("invalidate_range({o},{l}) = Err({e})")))?;
                } else {
                    st.cache.invalidate_page(st.fids[0], 1).map_err(|e| failc("invalidate", "err", format!("invalidate_page(1) = Err({e})")))?;
                }
            }
        }
        Ok(())
    }
    fn observe(&self, st: &mut PcSt, h: &mut DefaultHasher) -> Result<(), Fail> {
        // there is no read-only query on a page cache (every read moves pages); the history itself is the state
        st.generation.hash(h);
        Ok(())
    }
    fn finish(&self, st: PcSt) -> Result<(), Fail> {
        let mut r = Ok(());
        if self.huge_offsets {
            for (off, len) in Self::huge() {
                // file_range() works on usize offsets within the file: everything here is beyond EOF
                let verdict = match zverif::util::catch(|| st.cache.read(st.fids[0], off, len)) {
                    Err(p) => Err(failc("read_bytes", "panic/beyond_eof/page_number>=2^32", format!("read(off={off}, len={len}) {}; the file (size {}) has no bytes there, an empty result is expected as for every other offset beyond EOF", p.detail, st.files[0].len()))),
                    Ok(got) => match got {
                    Ok(g) if g.is_empty() => Ok(()),
                    Ok(g) => Err(failc("read_bytes", "long/beyond_eof", format!("read(off={off}, len={len}) returned {} but the file (size {}) has no bytes there", brief(&g), st.files[0].len()))),
                    Err(e) => Err(failc("read_bytes", "err/beyond_eof", format!("read(off={off}, len={len}) = Err({e}); the file (size {}) has no bytes there, an empty result is expected as for every other offset beyond EOF", st.files[0].len()))),
                    },
                };
                if let Err(e) = verdict {
                    let dir = st.dir.clone();
                    drop(st);
                    let _ = std::fs::remove_dir_all(dir);
                    return Err(e);
                }
            }
        }
        'outer: for f in 0..3usize {
            for off in Self::offsets(f) {
                for len in Self::lengths(f) {
                    let size = st.files[f].len();
                    let straddles = (off as usize) < size && off as usize + len > size;
                    if straddles != self.straddle_eof && (straddles || self.straddle_eof) {
                        // main subject: skip straddling ranges; /straddle_eof subject: only straddling ranges
                        continue;
                    }
                    let got = st.cache.read(st.fids[f], off, len);
                    if let Err(e) = judge_read("read", &st.files[f], off, len, got) {
                        r = Err(e);
                        break 'outer;
                    }
                }
            }
        }
        let dir = st.dir.clone();
        drop(st);
        let _ = std::fs::remove_dir_all(dir);
        r
    }
}

fn page_cfg(pages: usize) -> PageCacheConfig {
    PageCacheConfig::balanced().with_capacity(pages * PAGE_SIZE)
}

fn pc_spec(name: String, make: Box<dyn Fn() -> Result<Box<dyn PageCacheLike>, String>>, dq: usize, dt: usize) -> PcSpec {
    PcSpec { name, make, straddle_eof: false, depth_quick: dq, depth_thorough: dt, huge_offsets: false }
}

fn lru_pc(cfg: PageCacheConfig) -> Result<Box<dyn PageCacheLike>, String> {
    LruPageCache::new(cfg).map(|c| Box::new(c) as Box<dyn PageCacheLike>).map_err(|e| e.to_string())
}

fn register_page_caches(reg: &mut zverif::Registry) {
    for pages in [1usize, 2, 3] {
        reg.add(Seq(pc_spec(format!("LruPageCache[pages={pages}]"), Box::new(move || lru_pc(page_cfg(pages))), 3, 4)));
    }
    let mut s = pc_spec("LruPageCache[pages=2]/straddle_eof".into(), Box::new(move || lru_pc(page_cfg(2))), 1, 2);
    s.straddle_eof = true;
    reg.add(Seq(s));
    // (pages, into_buffer, reuse one buffer, take the buffer from a BufferPool)
    for (pages, into_buffer, reuse, pooled) in [(1usize, false, false, false), (2, true, false, false), (2, true, true, false), (2, true, false, true)] {
        reg.add(Seq(pc_spec(
            format!(
                "SingleLruPageCache[pages={pages},{}]",
                if pooled { "read into a BufferPool buffer" } else if reuse { "read into one reused buffer" } else if into_buffer { "read" } else { "read_new" }
            ),
            Box::new(move || {
                SingleLruPageCache::new(page_cfg(pages))
                    .map(|c| {
                        Box::new(SingleAdapter {
                            cache: c,
                            into_buffer,
                            reused: if reuse { Some(std::sync::Mutex::new(CacheBuffer::new())) } else { None },
                            pool: if pooled { Some(BufferPool::new(1)) } else { None },
                        }) as Box<dyn PageCacheLike>
                    })
                    .map_err(|e| e.to_string())
            }),
            3,
            4,
        )));
    }
    for preset in ["memory_optimized", "security_optimized"] {
        reg.add(Seq(pc_spec(
            format!("LruPageCache[{preset},pages=2]"),
            Box::new(move || {
                let cfg = if preset == "memory_optimized" { PageCacheConfig::memory_optimized() } else { PageCacheConfig::security_optimized() };
                lru_pc(cfg.with_capacity(2 * PAGE_SIZE))
            }),
            2,
            3,
        )));
    }
    // ---- coverage audit --------------------------------------------------------------------------------------------
    // capacities that are not a whole number of pages: 0.5 page (capacity / PAGE_SIZE == 0: every insertion evicts first)
    // and 1.5 pages
    for (label, bytes) in [("0.5", PAGE_SIZE / 2), ("1.5", PAGE_SIZE + PAGE_SIZE / 2)] {
        reg.add(Seq(pc_spec(format!("LruPageCache[capacity={label} pages]"), Box::new(move || lru_pc(PageCacheConfig::balanced().with_capacity(bytes))), 2, 3)));
    }
    // the remaining presets / builder options: performance_optimized (huge pages off: with them validate() wants >= 2 MiB),
    // Default::default(), every shard count the builder accepts in {1, 8, 64}
    reg.add(Seq(pc_spec(
        "LruPageCache[performance_optimized,no huge pages,pages=2]".into(),
        Box::new(move || lru_pc(PageCacheConfig::performance_optimized().with_huge_pages(false).with_capacity(2 * PAGE_SIZE))),
        2,
        3,
    )));
    for shards in [1u32, 8, 64] {
        reg.add(Seq(pc_spec(
            format!("LruPageCache[default,shards={shards},prefetch off,statistics off,pages=2]"),
            Box::new(move || lru_pc(PageCacheConfig::default().with_shards(shards).with_prefetch(false).with_statistics(false).with_load_factor(0.5).with_capacity(2 * PAGE_SIZE))),
            2,
            3,
        )));
    }
    // performance_optimized as it comes (huge pages on): the smallest capacity validate() accepts is one huge page = 512
    // cache pages, more than the three files together: no eviction, every page is served from the cache on its second read
    reg.add(Seq(pc_spec(
        "LruPageCache[performance_optimized,capacity=2MiB]".into(),
        Box::new(move || lru_pc(PageCacheConfig::performance_optimized().with_capacity(zipora::cache::HUGE_PAGE_SIZE))),
        2,
        3,
    )));
    // offsets whose page number does not fit the 32-bit page id
    let mut s = pc_spec("LruPageCache[pages=2]/huge_offsets".into(), Box::new(move || lru_pc(page_cfg(2))), 1, 2);
    s.huge_offsets = true;
    reg.add(Seq(s));
}

// =============================================================================================
// CacheBuffer / BufferPool (coverage audit): the caller-owned object every page-cache read ends in.  "bytes in CacheBuffer" is
// one of the property's observation points: whatever sequence of copy/extend/clear/reserve/pool round trips a buffer
// has been through, data() must be exactly the bytes last put into it — never bytes of an earlier use.

#[derive(Clone, Debug)]
pub enum BufOp {
    /// copy_from_slice(pattern) into slot
    Copy(u8, &'static str),
    /// extend_from_slice(pattern)
    Extend(u8, &'static str),
    Clear(u8),
    /// reserve(n) — must not change data()
    Reserve(u8, usize),
    /// replace the slot by CacheBuffer::from_data(pattern)
    FromData(u8, &'static str),
    /// hand the slot's buffer to the pool (the slot gets a fresh CacheBuffer::new())
    PoolPut(u8),
    /// replace the slot's buffer by pool.get(): must be empty whatever it held when it was put back
    PoolGet(u8),
}

fn buf_pattern(name: &str) -> Vec<u8> {
    match name {
        "" => Vec::new(),
        "a" => b"a".to_vec(),
        "bcd" => b"bcd".to_vec(),
        // longer than a page and than any small-vector capacity
        _ => (0..5000u32).map(|i| (i % 253) as u8 + 1).collect(),
    }
}

pub struct BufSt {
    slots: [CacheBuffer; 2],
    model: [Vec<u8>; 2],
    pool: BufferPool,
    /// number of buffers the pool holds according to the model (max_size 1)
    pooled: usize,
    /// reserve() was called on the slot's buffer since its contents were last written (failure class only)
    reserved: [bool; 2],
}

pub struct BufSpec {
    pub depth_quick: usize,
    pub depth_thorough: usize,
    /// reserve() is in the alphabet (separate subject: see the finding on reserve)
    pub with_reserve: bool,
}

impl SeqSpec for BufSpec {
    type Op = BufOp;
    type St = BufSt;
    fn name(&self) -> String {
        if self.with_reserve { "CacheBuffer+BufferPool/with reserve".into() } else { "CacheBuffer+BufferPool".into() }
    }
    fn depth(&self, tier: Tier) -> usize {
        tier.pick(self.depth_quick, self.depth_thorough)
    }
    fn bound(&self, tier: Tier) -> String {
        format!(
            "all histories of <= {} operations over two CacheBuffers and a BufferPool(max 1) from {{copy_from_slice(p), extend_from_slice(p) for p in [empty, 1 byte, 3 bytes, 5000 bytes] (slot 1: 1 byte only), clear, from_data, pool.put, pool.get{}}}; after every step data()/len()/is_empty() of both buffers == the bytes the model holds, has_data() is false for a cleared/new/pool-fresh buffer, pool.stats().available_count == model",
            self.depth(tier),
            if self.with_reserve { ", reserve(64 KiB) / reserve(1)" } else { "" }
        )
    }
    fn init(&self, _scratch: &Path) -> Result<BufSt, Fail> {
        Ok(BufSt { slots: [CacheBuffer::new(), CacheBuffer::new()], model: [Vec::new(), Vec::new()], pool: BufferPool::new(1), pooled: 0, reserved: [false; 2] })
    }
    fn ops(&self, _st: &BufSt) -> Vec<BufOp> {
        let mut v = Vec::new();
        for p in ["a", "bcd", "", "big"] {
            v.push(BufOp::Copy(0, p));
        }
        for p in ["a", "bcd", "", "big"] {
            v.push(BufOp::Extend(0, p));
        }
        v.push(BufOp::Clear(0));
        v.push(BufOp::FromData(0, "bcd"));
        v.push(BufOp::PoolPut(0));
        v.push(BufOp::PoolGet(0));
        v.push(BufOp::Copy(1, "a"));
        v.push(BufOp::Extend(1, "a"));
        v.push(BufOp::PoolPut(1));
        v.push(BufOp::PoolGet(1));
        if self.with_reserve {
            v.push(BufOp::Reserve(0, 64 * 1024));
            v.push(BufOp::Reserve(0, 1));
        }
        v
    }
    fn apply(&self, st: &mut BufSt, op: &BufOp) -> Result<(), Fail> {
        match *op {
            BufOp::Reserve(s, _) => st.reserved[s as usize] = true,
            BufOp::Extend(_, "") => {}
            BufOp::Copy(s, _) | BufOp::Extend(s, _) | BufOp::Clear(s) | BufOp::FromData(s, _) | BufOp::PoolPut(s) | BufOp::PoolGet(s) => st.reserved[s as usize] = false,
        }
        match *op {
            BufOp::Copy(s, p) => {
                st.slots[s as usize].copy_from_slice(&buf_pattern(p));
                st.model[s as usize] = buf_pattern(p);
            }
            BufOp::Extend(s, p) => {
                st.slots[s as usize].extend_from_slice(&buf_pattern(p));
                st.model[s as usize].extend_from_slice(&buf_pattern(p));
            }
            BufOp::Clear(s) => {
                st.slots[s as usize].clear();
                st.model[s as usize].clear();
                check!(!st.slots[s as usize].has_data(), "buffer_bytes", "has_data() is true right after clear()");
            }
            BufOp::Reserve(s, n) => st.slots[s as usize].reserve(n),
            BufOp::FromData(s, p) => {
                st.slots[s as usize] = CacheBuffer::from_data(buf_pattern(p));
                st.model[s as usize] = buf_pattern(p);
            }
            BufOp::PoolPut(s) => {
                let b = std::mem::replace(&mut st.slots[s as usize], CacheBuffer::new());
                st.pool.put(b);
                st.model[s as usize].clear();
                st.pooled = 1; // max_size 1: a second buffer is dropped
            }
            BufOp::PoolGet(s) => {
                st.slots[s as usize] = st.pool.get();
                st.model[s as usize].clear();
                st.pooled = 0;
                let b = &st.slots[s as usize];
                if b.has_data() || !b.data().is_empty() {
                    return Err(failc("buffer_bytes", "pool_get_not_empty", format!("BufferPool::get() returned a buffer with has_data() = {} holding {}", b.has_data(), brief(b.data()))));
                }
            }
        }
        Ok(())
    }
    fn observe(&self, st: &mut BufSt, h: &mut DefaultHasher) -> Result<(), Fail> {
        st.model.hash(h);
        st.pooled.hash(h);
        for i in 0..2 {
            let d = st.slots[i].data();
            if d != &st.model[i][..] {
                let class = format!("{}{}", if d.len() != st.model[i].len() { "wrong_length" } else { "wrong_bytes" }, if st.reserved[i] { "/after_reserve" } else { "" });
                return Err(failc("buffer_bytes", &class, format!("buffer {i}: data() = {}, the bytes put into it are {}", brief(d), brief(&st.model[i]))));
            }
            check!(st.slots[i].len() == st.model[i].len(), "buffer_bytes", "buffer {i}: len() = {}, model {}", st.slots[i].len(), st.model[i].len());
            check!(st.slots[i].is_empty() == st.model[i].is_empty(), "buffer_bytes", "buffer {i}: is_empty() = {}, model holds {} bytes", st.slots[i].is_empty(), st.model[i].len());
        }
        let a = st.pool.stats().available_count;
        check!(a == st.pooled, "buffer_bytes", "pool.stats().available_count = {a}, model {}", st.pooled);
        Ok(())
    }
}

fn register_buffers(reg: &mut zverif::Registry) {
    reg.add(Seq(BufSpec { depth_quick: 4, depth_thorough: 5, with_reserve: false }));
    reg.add(Seq(BufSpec { depth_quick: 2, depth_thorough: 3, with_reserve: true }));
}

// =============================================================================================
// cached blob store == the store it wraps

#[derive(Clone, Debug)]
pub enum CbOp {
    Put(&'static str),
    Remove(usize),
    DisableCache,
    EnableCache,
    // ---- coverage audit (appended) ----
    /// set_write_strategy(the next of WriteThrough -> WriteBack -> WriteAround -> WriteThrough)
    NextStrategy,
    /// prefetch_range(0, 2 pages)
    PrefetchRange,
    Flush,
    /// put / remove directly on the wrapped store through inner_mut(), behind the cache's back
    InnerPut(&'static str),
    InnerRemove(usize),
    /// the same on a second CachedBlobStore that shares the page cache (SharedCache subjects only)
    PutB(&'static str),
    RemoveB(usize),
}

fn cb_record(name: &str) -> Vec<u8> {
    match name {
        "e" => Vec::new(),
        "zz" => b"zz".to_vec(),
        "c300" => (0..300u32).map(|i| (i % 256) as u8).collect(),
        "q9000" => (0..9000u32).map(|i| (i % 239) as u8 ^ 0x55).collect(), // longer than two cache pages
        _ => (0..4000u32).map(|i| (i % 251) as u8).collect(), // p4000: two of them straddle a cache page
    }
}

pub struct CbSt {
    store: CachedBlobStore<MemoryBlobStore>,
    issued: Vec<u32>,
    /// SharedCache: a second store on the same Arc<LruPageCache>
    store_b: Option<CachedBlobStore<MemoryBlobStore>>,
    issued_b: Vec<u32>,
}

#[derive(Clone, Copy, PartialEq, Eq, Debug)]
pub enum CbCtor {
    /// CachedBlobStore::with_write_strategy
    WithWriteStrategy,
    /// CachedBlobStore::new (write-through)
    New,
    /// two stores built with with_cache_and_strategy / with_cache on one shared Arc<LruPageCache>
    SharedCache,
}

pub struct CbSpec {
    pub name: String,
    pub strategy: CacheWriteStrategy,
    pub pages: usize,
    pub depth_quick: usize,
    pub depth_thorough: usize,
    pub ctor: CbCtor,
    /// the operations appended by the coverage audit are in the alphabet
    pub extended: bool,
}

fn next_strategy(s: CacheWriteStrategy) -> CacheWriteStrategy {
    match s {
        CacheWriteStrategy::WriteThrough => CacheWriteStrategy::WriteBack,
        CacheWriteStrategy::WriteBack => CacheWriteStrategy::WriteAround,
        CacheWriteStrategy::WriteAround => CacheWriteStrategy::WriteThrough,
    }
}

fn cb_compare(which: &str, store: &CachedBlobStore<MemoryBlobStore>, issued: &[u32], h: &mut DefaultHasher) -> Result<(), Fail> {
    issued.hash(h);
    let max = issued.iter().copied().max().unwrap_or(0);
    for id in (0..=max + 1).chain([u32::MAX]) {
        let outer = store.get(id);
        let inner = store.inner().get(id);
        inner.is_ok().hash(h);
        match (&outer, &inner) {
            (Ok(a), Ok(b)) => {
                if a != b {
                    return Err(failc("cached_eq_inner", "wrong_bytes", format!("{which}get({id}) = {} through the cache, the wrapped store holds {}", brief(a), brief(b))));
                }
            }
            (Err(_), Err(_)) => {}
            (Ok(a), Err(_)) => return Err(failc("cached_eq_inner", "served_absent", format!("{which}get({id}) = Ok({}) through the cache, the wrapped store reports the id absent", brief(a)))),
            (Err(e), Ok(b)) => return Err(failc("cached_eq_inner", "err", format!("{which}get({id}) = Err({e}) through the cache, the wrapped store holds {}", brief(b)))),
        }
        let (c1, c2) = (store.contains(id), store.inner().contains(id));
        check!(c1 == c2, "cached_eq_inner", "{which}contains({id}) = {c1} through the cache, {c2} in the wrapped store");
        let (s1, s2) = (store.size(id).ok().flatten(), store.inner().size(id).ok().flatten());
        check!(s1 == s2, "cached_eq_inner", "{which}size({id}) = {:?} through the cache, {:?} in the wrapped store", s1, s2);
    }
    let (l1, l2) = (store.len(), store.inner().len());
    check!(l1 == l2, "cached_eq_inner", "{which}len() = {l1} through the cache, {l2} in the wrapped store");
    let (e1, e2) = (store.is_empty(), store.inner().is_empty());
    check!(e1 == e2, "cached_eq_inner", "{which}is_empty() = {e1} through the cache, {e2} in the wrapped store");
    Ok(())
}

impl SeqSpec for CbSpec {
    type Op = CbOp;
    type St = CbSt;
    fn name(&self) -> String {
        self.name.clone()
    }
    fn depth(&self, tier: Tier) -> usize {
        tier.pick(self.depth_quick, self.depth_thorough)
    }
    fn bound(&self, tier: Tier) -> String {
        format!(
            "all histories of <= {} operations from {{put(r) r in [e, zz, c300, p4000], remove(j-th most recent id) j<2, disable_cache, enable_cache}}; after every step get/contains/size/len of the cached store are compared with the wrapped store (inner()) on ids 0..=max+1{}{}; constructor {:?}",
            self.depth(tier),
            if self.extended { "; coverage audit: further operations put(q9000 = 9000 bytes, more than two cache pages), set_write_strategy(next), prefetch_range, flush, put/remove directly on the wrapped store through inner_mut()" } else { "" },
            if self.ctor == CbCtor::SharedCache { ", put/remove on a second cached store that shares the page cache (both stores are compared with their own wrapped store)" } else { "" },
            self.ctor
        )
    }
    fn init(&self, _scratch: &Path) -> Result<CbSt, Fail> {
        let err = |e: zipora::error::ZiporaError| Fail::new("construct", e.to_string());
        let (store, store_b) = match self.ctor {
            CbCtor::WithWriteStrategy => (CachedBlobStore::with_write_strategy(MemoryBlobStore::new(), page_cfg(self.pages), self.strategy).map_err(err)?, None),
            CbCtor::New => (CachedBlobStore::new(MemoryBlobStore::new(), page_cfg(self.pages)).map_err(err)?, None),
            CbCtor::SharedCache => {
                let cache = Arc::new(LruPageCache::new(page_cfg(self.pages)).map_err(err)?);
                let a = CachedBlobStore::with_cache_and_strategy(MemoryBlobStore::new(), cache.clone(), self.strategy).map_err(err)?;
                let b = CachedBlobStore::with_cache(MemoryBlobStore::new(), cache).map_err(err)?;
                (a, Some(b))
            }
        };
        Ok(CbSt { store, issued: Vec::new(), store_b, issued_b: Vec::new() })
    }
    fn ops(&self, st: &CbSt) -> Vec<CbOp> {
        let mut v: Vec<CbOp> = ["e", "zz", "c300", "p4000"].into_iter().map(CbOp::Put).collect();
        for j in 0..st.issued.len().min(2) {
            v.push(CbOp::Remove(j));
        }
        v.push(CbOp::DisableCache);
        v.push(CbOp::EnableCache);
        if !self.extended {
            return v;
        }
        v.push(CbOp::Put("q9000"));
        v.push(CbOp::NextStrategy);
        v.push(CbOp::PrefetchRange);
        v.push(CbOp::Flush);
        v.push(CbOp::InnerPut("zz"));
        if !st.issued.is_empty() {
            v.push(CbOp::InnerRemove(0));
        }
        if self.ctor == CbCtor::SharedCache {
            v.push(CbOp::PutB("c300"));
            v.push(CbOp::PutB("p4000"));
            if !st.issued_b.is_empty() {
                v.push(CbOp::RemoveB(0));
            }
        }
        v
    }
    fn apply(&self, st: &mut CbSt, op: &CbOp) -> Result<(), Fail> {
        match op {
            CbOp::Put(r) => {
                if let Ok(id) = st.store.put(&cb_record(r)) {
                    st.issued.retain(|x| *x != id);
                    st.issued.push(id);
                }
            }
            CbOp::Remove(j) => {
                let id = st.issued[st.issued.len() - 1 - j];
                let _ = st.store.remove(id);
            }
            CbOp::DisableCache => st.store.disable_cache(),
            CbOp::EnableCache => st.store.enable_cache(),
            CbOp::NextStrategy => {
                let n = next_strategy(st.store.write_strategy());
                st.store.set_write_strategy(n);
                check!(st.store.write_strategy() == n, "cached_eq_inner", "write_strategy() after set_write_strategy({:?}) = {:?}", n, st.store.write_strategy());
            }
            CbOp::PrefetchRange => {
                let _ = st.store.prefetch_range(0, 2 * PAGE_SIZE);
            }
            CbOp::Flush => {
                let _ = st.store.flush();
            }
            CbOp::InnerPut(r) => {
                if let Ok(id) = st.store.inner_mut().put(&cb_record(r)) {
                    st.issued.retain(|x| *x != id);
                    st.issued.push(id);
                }
            }
            CbOp::InnerRemove(j) => {
                let id = st.issued[st.issued.len() - 1 - j];
                let _ = st.store.inner_mut().remove(id);
            }
            CbOp::PutB(r) => {
                let b = st.store_b.as_mut().expect("SharedCache subject");
                if let Ok(id) = b.put(&cb_record(r)) {
                    st.issued_b.retain(|x| *x != id);
                    st.issued_b.push(id);
                }
            }
            CbOp::RemoveB(j) => {
                let id = st.issued_b[st.issued_b.len() - 1 - j];
                let _ = st.store_b.as_mut().expect("SharedCache subject").remove(id);
            }
        }
        Ok(())
    }
    fn observe(&self, st: &mut CbSt, h: &mut DefaultHasher) -> Result<(), Fail> {
        cb_compare("", &st.store, &st.issued, h)?;
        if let Some(b) = &st.store_b {
            cb_compare("store B: ", b, &st.issued_b, h)?;
        }
        Ok(())
    }
}

fn register_cached_store(reg: &mut zverif::Registry) {
    for (sname, strategy) in
        [("WriteThrough", CacheWriteStrategy::WriteThrough), ("WriteBack", CacheWriteStrategy::WriteBack), ("WriteAround", CacheWriteStrategy::WriteAround)]
    {
        reg.add(Seq(CbSpec { name: format!("CachedBlobStore<Memory>[{sname},pages=1]/vs_inner"), strategy, pages: 1, depth_quick: 4, depth_thorough: 6, ctor: CbCtor::WithWriteStrategy, extended: false }));
    }
    reg.add(Seq(CbSpec {
        name: "CachedBlobStore<Memory>[WriteThrough,pages=1]/vs_inner/all operations".into(),
        strategy: CacheWriteStrategy::WriteThrough,
        pages: 1,
        depth_quick: 3,
        depth_thorough: 5,
        ctor: CbCtor::WithWriteStrategy,
        extended: true,
    }));
    // coverage audit: the other constructors; two stores on one shared cache (their blob offsets overlap in the shared page space)
    reg.add(Seq(CbSpec { name: "CachedBlobStore<Memory>::new[pages=2]/vs_inner".into(), strategy: CacheWriteStrategy::WriteThrough, pages: 2, depth_quick: 3, depth_thorough: 5, ctor: CbCtor::New, extended: true }));
    reg.add(Seq(CbSpec {
        name: "CachedBlobStore<Memory> x2 on one shared cache[WriteBack+WriteThrough,pages=1]/vs_inner".into(),
        strategy: CacheWriteStrategy::WriteBack,
        pages: 1,
        depth_quick: 3,
        depth_thorough: 5,
        ctor: CbCtor::SharedCache,
        extended: true,
    }));
}

// =============================================================================================
// fsa::cache — capacity and staleness only (its eviction order is by state id, by design not LRU)

#[derive(Clone, Debug)]
pub enum FsaOp {
    /// cache_state(parent, child_base, is_terminal)
    Cache(u32, u32, bool),
    Remove(usize),
    Clear,
    // ---- coverage audit (appended) ----
    /// add_zero_path(j-th most recent id, one segment)
    AddZeroPath(usize, &'static str),
}

pub struct FsaSt {
    cache: FsaCache,
    /// id -> last state cached under that id (None = removed by the caller)
    last: BTreeMap<u32, Option<(u32, u32, bool)>>,
    issued: Vec<u32>,
    /// id -> zero path attached to the CURRENT incarnation of that id (a re-issued id starts without one)
    zero: BTreeMap<u32, Vec<u8>>,
}

pub struct FsaSpec {
    pub name: String,
    pub strategy: CacheStrategy,
    pub max_states: usize,
    pub depth_quick: usize,
    pub depth_thorough: usize,
    /// add_zero_path and a state with extreme field values are in the alphabet; get_zero_path is observed
    pub zero_paths: bool,
    /// number of cache_state calls of the scripted prefix (alternating terminal / non-terminal)
    pub prefill: usize,
    pub suffix: &'static str,
}

impl SeqSpec for FsaSpec {
    type Op = FsaOp;
    type St = FsaSt;
    fn name(&self) -> String {
        format!("{}{}", self.name, self.suffix)
    }
    fn depth(&self, tier: Tier) -> usize {
        tier.pick(self.depth_quick, self.depth_thorough)
    }
    fn bound(&self, tier: Tier) -> String {
        format!(
            "all histories of <= {} operations from {{cache_state(parent,base,terminal) for 3 states, remove_state(j-th most recent id) j<2, clear}}; max_states = {}; after every step: at most max_states ids answer get_state, stats().cached_states <= max_states, get_state(id) is None or the last state cached under that id, removed ids answer None{}{}",
            self.depth(tier),
            self.max_states,
            if self.zero_paths { "; coverage audit: further operations add_zero_path(j-th most recent id, segment) j<2 and cache_state(0xFFFFFF, u32::MAX, true); get_zero_path(id) is None or the path attached to the current incarnation of a retrievable state (a re-issued id must not show the path of its predecessor)" } else { "" },
            if self.prefill > 0 { format!("; every history starts after {} cache_state calls (max_states/10 >= 2: an eviction removes several states at once), the most recent one carrying a zero path", self.prefill) } else { String::new() }
        )
    }
    fn init(&self, _scratch: &Path) -> Result<FsaSt, Fail> {
        let cfg = FsaCacheConfig { max_states: self.max_states, strategy: self.strategy, ..FsaCacheConfig::small() };
        let cache = FsaCache::with_config(cfg).map_err(|e| Fail::new("construct", e.to_string()))?;
        let mut st = FsaSt { cache, last: BTreeMap::new(), issued: Vec::new(), zero: BTreeMap::new() };
        for i in 0..self.prefill {
            self.apply(&mut st, &FsaOp::Cache(100 + i as u32, 1000 + i as u32, i % 2 == 1))?;
            if i % 3 == 0 {
                self.apply(&mut st, &FsaOp::AddZeroPath(0, "pre"))?;
            }
        }
        Ok(st)
    }
    fn ops(&self, st: &FsaSt) -> Vec<FsaOp> {
        let mut v = vec![FsaOp::Cache(0, 10, false), FsaOp::Cache(1, 20, true), FsaOp::Cache(2, 30, false)];
        for j in 0..st.issued.len().min(2) {
            v.push(FsaOp::Remove(j));
        }
        v.push(FsaOp::Clear);
        if self.zero_paths {
            for j in 0..st.issued.len().min(2) {
                v.push(FsaOp::AddZeroPath(j, if j == 0 { "x" } else { "yz" }));
            }
            v.push(FsaOp::Cache(0x00FF_FFFF, u32::MAX, true));
        }
        v
    }
    fn apply(&self, st: &mut FsaSt, op: &FsaOp) -> Result<(), Fail> {
        match *op {
            FsaOp::AddZeroPath(j, seg) => {
                let id = st.issued[st.issued.len() - 1 - j];
                let mut z = zipora::fsa::cache::ZeroPathData::new();
                z.add_segment(seg.as_bytes()).map_err(|e| Fail::new("harness", e.to_string()))?;
                // Err = the state is not cached (evicted / removed): nothing attached
                if st.cache.add_zero_path(id, z).is_ok() {
                    st.zero.insert(id, seg.as_bytes().to_vec());
                }
            }
            FsaOp::Cache(p, b, t) => {
                if let Ok(id) = st.cache.cache_state(p, b, t) {
                    st.zero.remove(&id);
                    st.last.insert(id, Some((p, b, t)));
                    st.issued.retain(|x| *x != id);
                    st.issued.push(id);
                }
            }
            FsaOp::Remove(j) => {
                let id = st.issued[st.issued.len() - 1 - j];
                let _ = st.cache.remove_state(id);
                st.last.insert(id, None);
                st.zero.remove(&id);
            }
            FsaOp::Clear => {
                st.cache.clear();
                st.zero.clear();
                for v in st.last.values_mut() {
                    *v = None;
                }
            }
        }
        Ok(())
    }
    fn observe(&self, st: &mut FsaSt, h: &mut DefaultHasher) -> Result<(), Fail> {
        st.last.hash(h);
        st.zero.hash(h);
        let max = st.issued.iter().copied().max().unwrap_or(0);
        let mut present = 0usize;
        for id in 0..=max + 1 {
            let got = st.cache.get_state(id).map(|s| (s.parent(), s.child_base, s.is_terminal()));
            if got.is_some() {
                present += 1;
            }
            if let Some(z) = st.cache.get_zero_path(id).map(|z| z.get_full_path()) {
                if got.is_none() {
                    return Err(failc("get", "ghost_zero_path", format!("get_zero_path({id}) = {:?} although get_state({id}) is None", z)));
                }
                if st.zero.get(&id) != Some(&z) {
                    return Err(failc("get", "stale_zero_path", format!("get_zero_path({id}) = {:?}, the path attached to the current state {id} is {:?}", z, st.zero.get(&id))));
                }
            }
            match (got, st.last.get(&id).copied().flatten()) {
                (None, _) => {}
                (Some(g), Some(w)) => {
                    if g != w {
                        return Err(failc("get", "stale", format!("get_state({id}) = {:?}, the last state cached under that id is {:?}", g, w)));
                    }
                }
                (Some(g), None) => return Err(failc("get", "ghost", format!("get_state({id}) = {:?}, but that id was removed, cleared or never issued", g))),
            }
        }
        if present > self.max_states {
            return Err(failc("capacity", "len_gt_capacity", format!("{present} states are retrievable, max_states = {}", self.max_states)));
        }
        let cs = st.cache.stats().cached_states;
        check!(cs <= self.max_states, "capacity", "stats().cached_states = {cs} > max_states = {}", self.max_states);
        Ok(())
    }
}

fn register_fsa(reg: &mut zverif::Registry) {
    for (sname, strategy) in [("BreadthFirst", CacheStrategy::BreadthFirst), ("DepthFirst", CacheStrategy::DepthFirst), ("CacheFriendly", CacheStrategy::CacheFriendly)] {
        for max_states in [1usize, 2] {
            reg.add(Seq(FsaSpec { name: format!("FsaCache[{sname},max_states={max_states}]"), strategy, max_states, depth_quick: 5, depth_thorough: 7, zero_paths: false, prefill: 0, suffix: "" }));
        }
        // coverage audit
        reg.add(Seq(FsaSpec { name: format!("FsaCache[{sname},max_states=2]"), strategy, max_states: 2, depth_quick: 4, depth_thorough: 6, zero_paths: true, prefill: 0, suffix: "/zero_paths" }));
        reg.add(Seq(FsaSpec { name: format!("FsaCache[{sname},max_states=20]"), strategy, max_states: 20, depth_quick: 3, depth_thorough: 4, zero_paths: true, prefill: 20, suffix: "/zero_paths/after[20 states]" }));
    }
}

fn main() {
    zverif::main_with("C17", |reg, _tier| {
        register_maps(reg);
        register_page_caches(reg);
        register_buffers(reg);
        register_cached_store(reg);
        register_fsa(reg);
    });
}
