//! C17 — caches stay within capacity, evict least-recently-used, never serve stale data (engine E1).
//!
//! * `LruMap` / `ConcurrentLruMap`: stepped against a reference LRU (one `VecDeque` recency list per shard, the
//!   real shard function, learned from a probe map).  Accesses are exactly the statement's: `get` and `put`;
//!   `contains_key`, `len`, `capacity`, `shard_sizes` are read-only observers.  Because `get` changes the
//!   recency order it is a *mutator* of the alphabet; in addition `finish` (the object is discarded afterwards)
//!   reads every key back and compares with the model, so every explored state is fully read out.
//! * `LruPageCache` / `SingleLruPageCache`: reads, prefetches, invalidations and external overwrites (followed by
//!   invalidation) over two scratch files; every read is compared with the bytes of the file; `finish` sweeps the
//!   whole offset x length grid.
//! * `CachedBlobStore`: every id answers like the wrapped store (`inner()`).
//! * `FsaCache`: only the clauses that apply to a non-LRU cache: at most `max_states` entries, `get_state` never
//!   returns anything but the last state cached under that id.

use std::collections::hash_map::DefaultHasher;
use std::collections::{BTreeMap, VecDeque};
use std::fmt;
use std::hash::Hash;
use std::io::{Seek, SeekFrom, Write};
use std::path::{Path, PathBuf};
use std::sync::{Arc, Mutex};

use zverif::seq::{Seq, SeqSpec};
use zverif::util::{brief, h64};
use zverif::{check, Fail, Tier};

use zipora::blob_store::cached_store::CacheWriteStrategy;
use zipora::blob_store::{BlobStore, CachedBlobStore, MemoryBlobStore};
use zipora::cache::{CacheBuffer, LruPageCache, PageCacheConfig, SingleLruPageCache, PAGE_SIZE};
use zipora::containers::specialized::{
    ConcurrentLruMap, ConcurrentLruMapConfig, EvictionCallback, LoadBalancingStrategy, LruMap, LruMapConfig,
};
use zipora::fsa::cache::{CacheStrategy, FsaCache, FsaCacheConfig};

fn failc(clause: &str, class: &str, detail: String) -> Fail {
    Fail::new(clause, detail).with_class(class)
}

// =============================================================================================
// LRU maps

#[derive(Clone, Default)]
pub struct Recorder(Arc<Mutex<Vec<(u64, u64)>>>);
impl EvictionCallback<u64, u64> for Recorder {
    fn on_evict(&self, key: &u64, value: &u64) {
        self.0.lock().unwrap_or_else(|e| e.into_inner()).push((*key, *value));
    }
}
impl Recorder {
    fn log(&self) -> Vec<(u64, u64)> {
        self.0.lock().unwrap_or_else(|e| e.into_inner()).clone()
    }
}

pub trait MapLike {
    fn get(&self, k: u64) -> Option<u64>;
    /// Err = refused
    fn put(&self, k: u64, v: u64) -> Result<Option<u64>, String>;
    fn remove(&self, k: u64) -> Option<u64>;
    fn contains(&self, k: u64) -> bool;
    fn clear(&self) -> Result<(), String>;
    fn len(&self) -> usize;
    fn capacity(&self) -> usize;
    fn shard_sizes(&self) -> Option<Vec<usize>> {
        None
    }
}

impl MapLike for LruMap<u64, u64, Recorder> {
    fn get(&self, k: u64) -> Option<u64> {
        LruMap::get(self, &k)
    }
    fn put(&self, k: u64, v: u64) -> Result<Option<u64>, String> {
        LruMap::put(self, k, v).map_err(|e| e.to_string())
    }
    fn remove(&self, k: u64) -> Option<u64> {
        LruMap::remove(self, &k)
    }
    fn contains(&self, k: u64) -> bool {
        LruMap::contains_key(self, &k)
    }
    fn clear(&self) -> Result<(), String> {
        LruMap::clear(self).map_err(|e| e.to_string())
    }
    fn len(&self) -> usize {
        LruMap::len(self)
    }
    fn capacity(&self) -> usize {
        LruMap::capacity(self)
    }
}

impl MapLike for ConcurrentLruMap<u64, u64, Recorder> {
    fn get(&self, k: u64) -> Option<u64> {
        ConcurrentLruMap::get(self, &k)
    }
    fn put(&self, k: u64, v: u64) -> Result<Option<u64>, String> {
        ConcurrentLruMap::put(self, k, v).map_err(|e| e.to_string())
    }
    fn remove(&self, k: u64) -> Option<u64> {
        ConcurrentLruMap::remove(self, &k)
    }
    fn contains(&self, k: u64) -> bool {
        ConcurrentLruMap::contains_key(self, &k)
    }
    fn clear(&self) -> Result<(), String> {
        ConcurrentLruMap::clear(self).map_err(|e| e.to_string())
    }
    fn len(&self) -> usize {
        ConcurrentLruMap::len(self)
    }
    fn capacity(&self) -> usize {
        ConcurrentLruMap::capacity(self)
    }
    fn shard_sizes(&self) -> Option<Vec<usize>> {
        Some(ConcurrentLruMap::shard_sizes(self))
    }
}

/// The shard function of `ConcurrentLruMap` (LoadBalancingStrategy::Hash), *learned from the implementation*
/// rather than recomputed: a scratch map with `shards` shards receives the single key `k`, and `shard_sizes()`
/// says where it went.  (Today that is `((h >> 32) ^ h) & (shards - 1)` with `h = DefaultHasher::new()` over the
/// key; a different but consistent function would be learned just as well.)  Learned once per (shards, key).
fn hash_shard(k: u64, shards: usize) -> usize {
    use std::collections::HashMap;
    use std::sync::OnceLock;
    static TABLE: OnceLock<Mutex<HashMap<(usize, u64), usize>>> = OnceLock::new();
    if shards <= 1 {
        return 0;
    }
    let table = TABLE.get_or_init(|| Mutex::new(HashMap::new()));
    if let Some(s) = table.lock().unwrap_or_else(|e| e.into_inner()).get(&(shards, k)) {
        return *s;
    }
    let probe = ConcurrentLruMap::<u64, u64, Recorder>::with_eviction_callback(shards, shards, Recorder::default()).expect("probe map");
    probe.put(k, 0).expect("probe put");
    let sizes = probe.shard_sizes();
    let s = sizes.iter().position(|n| *n == 1).expect("the key went to exactly one shard");
    table.lock().unwrap_or_else(|e| e.into_inner()).insert((shards, k), s);
    s
}

#[derive(Clone, Copy, PartialEq, Eq, Debug)]
pub enum Sharding {
    /// one shard, or the hash function above
    Hash,
    /// every key of this (single-threaded) history lands in one and the same shard
    OneShard,
    /// RoundRobin picks the shard from a call counter, not from the key: the per-shard capacity is chosen >= number of
    /// keys so that no eviction can ever be needed, and the model is a plain map
    NoEvictionPossible,
}

#[derive(Clone, Debug)]
pub enum MapOp {
    Get(u64),
    Put(u64, u64),
    Remove(u64),
    Clear,
}

pub struct RefLru {
    /// per shard: most recently accessed first
    shards: Vec<VecDeque<(u64, u64)>>,
    per_shard_capacity: usize,
    sharding: Sharding,
    /// evictions the model has performed, in order
    evicted: Vec<(u64, u64)>,
}

impl RefLru {
    fn shard_of(&self, k: u64) -> usize {
        match self.sharding {
            Sharding::Hash => hash_shard(k, self.shards.len()),
            _ => 0,
        }
    }
    fn peek(&self, k: u64) -> Option<u64> {
        self.shards[self.shard_of(k)].iter().find(|e| e.0 == k).map(|e| e.1)
    }
    fn get(&mut self, k: u64) -> Option<u64> {
        let s = self.shard_of(k);
        let pos = self.shards[s].iter().position(|e| e.0 == k)?;
        let e = self.shards[s].remove(pos).unwrap();
        self.shards[s].push_front(e);
        Some(e.1)
    }
    /// returns the entry evicted to make room, if any
    fn put(&mut self, k: u64, v: u64) -> Option<(u64, u64)> {
        let s = self.shard_of(k);
        if let Some(pos) = self.shards[s].iter().position(|e| e.0 == k) {
            self.shards[s].remove(pos);
            self.shards[s].push_front((k, v));
            return None;
        }
        let mut victim = None;
        if self.shards[s].len() >= self.per_shard_capacity {
            victim = self.shards[s].pop_back();
            if let Some(e) = victim {
                self.evicted.push(e);
            }
        }
        self.shards[s].push_front((k, v));
        victim
    }
    fn remove(&mut self, k: u64) {
        let s = self.shard_of(k);
        self.shards[s].retain(|e| e.0 != k);
    }
    fn clear(&mut self) {
        for s in self.shards.iter_mut() {
            s.clear();
        }
    }
    fn len(&self) -> usize {
        self.shards.iter().map(|s| s.len()).sum()
    }
}

pub struct MapSt {
    map: Box<dyn MapLike>,
    rec: Recorder,
    model: RefLru,
}

pub struct LruSpec {
    pub name: String,
    pub make: Box<dyn Fn(Recorder) -> Result<Box<dyn MapLike>, String>>,
    pub shards: usize,
    pub per_shard_capacity: usize,
    pub sharding: Sharding,
    pub keys: Vec<u64>,
    pub depth_quick: usize,
    pub depth_thorough: usize,
}

const ABSENT_KEY: u64 = 0xDEAD_0000_0000_0001;

impl SeqSpec for LruSpec {
    type Op = MapOp;
    type St = MapSt;

    fn name(&self) -> String {
        self.name.clone()
    }
    fn depth(&self, tier: Tier) -> usize {
        tier.pick(self.depth_quick, self.depth_thorough)
    }
    fn bound(&self, tier: Tier) -> String {
        format!(
            "all histories of <= {} operations from {{get(k), put(k,v), remove(k), clear}} (RoundRobin subject: get/put only, judged on get and capacity only) over keys {:?} (shards of the keys: {:?}) x values {{0,1}}; {} shard(s) of capacity {}; after every step: contains_key on every key + 1 absent key, len, capacity, shard_sizes, the complete eviction-callback log; at the end of every history every key is read back with get",
            self.depth(tier),
            self.keys,
            self.keys.iter().map(|k| if self.sharding == Sharding::Hash { hash_shard(*k, self.shards) } else { 0 }).collect::<Vec<_>>(),
            self.shards,
            self.per_shard_capacity
        )
    }
    fn init(&self, _scratch: &Path) -> Result<MapSt, Fail> {
        let rec = Recorder::default();
        let map = (self.make)(rec.clone()).map_err(|e| Fail::new("construct", e))?;
        let nshards = if self.sharding == Sharding::Hash { self.shards } else { 1 };
        let cap = if self.sharding == Sharding::NoEvictionPossible { usize::MAX } else { self.per_shard_capacity };
        Ok(MapSt {
            map,
            rec,
            model: RefLru { shards: vec![VecDeque::new(); nshards], per_shard_capacity: cap, sharding: self.sharding, evicted: Vec::new() },
        })
    }
    fn ops(&self, _st: &MapSt) -> Vec<MapOp> {
        let mut v = Vec::new();
        for &k in &self.keys {
            v.push(MapOp::Get(k));
        }
        for &k in &self.keys {
            for val in [0u64, 1] {
                v.push(MapOp::Put(k, val));
            }
        }
        if self.sharding == Sharding::NoEvictionPossible {
            // get/put only: nothing can be evicted or removed, so get must always return the last value put
            return v;
        }
        for &k in &self.keys {
            v.push(MapOp::Remove(k));
        }
        v.push(MapOp::Clear);
        v
    }
    fn apply(&self, st: &mut MapSt, op: &MapOp) -> Result<(), Fail> {
        match *op {
            MapOp::Get(k) => {
                let r = st.map.get(k);
                let m = st.model.get(k);
                judge_get(k, r, m, self.sharding)?;
            }
            MapOp::Put(k, v) => {
                let log_before = st.rec.log().len();
                match st.map.put(k, v) {
                    Ok(_old) => {
                        let victim = st.model.put(k, v);
                        let log = st.rec.log();
                        let new = &log[log_before.min(log.len())..];
                        match victim {
                            Some((vk, vv)) => {
                                if new.len() == 1 && new[0].0 != vk {
                                    return Err(failc(
                                        "victim",
                                        "not_lru",
                                        format!("put({k},{v}) evicted key {} (callback), the least recently accessed entry is ({vk},{vv})", new[0].0),
                                    ));
                                }
                                let n = new.iter().filter(|e| **e == (vk, vv)).count();
                                if n != 1 {
                                    return Err(failc(
                                        "callback",
                                        if n == 0 { "missing" } else { "repeated" },
                                        format!("put({k},{v}) evicts ({vk},{vv}) to make room: the callback was invoked {n} times with that entry (new invocations: {:?})", new),
                                    ));
                                }
                            }
                            None => {}
                        }
                        // never for an entry that is still retrievable
                        for e in new {
                            if Some(*e) != victim && st.model.peek(e.0) == Some(e.1) {
                                return Err(failc("callback", "for_retrievable", format!("put({k},{v}): callback invoked with {:?}, which is still retrievable", e)));
                            }
                        }
                    }
                    Err(e) => {
                        // refused: the model is unchanged; observers verify that nothing changed.  The statement does not
                        // say that put succeeds; ZV_C17_STRICT_PUT=1 additionally reports refusals below capacity.
                        if std::env::var_os("ZV_C17_STRICT_PUT").is_some() && st.model.peek(k).is_none() {
                            let s = st.model.shard_of(k);
                            if st.model.shards[s].len() < st.model.per_shard_capacity {
                                return Err(failc("put_refused_below_capacity", "err", format!("put({k},{v}) = Err({e}) while the shard holds {} of {} entries", st.model.shards[s].len(), st.model.per_shard_capacity)));
                            }
                        }
                    }
                }
            }
            MapOp::Remove(k) => {
                let _ = st.map.remove(k);
                st.model.remove(k);
            }
            MapOp::Clear => {
                if st.map.clear().is_ok() {
                    st.model.clear();
                }
            }
        }
        Ok(())
    }
    fn observe(&self, st: &mut MapSt, h: &mut DefaultHasher) -> Result<(), Fail> {
        for s in &st.model.shards {
            s.hash(h);
        }
        st.model.evicted.hash(h);
        let cap = st.map.capacity();
        let l = st.map.len();
        if l > cap {
            return Err(failc("capacity", "len_gt_capacity", format!("len() = {l} > capacity() = {cap}")));
        }
        if self.sharding != Sharding::NoEvictionPossible {
            let want = self.shards * self.per_shard_capacity;
            check!(cap == want, "capacity", "capacity() = {cap}, configured {} shard(s) x {}", self.shards, self.per_shard_capacity);
        }
        if let (Some(sizes), Sharding::Hash) = (st.map.shard_sizes(), self.sharding) {
            for (i, s) in sizes.iter().enumerate() {
                if *s > self.per_shard_capacity {
                    return Err(failc("capacity", "shard_gt_capacity", format!("shard {i} holds {s} entries, per-shard capacity {}", self.per_shard_capacity)));
                }
            }
            let want: Vec<usize> = st.model.shards.iter().map(|s| s.len()).collect();
            check!(sizes == want, "shard_function_check", "shard_sizes() = {:?}, model (shard function learned from a probe map) {:?}", sizes, want);
        }
        if self.sharding == Sharding::NoEvictionPossible {
            // weaker, shard-agnostic clauses only (capacity above, get in apply/finish): contains_key/len depend on the shard routing
            return Ok(());
        }
        let mut probes = self.keys.clone();
        probes.push(ABSENT_KEY);
        for &k in &probes {
            let c = st.map.contains(k);
            let m = st.model.peek(k).is_some();
            if c != m {
                return Err(failc(
                    "contains",
                    if c { "true_for_absent" } else { "false_for_present" },
                    format!("contains_key({k}) = {c}, reference LRU says {m} (recency order, most recent first: {:?})", st.model.shards),
                ));
            }
        }
        check!(l == st.model.len(), "len", "len() = {l}, reference LRU holds {} entries", st.model.len());
        let log = st.rec.log();
        if log != st.model.evicted {
            let class = if log.len() > st.model.evicted.len() { "extra" } else if log.len() < st.model.evicted.len() { "missing" } else { "wrong_entry" };
            return Err(failc("callback", class, format!("eviction callback log {:?}, entries evicted to make room {:?}", log, st.model.evicted)));
        }
        Ok(())
    }
    fn finish(&self, st: MapSt) -> Result<(), Fail> {
        // the object is discarded after this, so the recency order may be disturbed: read every key back
        for &k in &self.keys {
            let r = st.map.get(k);
            let m = st.model.peek(k);
            judge_get(k, r, m, self.sharding)?;
        }
        drop(st);
        Ok(())
    }
}

fn judge_get(k: u64, r: Option<u64>, m: Option<u64>, sharding: Sharding) -> Result<(), Fail> {
    if r == m {
        return Ok(());
    }
    if sharding == Sharding::NoEvictionPossible {
        // nothing can have been evicted or removed in these histories: one outcome class
        return Err(failc("get", "not_last_put", format!("get({k}) = {:?}, the most recent value put for that key is {:?} and nothing can have been evicted or removed", r, m)));
    }
    match (r, m) {
        (Some(x), Some(y)) => Err(failc("get", "stale", format!("get({k}) = Some({x}), the most recent value put for that key is {y}"))),
        (None, Some(y)) => Err(failc("get", "lost", format!("get({k}) = None, but ({k},{y}) was put and has been neither evicted nor removed"))),
        (Some(x), None) => Err(failc("get", "ghost", format!("get({k}) = Some({x}), but that key was evicted, removed or never put"))),
        _ => unreachable!(),
    }
}

fn lru_cfg(preset: &str, capacity: usize) -> LruMapConfig {
    let mut c = match preset {
        "performance_optimized" => LruMapConfig::performance_optimized(),
        "memory_optimized" => LruMapConfig::memory_optimized(),
        "security_optimized" => LruMapConfig::security_optimized(),
        _ => LruMapConfig::default(),
    };
    c.capacity = capacity;
    c
}

/// `n_same` keys of shard 0 followed by `n_other` keys of other shards, smallest keys first.
fn pick_keys(shards: usize, n_same: usize, n_other: usize) -> Vec<u64> {
    let mut same = Vec::new();
    let mut other = Vec::new();
    for k in 0u64..256 {
        if hash_shard(k, shards) == 0 {
            if same.len() < n_same {
                same.push(k);
            }
        } else if other.len() < n_other {
            other.push(k);
        }
    }
    same.extend(other);
    same
}

fn register_maps(reg: &mut zverif::Registry) {
    for cap in [1usize, 2, 3] {
        let (dq, dt) = (4, 5);
        reg.add(Seq(LruSpec {
            name: format!("LruMap[default,capacity={cap}]"),
            make: Box::new(move |rec| LruMap::with_eviction_callback(cap, rec).map(|m| Box::new(m) as Box<dyn MapLike>).map_err(|e| e.to_string())),
            shards: 1,
            per_shard_capacity: cap,
            sharding: Sharding::Hash,
            keys: vec![0, 1, 2, 3],
            depth_quick: dq,
            depth_thorough: dt,
        }));
    }
    // depth 6 over 3 keys (DESIGN §7 C17 B): capacity 2
    reg.add(Seq(LruSpec {
        name: "LruMap[default,capacity=2]/3keys".into(),
        make: Box::new(move |rec| LruMap::with_eviction_callback(2, rec).map(|m| Box::new(m) as Box<dyn MapLike>).map_err(|e| e.to_string())),
        shards: 1,
        per_shard_capacity: 2,
        sharding: Sharding::Hash,
        keys: vec![0, 1, 2],
        depth_quick: 4,
        depth_thorough: 6,
    }));
    for preset in ["performance_optimized", "memory_optimized", "security_optimized"] {
        reg.add(Seq(LruSpec {
            name: format!("LruMap[{preset},capacity=2]"),
            make: Box::new(move |rec| {
                LruMap::with_config_and_callback(lru_cfg(preset, 2), rec).map(|m| Box::new(m) as Box<dyn MapLike>).map_err(|e| e.to_string())
            }),
            shards: 1,
            per_shard_capacity: 2,
            sharding: Sharding::Hash,
            keys: vec![0, 1, 2],
            depth_quick: 4,
            depth_thorough: 5,
        }));
    }
    for (shards, per) in [(1usize, 2usize), (2, 1), (2, 2), (4, 1)] {
        // three keys collide in shard 0 (evictions inside a shard), one key lives in another shard
        let keys = if shards == 1 { vec![0, 1, 2, 3] } else { pick_keys(shards, 3, 1) };
        reg.add(Seq(LruSpec {
            name: format!("ConcurrentLruMap[Hash,shards={shards},per_shard={per}]"),
            make: Box::new(move |rec| {
                ConcurrentLruMap::with_eviction_callback(shards * per, shards, rec).map(|m| Box::new(m) as Box<dyn MapLike>).map_err(|e| e.to_string())
            }),
            shards,
            per_shard_capacity: per,
            sharding: Sharding::Hash,
            keys,
            depth_quick: 4,
            depth_thorough: 5,
        }));
    }
    reg.add(Seq(LruSpec {
        name: "ConcurrentLruMap[ThreadAffinity,shards=2,per_shard=2]".into(),
        make: Box::new(move |rec| {
            let cfg = ConcurrentLruMapConfig { base_config: lru_cfg("default", 2), shard_count: 2, load_balancing: LoadBalancingStrategy::ThreadAffinity };
            ConcurrentLruMap::with_config_and_callback(cfg, rec).map(|m| Box::new(m) as Box<dyn MapLike>).map_err(|e| e.to_string())
        }),
        shards: 2,
        per_shard_capacity: 2,
        sharding: Sharding::OneShard,
        keys: vec![0, 1, 2],
        depth_quick: 4,
        depth_thorough: 5,
    }));
    reg.add(Seq(LruSpec {
        name: "ConcurrentLruMap[RoundRobin,shards=2,per_shard=4]".into(),
        make: Box::new(move |rec| {
            let cfg = ConcurrentLruMapConfig { base_config: lru_cfg("default", 4), shard_count: 2, load_balancing: LoadBalancingStrategy::RoundRobin };
            ConcurrentLruMap::with_config_and_callback(cfg, rec).map(|m| Box::new(m) as Box<dyn MapLike>).map_err(|e| e.to_string())
        }),
        shards: 2,
        per_shard_capacity: 4,
        sharding: Sharding::NoEvictionPossible,
        keys: vec![0, 1, 2],
        depth_quick: 4,
        depth_thorough: 5,
    }));
}

// =============================================================================================
// page caches

pub trait PageCacheLike {
    fn open(&self, p: &Path) -> Result<u32, String>;
    fn read(&self, f: u32, off: u64, len: usize) -> Result<Vec<u8>, String>;
    /// None = not offered
    fn read_batch(&self, reqs: Vec<(u32, u64, usize)>) -> Option<Result<Vec<Vec<u8>>, String>>;
    fn prefetch(&self, f: u32, off: u64, len: usize) -> Result<(), String>;
    fn invalidate_page(&self, f: u32, page: u32) -> Result<(), String>;
    fn invalidate_range(&self, f: u32, off: u64, len: usize) -> Result<(), String>;
}

impl PageCacheLike for LruPageCache {
    fn open(&self, p: &Path) -> Result<u32, String> {
        self.open_file(p).map_err(|e| e.to_string())
    }
    fn read(&self, f: u32, off: u64, len: usize) -> Result<Vec<u8>, String> {
        LruPageCache::read(self, f, off, len).map(|b| b.data().to_vec()).map_err(|e| e.to_string())
    }
    fn read_batch(&self, reqs: Vec<(u32, u64, usize)>) -> Option<Result<Vec<Vec<u8>>, String>> {
        Some(LruPageCache::read_batch(self, reqs).map(|v| v.iter().map(|b| b.data().to_vec()).collect()).map_err(|e| e.to_string()))
    }
    fn prefetch(&self, f: u32, off: u64, len: usize) -> Result<(), String> {
        LruPageCache::prefetch(self, f, off, len).map_err(|e| e.to_string())
    }
    fn invalidate_page(&self, f: u32, page: u32) -> Result<(), String> {
        LruPageCache::invalidate_page(self, f, page).map_err(|e| e.to_string())
    }
    fn invalidate_range(&self, f: u32, off: u64, len: usize) -> Result<(), String> {
        LruPageCache::invalidate_range(self, f, off, len).map_err(|e| e.to_string())
    }
}

/// `SingleLruPageCache`; `into_buffer` selects `read(.., &mut CacheBuffer)` instead of `read_new`.
pub struct SingleAdapter {
    cache: SingleLruPageCache,
    into_buffer: bool,
    /// Some: every `read` goes into this one caller-owned buffer, never cleared by the caller (the documented way to
    /// avoid an allocation per read); None: a fresh buffer per read
    reused: Option<std::sync::Mutex<CacheBuffer>>,
}
impl PageCacheLike for SingleAdapter {
    fn open(&self, p: &Path) -> Result<u32, String> {
        self.cache.open_file(p).map_err(|e| e.to_string())
    }
    fn read(&self, f: u32, off: u64, len: usize) -> Result<Vec<u8>, String> {
        if let Some(shared) = &self.reused {
            let mut b = shared.lock().unwrap();
            self.cache.read(f, off, len, &mut b).map_err(|e| e.to_string())?;
            Ok(b.data().to_vec())
        } else if self.into_buffer {
            let mut b = CacheBuffer::new();
            self.cache.read(f, off, len, &mut b).map_err(|e| e.to_string())?;
            Ok(b.data().to_vec())
        } else {
            self.cache.read_new(f, off, len).map(|b| b.data().to_vec()).map_err(|e| e.to_string())
        }
    }
    fn read_batch(&self, _reqs: Vec<(u32, u64, usize)>) -> Option<Result<Vec<Vec<u8>>, String>> {
        None
    }
    fn prefetch(&self, f: u32, off: u64, len: usize) -> Result<(), String> {
        self.cache.prefetch(f, off, len).map_err(|e| e.to_string())
    }
    fn invalidate_page(&self, f: u32, page: u32) -> Result<(), String> {
        self.cache.invalidate_page(f, page).map_err(|e| e.to_string())
    }
    fn invalidate_range(&self, f: u32, off: u64, len: usize) -> Result<(), String> {
        self.cache.invalidate_range(f, off, len).map_err(|e| e.to_string())
    }
}

const F0_SIZE: usize = 2 * PAGE_SIZE + PAGE_SIZE / 2; // 2.5 pages
const EOF0: u64 = F0_SIZE as u64;

fn file_byte(generation: u32, i: usize) -> u8 {
    ((i * 31 + (i / PAGE_SIZE) * 7 + generation as usize * 101) % 251) as u8
}

#[derive(Clone, PartialEq, Eq)]
pub enum PcOp {
    Read(u8, u64, usize),
    ReadBatch,
    Prefetch(u8, u64, usize),
    InvalidatePage(u8, u32),
    InvalidateRange(u8, u64, usize),
    /// rewrite the whole of file 0 with new contents of the same length from outside, then invalidate_range(0, size)
    OverwriteAllThenInvalidate,
    /// rewrite page 1 of file 0 from outside, then invalidate_page(1)
    OverwritePage1ThenInvalidate,
    /// rewrite bytes [off, off+len) of file 0 from outside, then invalidate_range(off, len) with exactly that
    /// (unaligned, page-straddling) range
    OverwriteRangeThenInvalidate(u64, usize),
}

impl fmt::Debug for PcOp {
    fn fmt(&self, f: &mut fmt::Formatter<'_>) -> fmt::Result {
        match self {
            PcOp::Read(x, o, l) => write!(f, "Read(f{x},{o},{l})"),
            PcOp::ReadBatch => write!(f, "ReadBatch"),
            PcOp::Prefetch(x, o, l) => write!(f, "Prefetch(f{x},{o},{l})"),
            PcOp::InvalidatePage(x, p) => write!(f, "InvalidatePage(f{x},{p})"),
            PcOp::InvalidateRange(x, o, l) => write!(f, "InvalidateRange(f{x},{o},{l})"),
            PcOp::OverwriteAllThenInvalidate => write!(f, "OverwriteAllThenInvalidate"),
            PcOp::OverwritePage1ThenInvalidate => write!(f, "OverwritePage1ThenInvalidate"),
            PcOp::OverwriteRangeThenInvalidate(o, l) => write!(f, "OverwriteRangeThenInvalidate({o},{l})"),
        }
    }
}

pub struct PcSt {
    cache: Box<dyn PageCacheLike>,
    fids: [u32; 2],
    files: [Vec<u8>; 2],
    paths: [PathBuf; 2],
    generation: u32,
    dir: PathBuf,
}

pub struct PcSpec {
    pub name: String,
    pub make: Box<dyn Fn() -> Result<Box<dyn PageCacheLike>, String>>,
    /// include ranges that start inside the file and end beyond EOF in the final sweep
    pub straddle_eof: bool,
    pub depth_quick: usize,
    pub depth_thorough: usize,
}

/// the bytes of the file at [off, off+len)
fn file_range(file: &[u8], off: u64, len: usize) -> &[u8] {
    let s = (off as usize).min(file.len());
    let e = (off as usize).saturating_add(len).min(file.len());
    &file[s..e]
}

fn judge_read(what: &str, file: &[u8], off: u64, len: usize, got: Result<Vec<u8>, String>) -> Result<(), Fail> {
    let want = file_range(file, off, len);
    let end = off as usize + len;
    let region = if off as usize >= file.len() && len > 0 {
        "beyond_eof"
    } else if end > file.len() {
        "straddles_eof"
    } else {
        "inside"
    };
    match got {
        Ok(g) => {
            if g != want {
                let kind = if g.len() < want.len() { "short" } else if g.len() > want.len() { "long" } else { "wrong_bytes" };
                return Err(failc(
                    "read_bytes",
                    &format!("{kind}/{region}"),
                    format!("{what}(off={off}, len={len}) returned {} but the file (size {}) holds {} there", brief(&g), file.len(), brief(want)),
                ));
            }
            Ok(())
        }
        Err(e) => Err(failc("read_bytes", &format!("err/{region}"), format!("{what}(off={off}, len={len}) = Err({e}), the file (size {}) holds {}", file.len(), brief(want)))),
    }
}

impl PcSpec {
    fn offsets(f: usize) -> Vec<u64> {
        if f == 0 {
            vec![0, 1, 4095, 4096, 4097, EOF0 - 1, EOF0, EOF0 + 1]
        } else {
            vec![0, 1]
        }
    }
    fn lengths(f: usize) -> Vec<usize> {
        if f == 0 {
            vec![0, 1, 4096, 4097]
        } else {
            vec![0, 1, 4096]
        }
    }
}

impl SeqSpec for PcSpec {
    type Op = PcOp;
    type St = PcSt;

    fn name(&self) -> String {
        self.name.clone()
    }
    fn depth(&self, tier: Tier) -> usize {
        tier.pick(self.depth_quick, self.depth_thorough)
    }
    fn bound(&self, tier: Tier) -> String {
        format!(
            "all histories of <= {} operations from {{8 reads of file 0 (2.5 pages) at page-boundary offsets, 1 read of file 1 (empty), read_batch, 2 prefetches, invalidate_page(0..=2), invalidate_range, external overwrite of the whole file / of page 1 / of two unaligned page-straddling ranges followed by invalidation of exactly that range}}; every read is compared with the file; at the end of every history the grid offsets {:?} x lengths {:?} (file 0) and {:?} x {:?} (file 1) is read{}",
            self.depth(tier),
            Self::offsets(0),
            Self::lengths(0),
            Self::offsets(1),
            Self::lengths(1),
            if self.straddle_eof { " including ranges that straddle EOF" } else { " except ranges that start inside the file and end beyond EOF (see the /straddle_eof subject)" }
        )
    }
    fn init(&self, scratch: &Path) -> Result<PcSt, Fail> {
        let dir = scratch.join(format!("c17-{:016x}", h64(&self.name)));
        let _ = std::fs::remove_dir_all(&dir);
        std::fs::create_dir_all(&dir).map_err(|e| Fail::new("harness", e.to_string()))?;
        let f0: Vec<u8> = (0..F0_SIZE).map(|i| file_byte(0, i)).collect();
        let f1: Vec<u8> = Vec::new();
        let paths = [dir.join("f0"), dir.join("f1")];
        std::fs::write(&paths[0], &f0).map_err(|e| Fail::new("harness", e.to_string()))?;
        std::fs::write(&paths[1], &f1).map_err(|e| Fail::new("harness", e.to_string()))?;
        let cache = (self.make)().map_err(|e| Fail::new("construct", e))?;
        let a = cache.open(&paths[0]).map_err(|e| Fail::new("construct", e))?;
        let b = cache.open(&paths[1]).map_err(|e| Fail::new("construct", e))?;
        Ok(PcSt { cache, fids: [a, b], files: [f0, f1], paths, generation: 0, dir })
    }
    fn ops(&self, _st: &PcSt) -> Vec<PcOp> {
        let p = PAGE_SIZE;
        vec![
            PcOp::Read(0, 0, 1),
            PcOp::Read(0, 4095, 2),
            PcOp::Read(0, 4096, p),
            PcOp::Read(0, 4097, p + 1),
            PcOp::Read(0, 2 * p as u64, p / 2),
            PcOp::Read(0, EOF0 - 1, 1),
            PcOp::Read(0, EOF0, 1),
            PcOp::Read(0, 0, F0_SIZE),
            PcOp::Read(1, 0, 1),
            PcOp::ReadBatch,
            PcOp::Prefetch(0, 0, 1),
            PcOp::Prefetch(0, 4000, 5000),
            PcOp::InvalidatePage(0, 0),
            PcOp::InvalidatePage(0, 1),
            PcOp::InvalidatePage(0, 2),
            PcOp::InvalidateRange(0, 4095, 2),
            PcOp::OverwriteAllThenInvalidate,
            PcOp::OverwritePage1ThenInvalidate,
            // unaligned ranges whose tail crosses one more page boundary than their length suggests
            PcOp::OverwriteRangeThenInvalidate(4000, 200),
            PcOp::OverwriteRangeThenInvalidate(4095, 4098),
        ]
    }
    fn apply(&self, st: &mut PcSt, op: &PcOp) -> Result<(), Fail> {
        match op {
            PcOp::Read(f, off, len) => {
                let got = st.cache.read(st.fids[*f as usize], *off, *len);
                judge_read("read", &st.files[*f as usize], *off, *len, got)?;
            }
            PcOp::ReadBatch => {
                let reqs = [(0usize, 4090u64, 10usize), (1, 0, 4), (0, 0, 4096), (0, 8192, 2048)];
                let r = st.cache.read_batch(reqs.iter().map(|(f, o, l)| (st.fids[*f], *o, *l)).collect());
                match r {
                    None => {}
                    Some(Err(e)) => return Err(failc("read_bytes", "err/batch", format!("read_batch = Err({e})"))),
                    Some(Ok(v)) => {
                        check!(v.len() == reqs.len(), "read_bytes", "read_batch of {} requests returned {} buffers", reqs.len(), v.len());
                        for ((f, o, l), g) in reqs.iter().zip(v) {
                            judge_read("read_batch", &st.files[*f], *o, *l, Ok(g))?;
                        }
                    }
                }
            }
            PcOp::Prefetch(f, off, len) => {
                // a refused prefetch changes nothing
                let _ = st.cache.prefetch(st.fids[*f as usize], *off, *len);
            }
            PcOp::InvalidatePage(f, p) => {
                st.cache.invalidate_page(st.fids[*f as usize], *p).map_err(|e| failc("invalidate", "err", format!("invalidate_page({p}) = Err({e})")))?;
            }
            PcOp::InvalidateRange(f, off, len) => {
                st.cache
                    .invalidate_range(st.fids[*f as usize], *off, *len)
                    .map_err(|e| failc("invalidate", "err", format!("invalidate_range({off},{len}) = Err({e})")))?;
            }
            PcOp::OverwriteAllThenInvalidate | PcOp::OverwritePage1ThenInvalidate | PcOp::OverwriteRangeThenInvalidate(..) => {
                st.generation += 1;
                let (from, to) = match op {
                    PcOp::OverwriteAllThenInvalidate => (0, F0_SIZE),
                    PcOp::OverwriteRangeThenInvalidate(o, l) => (*o as usize, (*o as usize + *l).min(F0_SIZE)),
                    _ => (PAGE_SIZE, 2 * PAGE_SIZE),
                };
                for i in from..to {
                    st.files[0][i] = file_byte(st.generation, i);
                }
                let io = |e: std::io::Error| Fail::new("harness", e.to_string());
                let mut fh = std::fs::OpenOptions::new().write(true).open(&st.paths[0]).map_err(io)?;
                fh.seek(SeekFrom::Start(from as u64)).map_err(io)?;
                fh.write_all(&st.files[0][from..to]).map_err(io)?;
                fh.sync_all().map_err(io)?;
                drop(fh);
                if *op == PcOp::OverwriteAllThenInvalidate {
                    st.cache.invalidate_range(st.fids[0], 0, F0_SIZE).map_err(|e| failc("invalidate", "err", format!("invalidate_range(0,{F0_SIZE}) = Err({e})")))?;
                } else if let PcOp::OverwriteRangeThenInvalidate(o, l) = op {
                    st.cache.invalidate_range(st.fids[0], *o, *l).map_err(|e| failc("invalidate", "err", format!("invalidate_range({o},{l}) = Err({e})")))?;
                } else {
                    st.cache.invalidate_page(st.fids[0], 1).map_err(|e| failc("invalidate", "err", format!("invalidate_page(1) = Err({e})")))?;
                }
            }
        }
        Ok(())
    }
    fn observe(&self, st: &mut PcSt, h: &mut DefaultHasher) -> Result<(), Fail> {
        // there is no read-only query on a page cache (every read moves pages); the history itself is the state
        st.generation.hash(h);
        Ok(())
    }
    fn finish(&self, st: PcSt) -> Result<(), Fail> {
        let mut r = Ok(());
        'outer: for f in 0..2usize {
            for off in Self::offsets(f) {
                for len in Self::lengths(f) {
                    let size = st.files[f].len();
                    let straddles = (off as usize) < size && off as usize + len > size;
                    if straddles != self.straddle_eof && (straddles || self.straddle_eof) {
                        // main subject: skip straddling ranges; /straddle_eof subject: only straddling ranges
                        continue;
                    }
                    let got = st.cache.read(st.fids[f], off, len);
                    if let Err(e) = judge_read("read", &st.files[f], off, len, got) {
                        r = Err(e);
                        break 'outer;
                    }
                }
            }
        }
        let dir = st.dir.clone();
        drop(st);
        let _ = std::fs::remove_dir_all(dir);
        r
    }
}

fn page_cfg(pages: usize) -> PageCacheConfig {
    PageCacheConfig::balanced().with_capacity(pages * PAGE_SIZE)
}

fn register_page_caches(reg: &mut zverif::Registry) {
    for pages in [1usize, 2, 3] {
        reg.add(Seq(PcSpec {
            name: format!("LruPageCache[pages={pages}]"),
            make: Box::new(move || LruPageCache::new(page_cfg(pages)).map(|c| Box::new(c) as Box<dyn PageCacheLike>).map_err(|e| e.to_string())),
            straddle_eof: false,
            depth_quick: 3,
            depth_thorough: 4,
        }));
    }
    reg.add(Seq(PcSpec {
        name: "LruPageCache[pages=2]/straddle_eof".into(),
        make: Box::new(move || LruPageCache::new(page_cfg(2)).map(|c| Box::new(c) as Box<dyn PageCacheLike>).map_err(|e| e.to_string())),
        straddle_eof: true,
        depth_quick: 1,
        depth_thorough: 2,
    }));
    for (pages, into_buffer, reuse) in [(1usize, false, false), (2, true, false), (2, true, true)] {
        reg.add(Seq(PcSpec {
            name: format!("SingleLruPageCache[pages={pages},{}]", if reuse { "read into one reused buffer" } else if into_buffer { "read" } else { "read_new" }),
            make: Box::new(move || {
                SingleLruPageCache::new(page_cfg(pages))
                    .map(|c| Box::new(SingleAdapter { cache: c, into_buffer, reused: if reuse { Some(std::sync::Mutex::new(CacheBuffer::new())) } else { None } }) as Box<dyn PageCacheLike>)
                    .map_err(|e| e.to_string())
            }),
            straddle_eof: false,
            depth_quick: 3,
            depth_thorough: 4,
        }));
    }
    for preset in ["memory_optimized", "security_optimized"] {
        reg.add(Seq(PcSpec {
            name: format!("LruPageCache[{preset},pages=2]"),
            make: Box::new(move || {
                let cfg = if preset == "memory_optimized" { PageCacheConfig::memory_optimized() } else { PageCacheConfig::security_optimized() };
                LruPageCache::new(cfg.with_capacity(2 * PAGE_SIZE)).map(|c| Box::new(c) as Box<dyn PageCacheLike>).map_err(|e| e.to_string())
            }),
            straddle_eof: false,
            depth_quick: 2,
            depth_thorough: 3,
        }));
    }
}

// =============================================================================================
// cached blob store == the store it wraps

#[derive(Clone, Debug)]
pub enum CbOp {
    Put(&'static str),
    Remove(usize),
    DisableCache,
    EnableCache,
}

fn cb_record(name: &str) -> Vec<u8> {
    match name {
        "e" => Vec::new(),
        "zz" => b"zz".to_vec(),
        "c300" => (0..300u32).map(|i| (i % 256) as u8).collect(),
        _ => (0..4000u32).map(|i| (i % 251) as u8).collect(), // p4000: two of them straddle a cache page
    }
}

pub struct CbSt {
    store: CachedBlobStore<MemoryBlobStore>,
    issued: Vec<u32>,
}

pub struct CbSpec {
    pub name: String,
    pub strategy: CacheWriteStrategy,
    pub pages: usize,
    pub depth_quick: usize,
    pub depth_thorough: usize,
}

impl SeqSpec for CbSpec {
    type Op = CbOp;
    type St = CbSt;
    fn name(&self) -> String {
        self.name.clone()
    }
    fn depth(&self, tier: Tier) -> usize {
        tier.pick(self.depth_quick, self.depth_thorough)
    }
    fn bound(&self, tier: Tier) -> String {
        format!(
            "all histories of <= {} operations from {{put(r) r in [e, zz, c300, p4000], remove(j-th most recent id) j<2, disable_cache, enable_cache}}; after every step get/contains/size/len of the cached store are compared with the wrapped store (inner()) on ids 0..=max+1",
            self.depth(tier)
        )
    }
    fn init(&self, _scratch: &Path) -> Result<CbSt, Fail> {
        let store = CachedBlobStore::with_write_strategy(MemoryBlobStore::new(), page_cfg(self.pages), self.strategy).map_err(|e| Fail::new("construct", e.to_string()))?;
        Ok(CbSt { store, issued: Vec::new() })
    }
    fn ops(&self, st: &CbSt) -> Vec<CbOp> {
        let mut v: Vec<CbOp> = ["e", "zz", "c300", "p4000"].into_iter().map(CbOp::Put).collect();
        for j in 0..st.issued.len().min(2) {
            v.push(CbOp::Remove(j));
        }
        v.push(CbOp::DisableCache);
        v.push(CbOp::EnableCache);
        v
    }
    fn apply(&self, st: &mut CbSt, op: &CbOp) -> Result<(), Fail> {
        match op {
            CbOp::Put(r) => {
                if let Ok(id) = st.store.put(&cb_record(r)) {
                    st.issued.retain(|x| *x != id);
                    st.issued.push(id);
                }
            }
            CbOp::Remove(j) => {
                let id = st.issued[st.issued.len() - 1 - j];
                let _ = st.store.remove(id);
            }
            CbOp::DisableCache => st.store.disable_cache(),
            CbOp::EnableCache => st.store.enable_cache(),
        }
        Ok(())
    }
    fn observe(&self, st: &mut CbSt, h: &mut DefaultHasher) -> Result<(), Fail> {
        st.issued.hash(h);
        let max = st.issued.iter().copied().max().unwrap_or(0);
        for id in (0..=max + 1).chain([u32::MAX]) {
            let outer = st.store.get(id);
            let inner = st.store.inner().get(id);
            inner.is_ok().hash(h);
            match (&outer, &inner) {
                (Ok(a), Ok(b)) => {
                    if a != b {
                        return Err(failc("cached_eq_inner", "wrong_bytes", format!("get({id}) = {} through the cache, the wrapped store holds {}", brief(a), brief(b))));
                    }
                }
                (Err(_), Err(_)) => {}
                (Ok(a), Err(_)) => return Err(failc("cached_eq_inner", "served_absent", format!("get({id}) = Ok({}) through the cache, the wrapped store reports the id absent", brief(a)))),
                (Err(e), Ok(b)) => return Err(failc("cached_eq_inner", "err", format!("get({id}) = Err({e}) through the cache, the wrapped store holds {}", brief(b)))),
            }
            let (c1, c2) = (st.store.contains(id), st.store.inner().contains(id));
            check!(c1 == c2, "cached_eq_inner", "contains({id}) = {c1} through the cache, {c2} in the wrapped store");
            let (s1, s2) = (st.store.size(id).ok().flatten(), st.store.inner().size(id).ok().flatten());
            check!(s1 == s2, "cached_eq_inner", "size({id}) = {:?} through the cache, {:?} in the wrapped store", s1, s2);
        }
        let (l1, l2) = (st.store.len(), st.store.inner().len());
        check!(l1 == l2, "cached_eq_inner", "len() = {l1} through the cache, {l2} in the wrapped store");
        Ok(())
    }
}

fn register_cached_store(reg: &mut zverif::Registry) {
    for (sname, strategy) in
        [("WriteThrough", CacheWriteStrategy::WriteThrough), ("WriteBack", CacheWriteStrategy::WriteBack), ("WriteAround", CacheWriteStrategy::WriteAround)]
    {
        reg.add(Seq(CbSpec { name: format!("CachedBlobStore<Memory>[{sname},pages=1]/vs_inner"), strategy, pages: 1, depth_quick: 4, depth_thorough: 6 }));
    }
}

// =============================================================================================
// fsa::cache — capacity and staleness only (its eviction order is by state id, by design not LRU)

#[derive(Clone, Debug)]
pub enum FsaOp {
    /// cache_state(parent, child_base, is_terminal)
    Cache(u32, u32, bool),
    Remove(usize),
    Clear,
}

pub struct FsaSt {
    cache: FsaCache,
    /// id -> last state cached under that id (None = removed by the caller)
    last: BTreeMap<u32, Option<(u32, u32, bool)>>,
    issued: Vec<u32>,
}

pub struct FsaSpec {
    pub name: String,
    pub strategy: CacheStrategy,
    pub max_states: usize,
    pub depth_quick: usize,
    pub depth_thorough: usize,
}

impl SeqSpec for FsaSpec {
    type Op = FsaOp;
    type St = FsaSt;
    fn name(&self) -> String {
        self.name.clone()
    }
    fn depth(&self, tier: Tier) -> usize {
        tier.pick(self.depth_quick, self.depth_thorough)
    }
    fn bound(&self, tier: Tier) -> String {
        format!(
            "all histories of <= {} operations from {{cache_state(parent,base,terminal) for 3 states, remove_state(j-th most recent id) j<2, clear}}; max_states = {}; after every step: at most max_states ids answer get_state, stats().cached_states <= max_states, get_state(id) is None or the last state cached under that id, removed ids answer None",
            self.depth(tier),
            self.max_states
        )
    }
    fn init(&self, _scratch: &Path) -> Result<FsaSt, Fail> {
        let cfg = FsaCacheConfig { max_states: self.max_states, strategy: self.strategy, ..FsaCacheConfig::small() };
        let cache = FsaCache::with_config(cfg).map_err(|e| Fail::new("construct", e.to_string()))?;
        Ok(FsaSt { cache, last: BTreeMap::new(), issued: Vec::new() })
    }
    fn ops(&self, st: &FsaSt) -> Vec<FsaOp> {
        let mut v = vec![FsaOp::Cache(0, 10, false), FsaOp::Cache(1, 20, true), FsaOp::Cache(2, 30, false)];
        for j in 0..st.issued.len().min(2) {
            v.push(FsaOp::Remove(j));
        }
        v.push(FsaOp::Clear);
        v
    }
    fn apply(&self, st: &mut FsaSt, op: &FsaOp) -> Result<(), Fail> {
        match *op {
            FsaOp::Cache(p, b, t) => {
                if let Ok(id) = st.cache.cache_state(p, b, t) {
                    st.last.insert(id, Some((p, b, t)));
                    st.issued.retain(|x| *x != id);
                    st.issued.push(id);
                }
            }
            FsaOp::Remove(j) => {
                let id = st.issued[st.issued.len() - 1 - j];
                let _ = st.cache.remove_state(id);
                st.last.insert(id, None);
            }
            FsaOp::Clear => {
                st.cache.clear();
                for v in st.last.values_mut() {
                    *v = None;
                }
            }
        }
        Ok(())
    }
    fn observe(&self, st: &mut FsaSt, h: &mut DefaultHasher) -> Result<(), Fail> {
        st.last.hash(h);
        let max = st.issued.iter().copied().max().unwrap_or(0);
        let mut present = 0usize;
        for id in 0..=max + 1 {
            let got = st.cache.get_state(id).map(|s| (s.parent(), s.child_base, s.is_terminal()));
            if got.is_some() {
                present += 1;
            }
            match (got, st.last.get(&id).copied().flatten()) {
                (None, _) => {}
                (Some(g), Some(w)) => {
                    if g != w {
                        return Err(failc("get", "stale", format!("get_state({id}) = {:?}, the last state cached under that id is {:?}", g, w)));
                    }
                }
                (Some(g), None) => return Err(failc("get", "ghost", format!("get_state({id}) = {:?}, but that id was removed, cleared or never issued", g))),
            }
        }
        if present > self.max_states {
            return Err(failc("capacity", "len_gt_capacity", format!("{present} states are retrievable, max_states = {}", self.max_states)));
        }
        let cs = st.cache.stats().cached_states;
        check!(cs <= self.max_states, "capacity", "stats().cached_states = {cs} > max_states = {}", self.max_states);
        Ok(())
    }
}

fn register_fsa(reg: &mut zverif::Registry) {
    for (sname, strategy) in [("BreadthFirst", CacheStrategy::BreadthFirst), ("DepthFirst", CacheStrategy::DepthFirst), ("CacheFriendly", CacheStrategy::CacheFriendly)] {
        for max_states in [1usize, 2] {
            reg.add(Seq(FsaSpec { name: format!("FsaCache[{sname},max_states={max_states}]"), strategy, max_states, depth_quick: 5, depth_thorough: 7 }));
        }
    }
}

fn main() {
    zverif::main_with("C17", |reg, _tier| {
        register_maps(reg);
        register_page_caches(reg);
        register_cached_store(reg);
        register_fsa(reg);
    });
}
