//! C19 — file-backed structures reopen as written; damaged files are refused (engine E4).
//!
//! Histories run on the real write paths with the interposed libc entry points recording every
//! create/truncate/write/fsync/unlink/rename; every crash image (log prefix x dropped unsynced sectors,
//! every truncation of the final files) is reopened in a forked child.

use std::path::Path;
use zverif::crash::{Crash, CrashFamily, CrashSpec, LogOp, Recorder, ShimApi};

#[path = "../../wlog_shim.rs"]
mod wlog_shim;

use zipora::blob_store::{BlobStore, PlainBlobStore, ZipOffsetBlobStore, ZipOffsetBlobStoreBuilder, ZipOffsetBlobStoreConfig};
use zipora::memory::mmap_vec::{MmapVec, MmapVecConfig};

fn shim_start(prefix: &str) {
    wlog_shim::start(prefix)
}
fn shim_stop() -> (Vec<LogOp>, Vec<String>) {
    match wlog_shim::stop() {
        None => (vec![], vec!["recorder was not running".into()]),
        Some(r) => {
            let ops = r
                .ops
                .into_iter()
                .map(|o| match o {
                    wlog_shim::Op::Create { path, trunc } => LogOp::Create { path, trunc },
                    wlog_shim::Op::Write { path, offset, data } => LogOp::Write { path, offset, data },
                    wlog_shim::Op::Truncate { path, len } => LogOp::Truncate { path, len },
                    wlog_shim::Op::Sync { path } => LogOp::Sync { path },
                    wlog_shim::Op::Unlink { path } => LogOp::Unlink { path },
                    wlog_shim::Op::Rename { from, to } => LogOp::Rename { from, to },
                    wlog_shim::Op::Mkdir { path } => LogOp::Mkdir { path },
                })
                .collect();
            (ops, r.unsupported)
        }
    }
}
fn shim_pos() -> usize {
    wlog_shim::position()
}
static SHIM: ShimApi = ShimApi { start: shim_start, stop: shim_stop, position: shim_pos };

fn es<E: std::fmt::Display>(e: E) -> String {
    e.to_string()
}

// ---- MmapVec<u64> -------------------------------------------------------------------------------

struct MmapVecHist;
fn mv_state(v: &MmapVec<u64>) -> Vec<u8> {
    let mut s = (v.len() as u64).to_le_bytes().to_vec();
    for x in v.as_slice() {
        s.extend_from_slice(&x.to_le_bytes());
    }
    s
}
impl CrashSpec for MmapVecHist {
    fn name(&self) -> String {
        "MmapVec<u64>: create(cap 2), push x3 (grow), sync, push, sync, truncate(1), sync".into()
    }
    fn describe(&self) -> String {
        "history on the real MmapVec write path (create, push, grow via resize_to_capacity, sync = whole-file rewrite, truncate)".into()
    }
    fn run_history(&self, dir: &Path, rec: &mut Recorder) -> Result<(), String> {
        let p = dir.join("v.mmapvec");
        let cfg = MmapVecConfig::builder().with_initial_capacity(2).build();
        let mut v: MmapVec<u64> = MmapVec::create(&p, cfg).map_err(es)?;
        v.sync().map_err(es)?;
        rec.sync_point(mv_state(&v));
        for x in [0x1111_1111_1111_1111u64, 0x2222_2222_2222_2222, 0x3333_3333_3333_3333] {
            // the state before the push is what an internal sync during grow() persists
            v.push(x).map_err(es)?;
            rec.op_boundary(mv_state(&v));
        }
        v.sync().map_err(es)?;
        rec.sync_point(mv_state(&v));
        v.push(0x4444_4444_4444_4444).map_err(es)?;
        rec.op_boundary(mv_state(&v));
        v.sync().map_err(es)?;
        rec.sync_point(mv_state(&v));
        v.truncate(1).map_err(es)?;
        rec.op_boundary(mv_state(&v));
        v.sync().map_err(es)?;
        rec.sync_point(mv_state(&v));
        Ok(())
    }
    fn sector_sizes(&self, _tier: zverif::Tier) -> Vec<usize> {
        vec![512, 64] // the file is ~100 bytes: 64-byte sectors make header and data tear apart
    }
    fn reopen(&self, dir: &Path) -> Result<Vec<u8>, String> {
        let p = dir.join("v.mmapvec");
        let v: MmapVec<u64> = MmapVec::open(&p, MmapVecConfig::default()).map_err(es)?;
        // read everything the API exposes
        let mut s = mv_state(&v);
        for i in 0..v.len() {
            if v.get(i).is_none() {
                s.push(0xEE);
            }
        }
        Ok(s)
    }
    fn after_reopen(&self, dir: &Path) -> Result<(), String> {
        // keep using the recovered vector: push across a growth step, sync, reopen
        let p = dir.join("v.mmapvec");
        let mut v: MmapVec<u64> = MmapVec::open(&p, MmapVecConfig::default()).map_err(es)?;
        let mut want: Vec<u64> = v.as_slice().to_vec();
        for i in 0..6u64 {
            let x = 0x7700_0000_0000_0000 + i;
            v.push(x).map_err(es)?;
            want.push(x);
        }
        v.sync().map_err(es)?;
        drop(v);
        let v: MmapVec<u64> = MmapVec::open(&p, MmapVecConfig::default()).map_err(es)?;
        if v.as_slice() != &want[..] {
            return Err(format!("after recovery + 6 pushes + sync + reopen the vector holds {} elements, expected {}", v.len(), want.len()));
        }
        Ok(())
    }
}

// ---- PlainBlobStore -----------------------------------------------------------------------------

struct PlainHist;
fn plain_state(s: &PlainBlobStore, max_id: u32) -> Vec<u8> {
    let mut out = (s.len() as u64).to_le_bytes().to_vec();
    for id in 0..=max_id {
        match s.get(id) {
            Ok(d) => {
                out.push(1);
                out.extend_from_slice(&(d.len() as u32).to_le_bytes());
                out.extend_from_slice(&d);
            }
            Err(_) => out.push(0),
        }
    }
    out
}
const REC_A: &[u8] = b"alpha-record-0123456789";
const REC_B: &[u8] = &[0xB5; 700];
const REC_C: &[u8] = b"c";
impl CrashSpec for PlainHist {
    fn name(&self) -> String {
        "PlainBlobStore: create, put A, put B(700 bytes), remove(A), put C; reopen".into()
    }
    fn describe(&self) -> String {
        "history on the real directory-backed store (one file per record, written then fsynced)".into()
    }
    fn run_history(&self, dir: &Path, rec: &mut Recorder) -> Result<(), String> {
        let d = dir.join("store");
        let mut s = PlainBlobStore::create_new(&d).map_err(es)?;
        rec.sync_point(plain_state(&s, 6));
        let a = s.put(REC_A).map_err(es)?;
        rec.sync_point(plain_state(&s, 6));
        let _b = s.put(REC_B).map_err(es)?;
        rec.sync_point(plain_state(&s, 6));
        s.remove(a).map_err(es)?;
        rec.op_boundary(plain_state(&s, 6));
        let _c = s.put(REC_C).map_err(es)?;
        rec.sync_point(plain_state(&s, 6));
        Ok(())
    }
    fn reopen(&self, dir: &Path) -> Result<Vec<u8>, String> {
        let d = dir.join("store");
        if !d.exists() {
            return Err("store directory does not exist".into());
        }
        let s = PlainBlobStore::new(&d).map_err(es)?;
        Ok(plain_state(&s, 6))
    }
    fn after_reopen(&self, dir: &Path) -> Result<(), String> {
        // keep using the recovered store: two more puts (one shorter than anything an interrupted put may have
        // left behind), every older record unchanged, and the same again after a clean reopen
        let d = dir.join("store");
        let mut s = PlainBlobStore::new(&d).map_err(es)?;
        let before: Vec<Option<Vec<u8>>> = (0..=8u32).map(|id| s.get(id).ok()).collect();
        let x: &[u8] = b"zz";
        let y: Vec<u8> = vec![0x5A; 900];
        let ix = s.put(x).map_err(es)?;
        let iy = s.put(&y).map_err(es)?;
        if ix == iy {
            return Err(format!("two puts after recovery returned the same id {ix}"));
        }
        for (id, old) in before.iter().enumerate() {
            if let Some(old) = old {
                if id as u32 == ix || id as u32 == iy {
                    return Err(format!("put after recovery re-used id {id} of a live record"));
                }
                if s.get(id as u32).ok().as_ref() != Some(old) {
                    return Err(format!("record {id} changed after a put on the recovered store"));
                }
            }
        }
        for pass in 0..2 {
            let gx = s.get(ix).map_err(es)?;
            let gy = s.get(iy).map_err(es)?;
            if gx != x {
                return Err(format!("pass {pass}: record {ix} put after recovery reads back {} bytes, stored {}", gx.len(), x.len()));
            }
            if gy != y {
                return Err(format!("pass {pass}: record {iy} put after recovery reads back {} bytes, stored {}", gy.len(), y.len()));
            }
            s = PlainBlobStore::new(&d).map_err(es)?;
        }
        Ok(())
    }
}

// ---- ZipOffsetBlobStore -------------------------------------------------------------------------

struct ZipOffsetHist {
    compress: u8,
    checksum: u8,
    /// offset-index preset: "default" (16/32 bits), "memory" (12/24), "performance" (20/40)
    offsets: &'static str,
    /// additionally 70 records of 1000 bytes in front (content > 64 KiB, more than one offset block)
    big: bool,
    /// first save ANOTHER store (9 records, longer file) to the same path; crash images then mix old and new blocks
    over_existing: bool,
}
fn zo_old_records() -> Vec<Vec<u8>> {
    (0..9u32).map(|i| (0..(40 + 37 * i)).map(|j| (i * 31 + j * 7) as u8).collect()).collect()
}
fn zo_records() -> Vec<Vec<u8>> {
    vec![b"".to_vec(), b"a".to_vec(), vec![b'x'; 300], (0..=255u8).collect(), b"tail-record".to_vec()]
}
fn zo_big_records() -> Vec<Vec<u8>> {
    (0..70u32).map(|i| (0..1000u32).map(|j| (i * 7 + j * 13 + (j >> 3)) as u8).collect()).collect()
}
fn zo_state(s: &ZipOffsetBlobStore, n: u32) -> Vec<u8> {
    let mut out = (s.len() as u64).to_le_bytes().to_vec();
    for id in 0..n + 1 {
        match s.get(id) {
            Ok(d) => {
                out.push(1);
                out.extend_from_slice(&(d.len() as u32).to_le_bytes());
                out.extend_from_slice(&d);
            }
            Err(_) => out.push(0),
        }
    }
    out
}
impl CrashSpec for ZipOffsetHist {
    fn name(&self) -> String {
        if self.over_existing {
            format!("ZipOffsetBlobStore[compress={},checksum={},offsets={}]: save a 9-record store, then save a 5-record store over the same file, load_from_file", self.compress, self.checksum, self.offsets)
        } else if self.offsets == "default" && !self.big {
            format!("ZipOffsetBlobStore[compress={},checksum={}]: build 5 records, save_to_file, load_from_file", self.compress, self.checksum)
        } else {
            format!(
                "ZipOffsetBlobStore[compress={},checksum={},offsets={}{}]: build, save_to_file, load_from_file",
                self.compress,
                self.checksum,
                self.offsets,
                if self.big { ",75 records/70 KiB" } else { ",5 records" }
            )
        }
    }
    fn describe(&self) -> String {
        "builder -> finish -> save_to_file (128-byte header + content + offsets) -> load_from_file -> get every record".into()
    }
    fn run_history(&self, dir: &Path, rec: &mut Recorder) -> Result<(), String> {
        let mut cfg = ZipOffsetBlobStoreConfig::default();
        cfg.compress_level = self.compress;
        cfg.checksum_level = self.checksum;
        cfg.offset_config = match self.offsets {
            "memory" => zipora::blob_store::SortedUintVecConfig::memory_optimized(),
            "performance" => zipora::blob_store::SortedUintVecConfig::performance_optimized(),
            _ => cfg.offset_config,
        };
        if self.over_existing {
            let mut b = ZipOffsetBlobStoreBuilder::with_config(cfg.clone()).map_err(es)?;
            for r in zo_old_records() {
                b.add_record(&r).map_err(es)?;
            }
            let old = b.finish().map_err(es)?;
            old.save_to_file(dir.join("store.zo")).map_err(es)?;
            // probed over the same id range as every later state
            rec.sync_point(zo_state(&old, 9));
        }
        let mut b = ZipOffsetBlobStoreBuilder::with_config(cfg).map_err(es)?;
        let mut n = 0u32;
        if self.big {
            for r in zo_big_records() {
                b.add_record(&r).map_err(es)?;
                n += 1;
            }
        }
        for r in zo_records() {
            b.add_record(&r).map_err(es)?;
            n += 1;
        }
        let store = b.finish().map_err(es)?;
        store.save_to_file(dir.join("store.zo")).map_err(es)?;
        rec.sync_point(zo_state(&store, if self.over_existing { 9 } else { n }));
        Ok(())
    }
    fn reopen(&self, dir: &Path) -> Result<Vec<u8>, String> {
        let s = ZipOffsetBlobStore::load_from_file(dir.join("store.zo")).map_err(es)?;
        Ok(zo_state(&s, if self.over_existing { 9 } else if self.big { 75 } else { 5 }))
    }
    fn sector_sizes(&self, tier: zverif::Tier) -> Vec<usize> {
        if self.big {
            vec![512] // 70 KiB: 64-byte sectors would give > 1000 unsynced sectors per write
        } else {
            tier.pick(vec![512], vec![512, 64])
        }
    }
    fn lost_sector_images(&self) -> bool {
        // record checksums (CRC-32C) are the format's promise to notice a block that was never written
        self.checksum >= 2 && !self.big
    }
    /// With record checksums (level >= 2) a damaged record is detected when it is read: `get` returns an error.  That is
    /// a refusal at record granularity; every record that IS served must be byte-identical and the count must agree.
    fn same_state(&self, got: &[u8], sync: &[u8]) -> bool {
        if got == sync {
            return true;
        }
        if self.checksum < 2 {
            return false;
        }
        if std::env::var("ZV_DEBUG").is_ok() {
            eprintln!("got  {:?}\nsync {:?}", zo_parse(got).map(|(l, r)| (l, r.iter().map(|x| x.as_ref().map(|v| (v.len(), zverif::util::h64(v)))).collect::<Vec<_>>())), zo_parse(sync).map(|(l, r)| (l, r.iter().map(|x| x.as_ref().map(|v| (v.len(), zverif::util::h64(v)))).collect::<Vec<_>>())));
        }
        match (zo_parse(got), zo_parse(sync)) {
            (Some((gl, g)), Some((sl, s))) => gl == sl && g.len() == s.len() && g.iter().zip(s.iter()).all(|(a, b)| a.is_none() || a == b),
            _ => false,
        }
    }
}
/// inverse of `zo_state`: (len, per id: Some(bytes) = served, None = refused)
fn zo_parse(st: &[u8]) -> Option<(u64, Vec<Option<Vec<u8>>>)> {
    let len = u64::from_le_bytes(st.get(..8)?.try_into().ok()?);
    let mut i = 8;
    let mut recs = Vec::new();
    while i < st.len() {
        match st[i] {
            0 => {
                recs.push(None);
                i += 1;
            }
            1 => {
                let n = u32::from_le_bytes(st.get(i + 1..i + 5)?.try_into().ok()?) as usize;
                recs.push(Some(st.get(i + 5..i + 5 + n)?.to_vec()));
                i += 5 + n;
            }
            _ => return None,
        }
    }
    Some((len, recs))
}

// ---- ZReorderMap --------------------------------------------------------------------------------

struct ReorderHist {
    sign: i64,
    /// 0: the 11-value history; n > 0: n values that are all separate runs (one 5-byte record each: more than 819 of them
    /// exceed the builder's 4096-byte record buffer, which is then spilled to the file before finish())
    n: usize,
    /// runs of 300, 1 and 200 consecutive values: run lengths >= 128 are multi-byte var_uints (a file can end between
    /// two bytes of one)
    long_runs: bool,
    /// first build and finish ANOTHER, larger map at the same path (2000 elements in runs of 250), then build this one over
    /// it: crash images mix the old file's records with the new header and vice versa
    over_existing: bool,
}
impl ReorderHist {
    fn old_values(&self) -> Vec<usize> {
        let mut v = Vec::new();
        for r in 0..8usize {
            let base = 100_000 * (r + 1);
            for i in 0..250usize {
                v.push(if self.sign == 1 { base + i } else { base + 250 - i });
            }
        }
        v
    }
    fn values(&self) -> Vec<usize> {
        if self.long_runs {
            let mut v: Vec<usize> = Vec::new();
            let up = self.sign == 1;
            v.extend((0..300usize).map(|i| if up { 1000 + i } else { 1300 - i }));
            v.push(7);
            v.extend((0..200usize).map(|i| if up { 50_000 + i } else { 50_200 - i }));
            return v;
        }
        if self.n > 0 {
            let v: Vec<usize> = (0..self.n).map(|i| 7 + 3 * i).collect();
            return if self.sign == 1 { v } else { v.into_iter().rev().collect() };
        }
        if self.sign == 1 {
            vec![10, 11, 12, 13, 100, 5, 6, 7, 1000, 1001, 3]
        } else {
            vec![13, 12, 11, 10, 100, 7, 6, 5, 1001, 1000, 3]
        }
    }
}
fn ro_state(v: &[usize]) -> Vec<u8> {
    let mut s = (v.len() as u64).to_le_bytes().to_vec();
    for x in v {
        s.extend_from_slice(&(*x as u64).to_le_bytes());
    }
    s
}
impl CrashSpec for ReorderHist {
    fn name(&self) -> String {
        if self.long_runs || self.over_existing {
            format!(
                "ZReorderMap[sign={}]: {}builder push {}, finish, open, iterate",
                self.sign,
                if self.over_existing { "an older 2000-element map is finished at the same path first; then " } else { "" },
                if self.long_runs { "runs of 300 / 1 / 200 values (multi-byte run lengths)" } else { "x11" }
            )
        } else if self.n == 0 {
            format!("ZReorderMap[sign={}]: builder push x11, finish, open, iterate", self.sign)
        } else {
            format!("ZReorderMap[sign={}]: builder push x{} separate runs (buffer spill), finish, open, iterate", self.sign, self.n)
        }
    }
    fn describe(&self) -> String {
        "ZReorderMapBuilder (run-length records with a declared element count) -> finish (fsync) -> ZReorderMap::open -> iterate all".into()
    }
    fn run_history(&self, dir: &Path, rec: &mut Recorder) -> Result<(), String> {
        use zipora::blob_store::reorder_map::ZReorderMapBuilder;
        if self.over_existing {
            let old = self.old_values();
            let mut b = ZReorderMapBuilder::new(dir.join("reorder.map"), old.len(), self.sign).map_err(es)?;
            for v in &old {
                b.push(*v).map_err(es)?;
            }
            b.finish().map_err(es)?;
            rec.sync_point(ro_state(&old));
        }
        let vals = self.values();
        let mut b = ZReorderMapBuilder::new(dir.join("reorder.map"), vals.len(), self.sign).map_err(es)?;
        for v in &vals {
            b.push(*v).map_err(es)?;
        }
        b.finish().map_err(es)?;
        rec.sync_point(ro_state(&vals));
        Ok(())
    }
    fn reopen(&self, dir: &Path) -> Result<Vec<u8>, String> {
        use zipora::blob_store::reorder_map::ZReorderMap;
        let m = ZReorderMap::open(dir.join("reorder.map")).map_err(es)?;
        let declared = m.size();
        let mut got = Vec::new();
        for (i, v) in m.enumerate() {
            got.push(v);
            if i > 10_000 {
                return Ok(b"unbounded iteration".to_vec());
            }
        }
        let mut s = ro_state(&got);
        if declared != got.len() {
            s.extend_from_slice(b"declared-size-mismatch");
        }
        Ok(s)
    }
}

// ---- PA-Zip dictionary (bincode blob, no checksum) ------------------------------------------------

struct DictHist {
    /// a dictionary trained on another, longer text is saved to the same path first
    over_existing: bool,
}
fn dict_state(d: &zipora::compression::dict_zip::SuffixArrayDictionary) -> Vec<u8> {
    let mut s = (d.data().len() as u64).to_le_bytes().to_vec();
    s.extend_from_slice(d.data());
    for probe in [&b"quick"[..], b"lazy dog", b"zzz", b"t"] {
        let m = d.da_match_max_length(probe);
        s.extend_from_slice(&(m.depth as u32).to_le_bytes());
    }
    s
}
impl CrashSpec for DictHist {
    fn name(&self) -> String {
        if self.over_existing {
            "SuffixArrayDictionary: save a dictionary of another text, then save this one over the same file, load_from_file, query".into()
        } else {
            "SuffixArrayDictionary: build, save_to_file, load_from_file, query".into()
        }
    }
    fn describe(&self) -> String {
        "PA-Zip dictionary trained on a 180-byte text -> save_to_file (bincode blob: text + DFA cache) -> load_from_file -> data() and 4 match queries".into()
    }
    fn run_history(&self, dir: &Path, rec: &mut Recorder) -> Result<(), String> {
        use zipora::compression::dict_zip::{SuffixArrayDictionary, SuffixArrayDictionaryConfig};
        let text = b"the quick brown fox jumps over the lazy dog. the quick brown fox jumps over the lazy dog. the quick brown fox jumps over the lazy dog. the quick brown fox jumps over the lazy dog.";
        let mut cfg = SuffixArrayDictionaryConfig::default();
        cfg.use_memory_pool = false;
        cfg.min_frequency = 2;
        if self.over_existing {
            let old_text = b"pack my box with five dozen liquor jugs! pack my box with five dozen liquor jugs! pack my box with five dozen liquor jugs! pack my box with five dozen liquor jugs! pack my box with five dozen liquor jugs! pack my box.";
            let old = SuffixArrayDictionary::new(old_text, cfg.clone()).map_err(es)?;
            old.save_to_file(dir.join("dict.bin")).map_err(es)?;
            rec.sync_point(dict_state(&old));
        }
        let d = SuffixArrayDictionary::new(text, cfg).map_err(es)?;
        d.save_to_file(dir.join("dict.bin")).map_err(es)?;
        rec.sync_point(dict_state(&d));
        Ok(())
    }
    fn reopen(&self, dir: &Path) -> Result<Vec<u8>, String> {
        let d = zipora::compression::dict_zip::SuffixArrayDictionary::load_from_file(dir.join("dict.bin")).map_err(es)?;
        Ok(dict_state(&d))
    }
    /// small file: 64-byte sectors in both tiers (a torn sector that lies inside the dictionary text is only possible with them)
    fn sector_sizes(&self, _tier: zverif::Tier) -> Vec<usize> {
        vec![512, 64]
    }
}

// ---- MmapVec<u32>: longer history with pop / clear / extend -----------------------------------------

struct MmapVecHist2;
fn mv32_state(v: &MmapVec<u32>) -> Vec<u8> {
    let mut s = (v.len() as u64).to_le_bytes().to_vec();
    for x in v.as_slice() {
        s.extend_from_slice(&x.to_le_bytes());
    }
    s
}
impl CrashSpec for MmapVecHist2 {
    fn name(&self) -> String {
        "MmapVec<u32>: create(cap 4), extend x6 (grow twice), sync, pop, sync, clear, push, sync".into()
    }
    fn describe(&self) -> String {
        "second MmapVec history: extend across two growth steps, pop, clear, push; u32 elements".into()
    }
    fn sector_sizes(&self, _tier: zverif::Tier) -> Vec<usize> {
        vec![512, 64]
    }
    fn run_history(&self, dir: &Path, rec: &mut Recorder) -> Result<(), String> {
        let p = dir.join("w.mmapvec");
        let cfg = MmapVecConfig::builder().with_initial_capacity(4).build();
        let mut v: MmapVec<u32> = MmapVec::create(&p, cfg).map_err(es)?;
        v.sync().map_err(es)?;
        rec.sync_point(mv32_state(&v));
        for x in [0xA1A1_A1A1u32, 0xB2B2_B2B2, 0xC3C3_C3C3, 0xD4D4_D4D4, 0xE5E5_E5E5, 0xF6F6_F6F6] {
            v.push(x).map_err(es)?;
            rec.op_boundary(mv32_state(&v));
        }
        v.sync().map_err(es)?;
        rec.sync_point(mv32_state(&v));
        let _ = v.pop();
        rec.op_boundary(mv32_state(&v));
        v.sync().map_err(es)?;
        rec.sync_point(mv32_state(&v));
        v.clear().map_err(es)?;
        rec.op_boundary(mv32_state(&v));
        v.push(0x0707_0707).map_err(es)?;
        rec.op_boundary(mv32_state(&v));
        v.sync().map_err(es)?;
        rec.sync_point(mv32_state(&v));
        Ok(())
    }
    fn reopen(&self, dir: &Path) -> Result<Vec<u8>, String> {
        let v: MmapVec<u32> = MmapVec::open(dir.join("w.mmapvec"), MmapVecConfig::default()).map_err(es)?;
        Ok(mv32_state(&v))
    }
}

// ---- MmapVec<u16>: shrink_to_fit / reserve / resize, and a sync_on_write configuration ----------------

struct MmapVecHist3 {
    sync_on_write: bool,
}
fn mv16_state(v: &MmapVec<u16>) -> Vec<u8> {
    let mut s = (v.len() as u64).to_le_bytes().to_vec();
    for x in v.as_slice() {
        s.extend_from_slice(&x.to_le_bytes());
    }
    s
}
impl CrashSpec for MmapVecHist3 {
    fn name(&self) -> String {
        format!("MmapVec<u16>[sync_on_write={}]: create(cap 8), push x6, sync, truncate(3), shrink_to_fit, sync, reserve(20), push, sync, resize(12), sync", self.sync_on_write)
    }
    fn describe(&self) -> String {
        "third MmapVec history: the file SHRINKS (shrink_to_fit: set_len below the old capacity, then header update), grows again by reserve and by resize; u16 elements".into()
    }
    fn sector_sizes(&self, _tier: zverif::Tier) -> Vec<usize> {
        vec![512, 64]
    }
    fn run_history(&self, dir: &Path, rec: &mut Recorder) -> Result<(), String> {
        let p = dir.join("s.mmapvec");
        let cfg = MmapVecConfig::builder().with_initial_capacity(8).with_sync_on_write(self.sync_on_write).build();
        let mut v: MmapVec<u16> = MmapVec::create(&p, cfg).map_err(es)?;
        v.sync().map_err(es)?;
        rec.sync_point(mv16_state(&v));
        // one push per step: with sync_on_write every push persists its own state (extend is covered by the u32 history)
        for x in [0xA1A1u16, 0xB2B2, 0xC3C3, 0xD4D4, 0xE5E5, 0xF6F6] {
            v.push(x).map_err(es)?;
            rec.op_boundary(mv16_state(&v));
        }
        v.sync().map_err(es)?;
        rec.sync_point(mv16_state(&v));
        v.truncate(3).map_err(es)?;
        rec.op_boundary(mv16_state(&v));
        v.shrink_to_fit().map_err(es)?;
        rec.op_boundary(mv16_state(&v));
        v.sync().map_err(es)?;
        rec.sync_point(mv16_state(&v));
        v.reserve(20).map_err(es)?;
        rec.op_boundary(mv16_state(&v));
        v.push(0x0707).map_err(es)?;
        rec.op_boundary(mv16_state(&v));
        v.sync().map_err(es)?;
        rec.sync_point(mv16_state(&v));
        v.resize(12, 0x5A5A).map_err(es)?;
        rec.op_boundary(mv16_state(&v));
        v.sync().map_err(es)?;
        rec.sync_point(mv16_state(&v));
        Ok(())
    }
    fn reopen(&self, dir: &Path) -> Result<Vec<u8>, String> {
        let v: MmapVec<u16> = MmapVec::open(dir.join("s.mmapvec"), MmapVecConfig::default()).map_err(es)?;
        let mut s = mv16_state(&v);
        for i in 0..v.len() {
            if v.get(i).is_none() {
                s.push(0xEE);
            }
        }
        Ok(s)
    }
    fn after_reopen(&self, dir: &Path) -> Result<(), String> {
        // keep using the recovered vector: shrink, grow, sync, reopen
        let p = dir.join("s.mmapvec");
        let mut v: MmapVec<u16> = MmapVec::open(&p, MmapVecConfig::default()).map_err(es)?;
        let mut want: Vec<u16> = v.as_slice().to_vec();
        v.shrink_to_fit().map_err(es)?;
        for i in 0..5u16 {
            v.push(0x7700 + i).map_err(es)?;
            want.push(0x7700 + i);
        }
        v.sync().map_err(es)?;
        drop(v);
        let v: MmapVec<u16> = MmapVec::open(&p, MmapVecConfig::default()).map_err(es)?;
        if v.as_slice() != &want[..] {
            return Err(format!("after recovery + shrink_to_fit + 5 pushes + sync + reopen the vector holds {:x?}, expected {:x?}", v.as_slice(), want));
        }
        Ok(())
    }
}

// ---- families: EVERY operation history up to a depth, each one explored completely (E1 x E4) -------------------

/// Enumerates all sequences over `0..k` of length 0..=depth, shortest first.
fn all_seqs(k: usize, depth: usize) -> Vec<Vec<usize>> {
    let mut out: Vec<Vec<usize>> = vec![vec![]];
    let mut level: Vec<Vec<usize>> = vec![vec![]];
    for _ in 0..depth {
        let mut next = Vec::new();
        for s in &level {
            for a in 0..k {
                let mut t = s.clone();
                t.push(a);
                next.push(t);
            }
        }
        out.extend(next.iter().cloned());
        level = next;
    }
    out
}

const MV_OPS: [&str; 15] = [
    "push", "extend3", "pop", "truncate_half", "clear", "sync", "reserve8", "shrink_to_fit", "resize+2", "set_first", "sync+close+open",
    // the bulk entry points (seed C19k): copy_from_simd from a 12-element vector, push_bulk_simd of 5, pop_bulk_simd of 2, fill_range_simd over everything
    "copy_from(12)", "push_bulk5", "pop_bulk2", "fill_all",
];

struct MmapVecOps {
    ops: Vec<usize>,
    sync_on_write: bool,
    cap: usize,
}
impl MmapVecOps {
    fn apply(v: &mut MmapVec<u32>, op: usize, step: usize) -> Result<(), String> {
        let val = 0x1000_0000u32 * (step as u32 + 1) + 0x0101_0101;
        match op {
            0 => v.push(val).map_err(es),
            1 => v.extend([val, val + 1, val + 2]).map_err(es),
            2 => {
                let _ = v.pop();
                Ok(())
            }
            3 => {
                let n = v.len() / 2;
                v.truncate(n).map_err(es)
            }
            4 => v.clear().map_err(es),
            5 => v.sync().map_err(es),
            6 => v.reserve(8).map_err(es),
            7 => v.shrink_to_fit().map_err(es),
            8 => {
                let n = v.len() + 2;
                v.resize(n, val).map_err(es)
            }
            12 => v.push_bulk_simd(&[val, val + 1, val + 2, val + 3, val + 4]).map_err(es),
            13 => {
                let n = v.len().min(2);
                v.pop_bulk_simd(n).map(|_| ()).map_err(es)
            }
            14 => {
                let n = v.len();
                v.fill_range_simd(0..n, val).map_err(es)
            }
            _ => {
                if let Some(x) = v.get_mut(0) {
                    *x = val;
                }
                Ok(())
            }
        }
    }
}
impl CrashSpec for MmapVecOps {
    fn name(&self) -> String {
        format!("create(cap {}), push x2, sync, [{}], sync", self.cap, self.ops.iter().map(|o| MV_OPS[*o]).collect::<Vec<_>>().join(", "))
    }
    fn describe(&self) -> String {
        String::new()
    }
    fn sector_sizes(&self, _tier: zverif::Tier) -> Vec<usize> {
        vec![512, 64]
    }
    fn run_history(&self, dir: &Path, rec: &mut Recorder) -> Result<(), String> {
        let p = dir.join("f.mmapvec");
        let cfg = MmapVecConfig::builder().with_initial_capacity(self.cap).with_sync_on_write(self.sync_on_write).build();
        let mut v: MmapVec<u32> = MmapVec::create(&p, cfg).map_err(es)?;
        // a non-initial start state: two elements, synced
        v.push(0xAAAA_0001).map_err(es)?;
        rec.op_boundary(mv32_state(&v));
        v.push(0xAAAA_0002).map_err(es)?;
        rec.op_boundary(mv32_state(&v));
        v.sync().map_err(es)?;
        rec.sync_point(mv32_state(&v));
        for (i, op) in self.ops.iter().enumerate() {
            // extend / resize append element by element; the library may persist after each one (sync_on_write, or the
            // sync inside a growth step), so the partially extended contents are states "valid at an earlier sync point" too:
            // they are registered before the operation starts
            if *op == 1 || *op == 8 {
                let val = 0x1000_0000u32 * (i as u32 + 1) + 0x0101_0101;
                let mut cur: Vec<u32> = v.as_slice().to_vec();
                for k in 0..(if *op == 1 { 2 } else { 1 }) {
                    cur.push(if *op == 1 { val + k } else { val });
                    let mut st = (cur.len() as u64).to_le_bytes().to_vec();
                    for x in &cur {
                        st.extend_from_slice(&x.to_le_bytes());
                    }
                    rec.op_boundary(st);
                }
            }
            if *op == 10 {
                // the history continues on the REOPENED vector (open() rebuilds capacity / pointers from the header)
                v.sync().map_err(es)?;
                rec.sync_point(mv32_state(&v));
                drop(v);
                v = MmapVec::open(&p, MmapVecConfig::builder().with_sync_on_write(self.sync_on_write).build()).map_err(es)?;
                rec.op_boundary(mv32_state(&v));
                continue;
            }
            if *op == 11 {
                // the source is a second, never synced file-backed vector in the same directory
                let val = 0x1000_0000u32 * (i as u32 + 1) + 0x0101_0101;
                let sp = dir.join(format!("src{i}.mmapvec"));
                let mut src: MmapVec<u32> = MmapVec::create(&sp, MmapVecConfig::builder().with_initial_capacity(12).build()).map_err(es)?;
                for k in 0..12u32 {
                    src.push(val + k).map_err(es)?;
                }
                v.copy_from_simd(&src).map_err(es)?;
                drop(src);
                rec.op_boundary(mv32_state(&v));
                continue;
            }
            Self::apply(&mut v, *op, i)?;
            if *op == 5 {
                rec.sync_point(mv32_state(&v));
            } else {
                rec.op_boundary(mv32_state(&v));
            }
        }
        v.sync().map_err(es)?;
        rec.sync_point(mv32_state(&v));
        Ok(())
    }
    fn reopen(&self, dir: &Path) -> Result<Vec<u8>, String> {
        let v: MmapVec<u32> = MmapVec::open(dir.join("f.mmapvec"), MmapVecConfig::default()).map_err(es)?;
        let mut s = mv32_state(&v);
        for i in 0..v.len() {
            if v.get(i).is_none() {
                s.push(0xEE);
            }
        }
        Ok(s)
    }
    fn after_reopen(&self, dir: &Path) -> Result<(), String> {
        let p = dir.join("f.mmapvec");
        let mut v: MmapVec<u32> = MmapVec::open(&p, MmapVecConfig::default()).map_err(es)?;
        let mut want: Vec<u32> = v.as_slice().to_vec();
        for i in 0..3u32 {
            v.push(0x7700_0000 + i).map_err(es)?;
            want.push(0x7700_0000 + i);
        }
        v.sync().map_err(es)?;
        drop(v);
        let v: MmapVec<u32> = MmapVec::open(&p, MmapVecConfig::default()).map_err(es)?;
        if v.as_slice() != &want[..] {
            return Err(format!("after recovery + 3 pushes + sync + reopen the vector holds {:x?}, expected {:x?}", v.as_slice(), want));
        }
        Ok(())
    }
}

const PL_OPS: [&str; 6] = ["put(23 bytes)", "put(700 bytes)", "put(empty)", "remove(oldest live)", "remove(newest live)", "drop + reopen"];

struct PlainOps {
    ops: Vec<usize>,
}
impl CrashSpec for PlainOps {
    fn name(&self) -> String {
        format!("create_new, put A, [{}]", self.ops.iter().map(|o| PL_OPS[*o]).collect::<Vec<_>>().join(", "))
    }
    fn describe(&self) -> String {
        String::new()
    }
    fn run_history(&self, dir: &Path, rec: &mut Recorder) -> Result<(), String> {
        let d = dir.join("store");
        let mut s = PlainBlobStore::create_new(&d).map_err(es)?;
        rec.sync_point(plain_state(&s, 6));
        let mut live: Vec<u32> = Vec::new();
        live.push(s.put(REC_A).map_err(es)?);
        rec.sync_point(plain_state(&s, 6));
        for (i, op) in self.ops.iter().enumerate() {
            match op {
                0 => {
                    let r: Vec<u8> = format!("record-{i}-0123456789abcdef").into_bytes();
                    live.push(s.put(&r).map_err(es)?);
                    rec.sync_point(plain_state(&s, 6));
                }
                1 => {
                    live.push(s.put(&vec![0xB0 + i as u8; 700]).map_err(es)?);
                    rec.sync_point(plain_state(&s, 6));
                }
                2 => {
                    live.push(s.put(b"").map_err(es)?);
                    rec.sync_point(plain_state(&s, 6));
                }
                3 | 4 => {
                    if !live.is_empty() {
                        let id = if *op == 3 { live.remove(0) } else { live.pop().unwrap() };
                        s.remove(id).map_err(es)?;
                    }
                    rec.op_boundary(plain_state(&s, 6));
                }
                _ => {
                    drop(s);
                    s = PlainBlobStore::new(&d).map_err(es)?;
                    rec.op_boundary(plain_state(&s, 6));
                }
            }
        }
        Ok(())
    }
    fn reopen(&self, dir: &Path) -> Result<Vec<u8>, String> {
        PlainHist.reopen(dir)
    }
    fn after_reopen(&self, dir: &Path) -> Result<(), String> {
        PlainHist.after_reopen(dir)
    }
}

// ---- MmapVec re-created over an older, longer file ----------------------------------------------------

struct MmapVecRecreate;
impl CrashSpec for MmapVecRecreate {
    fn name(&self) -> String {
        "MmapVec<u64>: create(cap 64), push x40, sync, drop; create(cap 16) over the same path, push, sync".into()
    }
    fn describe(&self) -> String {
        "a vector file is re-created (smaller) over an older, longer one: between create() and the first sync the path must hold nothing that reopens as a vector which never existed".into()
    }
    fn sector_sizes(&self, _tier: zverif::Tier) -> Vec<usize> {
        vec![512, 64]
    }
    fn run_history(&self, dir: &Path, rec: &mut Recorder) -> Result<(), String> {
        let p = dir.join("v.mmapvec");
        {
            let cfg = MmapVecConfig::builder().with_initial_capacity(64).build();
            let mut v: MmapVec<u64> = MmapVec::create(&p, cfg).map_err(es)?;
            for i in 0..40u64 {
                v.push(0xA5A5_A5A5_A5A5_A500 + i).map_err(es)?;
            }
            v.sync().map_err(es)?;
            rec.sync_point(mv_state(&v));
        }
        let cfg = MmapVecConfig::builder().with_initial_capacity(16).build();
        let mut v: MmapVec<u64> = MmapVec::create(&p, cfg).map_err(es)?;
        rec.op_boundary(mv_state(&v));
        v.push(0x0101_0101_0101_0101).map_err(es)?;
        rec.op_boundary(mv_state(&v));
        v.sync().map_err(es)?;
        rec.sync_point(mv_state(&v));
        Ok(())
    }
    fn reopen(&self, dir: &Path) -> Result<Vec<u8>, String> {
        MmapVecHist.reopen(dir)
    }
}

fn main() {
    zverif::main_with("C19", |reg, _tier| {
        reg.add(Crash { spec: MmapVecHist, shim: &SHIM });
        reg.add(Crash { spec: MmapVecRecreate, shim: &SHIM });
        reg.add(Crash { spec: PlainHist, shim: &SHIM });
        reg.add(Crash { spec: ZipOffsetHist { compress: 0, checksum: 2, offsets: "default", big: false, over_existing: false }, shim: &SHIM });
        reg.add(Crash { spec: ZipOffsetHist { compress: 3, checksum: 3, offsets: "default", big: false, over_existing: false }, shim: &SHIM });
        reg.add(Crash { spec: ZipOffsetHist { compress: 0, checksum: 2, offsets: "memory", big: false, over_existing: false }, shim: &SHIM });
        reg.add(Crash { spec: ZipOffsetHist { compress: 0, checksum: 3, offsets: "performance", big: false, over_existing: false }, shim: &SHIM });
        reg.add(Crash { spec: ZipOffsetHist { compress: 0, checksum: 2, offsets: "default", big: true, over_existing: false }, shim: &SHIM });
        reg.add(Crash { spec: ReorderHist { sign: 1, n: 0, long_runs: false, over_existing: false }, shim: &SHIM });
        reg.add(Crash { spec: ReorderHist { sign: -1, n: 0, long_runs: false, over_existing: false }, shim: &SHIM });
        reg.add(Crash { spec: ReorderHist { sign: 1, n: 1000, long_runs: false, over_existing: false }, shim: &SHIM });
        reg.add(Crash { spec: ReorderHist { sign: 1, n: 0, long_runs: true, over_existing: false }, shim: &SHIM });
        reg.add(Crash { spec: ReorderHist { sign: -1, n: 0, long_runs: true, over_existing: false }, shim: &SHIM });
        reg.add(Crash { spec: ReorderHist { sign: 1, n: 0, long_runs: true, over_existing: true }, shim: &SHIM });
        reg.add(Crash { spec: ReorderHist { sign: 1, n: 0, long_runs: false, over_existing: true }, shim: &SHIM });
        reg.add(Crash { spec: ZipOffsetHist { compress: 0, checksum: 2, offsets: "default", big: false, over_existing: true }, shim: &SHIM });
        reg.add(Crash { spec: ZipOffsetHist { compress: 0, checksum: 0, offsets: "default", big: false, over_existing: true }, shim: &SHIM });
        reg.add(Crash { spec: DictHist { over_existing: true }, shim: &SHIM });
        reg.add(Crash { spec: DictHist { over_existing: false }, shim: &SHIM });
        reg.add(Crash { spec: MmapVecHist2, shim: &SHIM });
        reg.add(Crash { spec: MmapVecHist3 { sync_on_write: false }, shim: &SHIM });
        reg.add(Crash { spec: MmapVecHist3 { sync_on_write: true }, shim: &SHIM });
        for (sow, cap) in [(false, 2usize), (true, 4)] {
            reg.add(CrashFamily {
                name: format!("MmapVec<u32>[sync_on_write={sow},cap={cap}]: ALL operation histories"),
                describe: format!(
                    "every sequence of <= 2 (quick) / 3 (thorough) operations from {{{}}} after the start state create(cap {cap}), push x2, sync, and followed by a final sync, on the real MmapVec write path",
                    MV_OPS.join(", ")
                ),
                members: Box::new(move |tier| {
                    all_seqs(MV_OPS.len(), tier.pick(2, 3)).into_iter().map(|ops| Box::new(MmapVecOps { ops, sync_on_write: sow, cap }) as Box<dyn CrashSpec>).collect()
                }),
                shim: &SHIM,
            });
        }
        reg.add(CrashFamily {
            name: "PlainBlobStore: ALL operation histories".into(),
            describe: format!("every sequence of <= 2 (quick) / 3 (thorough) operations from {{{}}} after create_new + put A on the real directory-backed store", PL_OPS.join(", ")),
            members: Box::new(|tier| all_seqs(PL_OPS.len(), tier.pick(2, 3)).into_iter().map(|ops| Box::new(PlainOps { ops }) as Box<dyn CrashSpec>).collect()),
            shim: &SHIM,
        });
    });
}
