//! C16 — version tokens: one writer at a time, nothing reclaimed while still visible.
//!
//! E3 subjects: 2–3 real threads acquiring/releasing tokens from one real `VersionManager`
//! (or through `TokenManager` + the thread-local cache) under the controlled scheduler, every
//! interleaving up to the pre-emption bound, with a live-token monitor evaluated at every point.
//! E1 subject: all single-thread histories over two managers (create, acquire, cache, drop token,
//! drop manager) with the release point observed (manager must be alive).

use std::collections::hash_map::DefaultHasher;
use std::hash::Hash;
use std::path::Path;
use std::sync::{Arc, Mutex};
use zverif::sched::{self, Scenario, Sched, SchedSpec};
use zverif::seq::{Seq, SeqSpec};
use zverif::{check, Fail, Tier};

use zipora::fsa::token::TokenManager;
use zipora::fsa::version_sync::{ConcurrencyLevel, LazyFreeItem, LazyFreeList, ReaderToken, VersionManager, WriterToken};

// ------------------------------------------------------------------------------------------------
// E3: concurrent harnesses

#[derive(Clone, Copy, Debug, PartialEq)]
enum Act {
    /// VersionManager::acquire_reader_token, keep the token
    AcqR,
    /// VersionManager::acquire_writer_token, keep the token (an Err is fine: "refused")
    AcqW,
    /// drop the oldest token this thread holds
    DropOldest,
    /// retire an item at the current version, then process_safe_items(min_version)
    Retire,
    /// token::with_reader_token(&TokenManager, ..) (acquire via cache, use, return to cache)
    TmWithR,
    /// token::with_writer_token(&TokenManager, ..)
    TmWithW,
    /// TokenManager::clear_thread_cache
    TmClear,
}

#[derive(Clone, Debug)]
struct LiveTok {
    tid: usize,
    writer: bool,
    version: u64,
    id: u64,
}

#[derive(Default)]
struct Mon {
    live: Vec<LiveTok>,
    next_id: u64,
    in_call: Vec<bool>,
}

enum Held {
    R(ReaderToken, u64),
    W(WriterToken, u64),
}

struct VmSpec {
    name: &'static str,
    level: ConcurrencyLevel,
    threads: Vec<Vec<Act>>,
    bound_quick: usize,
    bound_thorough: usize,
}

fn check_min_version(mgr: &VersionManager, mon: &Mon, at: &str) -> Result<(), Fail> {
    let min = mgr.min_version();
    for t in &mon.live {
        if min > t.version {
            return Err(Fail::new(
                "min_version_gt_live",
                format!("at {at}: min_version() = {min} exceeds the version {} of a live {} token held by thread {}", t.version, if t.writer { "writer" } else { "reader" }, t.tid),
            )
            .with_class("min_version"));
        }
    }
    Ok(())
}

fn counts_check(mgr: &VersionManager, mon: &Mon, at: &str) -> Result<(), Fail> {
    if mon.in_call.iter().any(|b| *b) {
        return Ok(());
    }
    let r = mon.live.iter().filter(|t| !t.writer).count() as u64;
    let w = mon.live.iter().filter(|t| t.writer).count() as u64;
    if mgr.active_readers() != r || mgr.active_writers() != w {
        return Err(Fail::new(
            "active_count_mismatch",
            format!("{at}: no thread is inside an API call; active_readers()={} active_writers()={} but live tokens: {} readers, {} writers", mgr.active_readers(), mgr.active_writers(), r, w),
        )
        .with_class("counts"));
    }
    Ok(())
}

impl SchedSpec for VmSpec {
    fn name(&self) -> String {
        self.name.to_string()
    }
    fn bound(&self, tier: Tier) -> usize {
        tier.pick(self.bound_quick, self.bound_thorough)
    }
    fn describe(&self, _tier: Tier) -> String {
        format!("{} threads on one VersionManager({:?}); per-thread programs {:?}; schedule points before every atomic access of the token protocol + before every harness action", self.threads.len(), self.level, self.threads)
    }
    fn build(&self) -> Scenario {
        let tm = Arc::new(TokenManager::new(self.level));
        let mgr: Arc<VersionManager> = tm.version_manager().clone();
        let mon = Arc::new(Mutex::new(Mon { live: Vec::new(), next_id: 0, in_call: vec![false; self.threads.len()] }));
        let level = self.level;
        let any_cache = self.threads.iter().flatten().any(|a| matches!(a, Act::TmWithR | Act::TmWithW));
        let mut threads: Vec<Box<dyn FnOnce() + Send>> = Vec::new();
        for (tid, prog) in self.threads.iter().cloned().enumerate() {
            let mgr = mgr.clone();
            let tm = tm.clone();
            let mon = mon.clone();
            threads.push(Box::new(move || {
                let mut held: Vec<Held> = Vec::new();
                let register = |mon: &Mutex<Mon>, writer: bool, version: u64| -> u64 {
                    let mut m = mon.lock().unwrap();
                    if writer && level == ConcurrencyLevel::OneWriteMultiRead {
                        if let Some(o) = m.live.iter().find(|t| t.writer) {
                            let f = Fail::new(
                                "two_writers",
                                format!("thread {tid} obtained a writer token (version {version}) while thread {} still holds a live writer token (version {}) in OneWriteMultiRead mode", o.tid, o.version),
                            )
                            .with_class("writer_exclusion");
                            drop(m);
                            sched::fail_now(f);
                        }
                    }
                    let id = m.next_id;
                    m.next_id += 1;
                    m.live.push(LiveTok { tid, writer, version, id });
                    id
                };
                let unregister = |mon: &Mutex<Mon>, id: u64| {
                    let mut m = mon.lock().unwrap();
                    m.live.retain(|t| t.id != id);
                };
                for (i, act) in prog.iter().enumerate() {
                    sched::point("h.step", tid, i);
                    mon.lock().unwrap().in_call[tid] = true;
                    match act {
                        Act::AcqR => {
                            if let Ok(t) = mgr.acquire_reader_token() {
                                let id = register(&mon, false, t.version());
                                held.push(Held::R(t, id));
                            }
                        }
                        Act::AcqW => {
                            if let Ok(t) = mgr.acquire_writer_token() {
                                let id = register(&mon, true, t.version());
                                held.push(Held::W(t, id));
                            }
                        }
                        Act::DropOldest => {
                            if !held.is_empty() {
                                match held.remove(0) {
                                    Held::R(t, id) => {
                                        unregister(&mon, id);
                                        drop(t);
                                    }
                                    Held::W(t, id) => {
                                        unregister(&mon, id);
                                        drop(t);
                                    }
                                }
                            }
                        }
                        Act::Retire => {
                            let age = mgr.current_version();
                            let mut list = LazyFreeList::new();
                            list.push(LazyFreeItem::new(age, 0, 8));
                            sched::point("h.retire.mid", tid, i);
                            let min = mgr.min_version();
                            let mut bad: Option<Fail> = None;
                            list.process_safe_items(min, |item| {
                                let m = mon.lock().unwrap();
                                for t in &m.live {
                                    if item.age >= t.version && bad.is_none() {
                                        bad = Some(
                                            Fail::new(
                                                "freed_while_visible",
                                                format!("item retired at version {} was handed to the free callback (min_version {min}) while thread {} holds a live token of version {}", item.age, t.tid, t.version),
                                            )
                                            .with_class("reclaim"),
                                        );
                                    }
                                }
                            });
                            if let Some(f) = bad {
                                sched::fail_now(f);
                            }
                        }
                        Act::TmWithR => {
                            let _ = zipora::fsa::token::with_reader_token(&tm, |t| {
                                let id = register(&mon, false, t.version());
                                sched::point("h.tm.using", tid, i);
                                unregister(&mon, id);
                                Ok(())
                            });
                        }
                        Act::TmWithW => {
                            let _ = zipora::fsa::token::with_writer_token(&tm, |t| {
                                let id = register(&mon, true, t.version());
                                sched::point("h.tm.using", tid, i);
                                unregister(&mon, id);
                                Ok(())
                            });
                        }
                        Act::TmClear => tm.clear_thread_cache(),
                    }
                    // tokens parked in ANY thread's TOKEN_CACHE stay counted by the manager although no caller holds them: the
                    // exact count comparison is made only in scenarios without the cache path (and for all of them at quiescence)
                    let uses_cache = any_cache;
                    let m = mon.lock().unwrap();
                    let mut m = m;
                    m.in_call[tid] = false;
                    if !uses_cache {
                        if let Err(f) = counts_check(&mgr, &m, "after an action") {
                            drop(m);
                            sched::fail_now(f);
                        }
                    }
                }
                // thread ends: drop what is still held (unregister first: "live until the start of its drop")
                for h in held.drain(..) {
                    match h {
                        Held::R(t, id) => {
                            unregister(&mon, id);
                            drop(t);
                        }
                        Held::W(t, id) => {
                            unregister(&mon, id);
                            drop(t);
                        }
                    }
                }
                // tokens parked in this thread's TOKEN_CACHE are released now, while the manager is alive
                tm.clear_thread_cache();
            }));
        }
        let mgr_m = mgr.clone();
        let mon_m = mon.clone();
        let monitor: Box<dyn FnMut(&sched::Event) -> Result<(), Fail> + Send> = Box::new(move |ev| {
            let m = mon_m.lock().unwrap();
            check_min_version(&mgr_m, &m, ev.site)
        });
        let mgr_f = mgr.clone();
        let mon_f = mon.clone();
        Scenario {
            threads,
            external_threads: 0,
            identify: None,
            monitor: Some(monitor),
            fingerprint: None,
            after_spawn: None,
            finish: Box::new(move |_r| {
                let m = mon_f.lock().unwrap();
                check!(m.live.is_empty(), "harness", "harness bug: tokens still registered at quiescence");
                check!(
                    mgr_f.active_readers() == 0 && mgr_f.active_writers() == 0,
                    "counts_not_zero_at_quiescence",
                    "all tokens released but active_readers()={} active_writers()={}",
                    mgr_f.active_readers(),
                    mgr_f.active_writers()
                );
                check!(
                    mgr_f.min_version() <= mgr_f.current_version(),
                    "min_version_gt_current",
                    "min_version {} > current_version {}",
                    mgr_f.min_version(),
                    mgr_f.current_version()
                );
                Ok(())
            }),
        }
    }
}

// ------------------------------------------------------------------------------------------------
// E1: sequential histories over two managers, token cache, manager drop

#[derive(Clone, Debug, PartialEq)]
enum SOp {
    NewMgr(usize),
    /// VersionManager::acquire_reader_token on manager i
    AcqR(usize),
    AcqW(usize),
    /// TokenManager::acquire_reader_token on manager i (may be served from the thread cache)
    TmAcqR(usize),
    TmAcqW(usize),
    /// return the oldest held reader / writer token to the cache through manager i
    TmReturnR(usize),
    TmReturnW(usize),
    DropOldestTok,
    /// drop the most recently obtained token (an older token of the same manager stays live)
    DropNewestTok,
    ClearCache,
    DropMgr(usize),
}

#[derive(Clone, Debug, Hash, PartialEq)]
struct MTok {
    issuer: usize,
    /// which manager's API handed it to the caller most recently
    via: usize,
    writer: bool,
    uid: u64,
    /// version sequence number the token carries
    version: u64,
}

enum RealTok {
    R(ReaderToken),
    W(WriterToken),
}

struct SSt {
    mgrs: Vec<Option<TokenManager>>,
    mgr_addr: Arc<Mutex<Vec<usize>>>, // addresses of live VersionManagers (for the release observer)
    uaf: Arc<Mutex<Option<String>>>,
    held: Vec<(RealTok, MTok)>,
    cache_r: Option<MTok>,
    cache_w: Option<MTok>,
    // model
    alive: Vec<bool>,
    generation: Vec<u64>,
    next_uid: u64,
}

impl Drop for SSt {
    fn drop(&mut self) {
        // never let a release on a dead manager escape from a destructor: every drop is guarded, and the
        // thread-local cache is emptied so that the next history starts clean
        for (t, _) in self.held.drain(..) {
            let _ = std::panic::catch_unwind(std::panic::AssertUnwindSafe(move || drop(t)));
        }
        let _ = std::panic::catch_unwind(|| {
            let tmp = TokenManager::new(ConcurrencyLevel::MultiWriteMultiRead);
            tmp.clear_thread_cache();
        });
        let _ = self.uaf.lock().map(|mut u| u.take());
    }
}

struct SeqTokens {
    level: ConcurrencyLevel,
    dq: usize,
    dt: usize,
}

struct UafDetected;

impl SeqTokens {
    fn live_of(&self, st: &SSt, issuer: usize, writer: bool) -> u64 {
        let mut n = st.held.iter().filter(|(_, m)| m.issuer == issuer && m.writer == writer).count() as u64;
        for c in [&st.cache_r, &st.cache_w].into_iter().flatten() {
            if c.issuer == issuer && c.writer == writer {
                n += 1;
            }
        }
        n
    }
    /// run a closure that may drop tokens; a release that would touch a dead manager unwinds with UafDetected
    fn guarded<T>(&self, st: &SSt, what: &str, f: impl FnOnce() -> T) -> Result<T, Fail> {
        let r = std::panic::catch_unwind(std::panic::AssertUnwindSafe(f));
        match r {
            Ok(v) => {
                if let Some(m) = st.uaf.lock().unwrap().take() {
                    return Err(Fail::new("release_after_manager_dropped", format!("{what}: {m}")).with_class("uaf_release"));
                }
                Ok(v)
            }
            Err(p) => {
                if p.downcast_ref::<UafDetected>().is_some() {
                    let m = st.uaf.lock().unwrap().take().unwrap_or_default();
                    Err(Fail::new("release_after_manager_dropped", format!("{what}: {m}")).with_class("uaf_release"))
                } else {
                    std::panic::resume_unwind(p)
                }
            }
        }
    }
}

impl SeqSpec for SeqTokens {
    type Op = SOp;
    type St = SSt;
    fn name(&self) -> String {
        format!("TokenManager+VersionManager sequential histories [{:?}]", self.level)
    }
    fn depth(&self, tier: Tier) -> usize {
        tier.pick(self.dq, self.dt)
    }
    fn bound(&self, tier: Tier) -> String {
        format!("all single-thread histories of <= {} operations from {{new_manager(i), acquire_reader/writer(i) directly and through TokenManager (thread cache), return_to_cache(i), drop oldest token, drop newest token, clear_thread_cache, drop_manager(i)}} over two managers; observers: active counters of every live manager vs. tokens issued by it, min_version() <= version of every live token (held or cached), validate_token_version of every live token, an item retired at the oldest live version is not freed by process_safe_items(min_version()); the manager pointer dereferenced by every token release must be alive", self.depth(tier))
    }
    fn init(&self, _scratch: &Path) -> Result<SSt, Fail> {
        // the thread cache is thread-local and shared by every history run on this thread: start clean.
        // (a cached token whose manager is already gone would be released here — guard it)
        let mgr_addr = Arc::new(Mutex::new(Vec::<usize>::new()));
        let uaf = Arc::new(Mutex::new(None::<String>));
        let (ma, u) = (mgr_addr.clone(), uaf.clone());
        sched::set_passive_observer(Some(Box::new(move |site, a, _b| {
            if site == "vs.cb.release" && !ma.lock().unwrap().contains(&a) {
                *u.lock().unwrap() = Some("a token release callback is about to dereference a VersionManager that has already been dropped".to_string());
                std::panic::resume_unwind(Box::new(UafDetected));
            }
        })));
        Ok(SSt {
            mgrs: vec![None, None],
            mgr_addr,
            uaf,
            held: Vec::new(),
            cache_r: None,
            cache_w: None,
            alive: vec![false, false],
            generation: vec![0, 0],
            next_uid: 0,
        })
    }
    fn ops(&self, st: &SSt) -> Vec<SOp> {
        let mut v = Vec::new();
        for i in 0..2 {
            if !st.alive[i] {
                v.push(SOp::NewMgr(i));
            }
        }
        for i in 0..2 {
            if st.alive[i] {
                v.push(SOp::AcqR(i));
                v.push(SOp::AcqW(i));
                v.push(SOp::TmAcqR(i));
                v.push(SOp::TmAcqW(i));
                if st.held.iter().any(|(_, m)| !m.writer) {
                    v.push(SOp::TmReturnR(i));
                }
                if st.held.iter().any(|(_, m)| m.writer) {
                    v.push(SOp::TmReturnW(i));
                }
            }
        }
        if !st.held.is_empty() {
            v.push(SOp::DropOldestTok);
        }
        if st.held.len() > 1 {
            v.push(SOp::DropNewestTok);
        }
        if st.cache_r.is_some() || st.cache_w.is_some() {
            v.push(SOp::ClearCache);
        }
        for i in 0..2 {
            if st.alive[i] {
                v.push(SOp::DropMgr(i));
            }
        }
        v
    }
    fn apply(&self, st: &mut SSt, op: &SOp) -> Result<(), Fail> {
        let level = self.level;
        match op.clone() {
            SOp::NewMgr(i) => {
                let tm = TokenManager::new(level);
                st.mgr_addr.lock().unwrap().push(Arc::as_ptr(tm.version_manager()) as usize);
                st.mgrs[i] = Some(tm);
                st.alive[i] = true;
                st.generation[i] += 1;
            }
            SOp::AcqR(i) | SOp::AcqW(i) => {
                let writer = matches!(op, SOp::AcqW(_));
                let vm = st.mgrs[i].as_ref().unwrap().version_manager().clone();
                let live_w = self.live_of(st, i, true);
                let uid = st.next_uid;
                st.next_uid += 1;
                if writer {
                    match vm.acquire_writer_token() {
                        Ok(t) => {
                            check!(
                                !(level == ConcurrencyLevel::OneWriteMultiRead && live_w > 0),
                                "two_writers",
                                "acquire_writer_token succeeded while {live_w} writer token(s) issued by this manager are still live"
                            );
                            let version = t.version();
                            st.held.push((RealTok::W(t), MTok { issuer: i, via: i, writer: true, uid, version }));
                        }
                        Err(_) => {
                            check!(
                                level == ConcurrencyLevel::OneWriteMultiRead && live_w > 0,
                                "writer_refused_without_live_writer",
                                "acquire_writer_token was refused although no writer token of this manager is live"
                            );
                        }
                    }
                } else {
                    match vm.acquire_reader_token() {
                        Ok(t) => {
                            let version = t.version();
                            st.held.push((RealTok::R(t), MTok { issuer: i, via: i, writer: false, uid, version }))
                        }
                        Err(e) => return Err(Fail::new("reader_refused", format!("acquire_reader_token failed: {e}"))),
                    }
                }
            }
            SOp::TmAcqR(i) | SOp::TmAcqW(i) => {
                let writer = matches!(op, SOp::TmAcqW(_));
                let cached = if writer { st.cache_w.take() } else { st.cache_r.take() };
                let live_w = self.live_of(st, i, true);
                let uid = st.next_uid;
                st.next_uid += 1;
                let tm = st.mgrs[i].as_ref().unwrap();
                if writer {
                    match tm.acquire_writer_token() {
                        Ok(t) => {
                            let m = match cached {
                                Some(mut c) => {
                                    c.via = i;
                                    c
                                }
                                None => {
                                    check!(
                                        !(level == ConcurrencyLevel::OneWriteMultiRead && live_w > 0),
                                        "two_writers",
                                        "TokenManager::acquire_writer_token issued a new writer token while {live_w} writer token(s) of this manager are live"
                                    );
                                    MTok { issuer: i, via: i, writer: true, uid, version: t.version() }
                                }
                            };
                            st.held.push((RealTok::W(t), m));
                        }
                        Err(_) => {
                            // refused: only legitimate if nothing was cached and a writer of this manager is live
                            check!(
                                cached.is_none() && level == ConcurrencyLevel::OneWriteMultiRead && live_w > 0,
                                "writer_refused_without_live_writer",
                                "TokenManager::acquire_writer_token was refused (cached={:?}, live writers of this manager={live_w})",
                                cached
                            );
                        }
                    }
                } else {
                    match tm.acquire_reader_token() {
                        Ok(t) => {
                            let m = match cached {
                                Some(mut c) => {
                                    c.via = i;
                                    c
                                }
                                None => MTok { issuer: i, via: i, writer: false, uid, version: t.version() },
                            };
                            st.held.push((RealTok::R(t), m));
                        }
                        Err(e) => return Err(Fail::new("reader_refused", format!("TokenManager::acquire_reader_token failed: {e}"))),
                    }
                }
            }
            SOp::TmReturnR(i) | SOp::TmReturnW(i) => {
                let writer = matches!(op, SOp::TmReturnW(_));
                let pos = st.held.iter().position(|(_, m)| m.writer == writer).unwrap();
                let (real, m) = st.held.remove(pos);
                // the token previously cached (if any) is dropped by the cache
                let uaf = st.uaf.clone();
                let _ = uaf;
                let tm_ptr: *const TokenManager = st.mgrs[i].as_ref().unwrap();
                self.guarded(st, "return_*_token (replaces and drops the previously cached token)", || {
                    let tm = unsafe { &*tm_ptr };
                    match real {
                        RealTok::R(t) => tm.return_reader_token(t),
                        RealTok::W(t) => tm.return_writer_token(t),
                    }
                })?;
                if writer {
                    st.cache_w = Some(m);
                } else {
                    st.cache_r = Some(m);
                }
            }
            SOp::DropOldestTok => {
                let (real, _m) = st.held.remove(0);
                self.guarded(st, "drop(token)", move || drop(real))?;
            }
            SOp::DropNewestTok => {
                let (real, _m) = st.held.pop().unwrap();
                self.guarded(st, "drop(token)", move || drop(real))?;
            }
            SOp::ClearCache => {
                st.cache_r = None;
                st.cache_w = None;
                // any live manager can be used to clear the (global, thread-local) cache; if none is alive use a fresh one
                let tmp;
                let tm: &TokenManager = match st.mgrs.iter().flatten().next() {
                    Some(t) => t,
                    None => {
                        tmp = TokenManager::new(level);
                        &tmp
                    }
                };
                let tm_ptr: *const TokenManager = tm;
                self.guarded(st, "clear_thread_cache", || unsafe { &*tm_ptr }.clear_thread_cache())?;
            }
            SOp::DropMgr(i) => {
                let tm = st.mgrs[i].take().unwrap();
                let addr = Arc::as_ptr(tm.version_manager()) as usize;
                drop(tm);
                st.mgr_addr.lock().unwrap().retain(|a| *a != addr);
                st.alive[i] = false;
            }
        }
        Ok(())
    }
    fn observe(&self, st: &mut SSt, h: &mut DefaultHasher) -> Result<(), Fail> {
        st.alive.hash(h);
        st.cache_r.hash(h);
        st.cache_w.hash(h);
        for (_, m) in &st.held {
            m.hash(h);
        }
        for i in 0..2 {
            if !st.alive[i] {
                continue;
            }
            let vm = st.mgrs[i].as_ref().unwrap().version_manager();
            let (r, w) = (self.live_of(st, i, false), self.live_of(st, i, true));
            // tokens issued by an earlier incarnation of slot i are not this manager's: live_of counts by slot, so only
            // compare when no token of a dropped incarnation is around (tracked by uid ranges is overkill: skip if generation>1)
            if st.generation[i] == 1 {
                check!(
                    vm.active_readers() == r && vm.active_writers() == w,
                    "active_count_mismatch",
                    "manager {i}: active_readers()={} active_writers()={} but live tokens issued by it (held or cached): {r} readers, {w} writers",
                    vm.active_readers(),
                    vm.active_writers()
                );
            }
            // nothing reclaimed while still visible: min_version() never overtakes a live token of this manager, every
            // live token validates, and an item retired at or after a live token's version is not handed to the free callback
            if st.generation[i] == 1 {
                let live: Vec<&MTok> = st.held.iter().map(|(_, m)| m).chain(st.cache_r.iter()).chain(st.cache_w.iter()).filter(|m| m.issuer == i).collect();
                let min = vm.min_version();
                for m in &live {
                    check!(
                        min <= m.version,
                        "min_version_gt_live",
                        "manager {i}: min_version() = {min} exceeds the version {} of a live {} token (held or cached)",
                        m.version,
                        if m.writer { "writer" } else { "reader" }
                    );
                    check!(vm.validate_token_version(m.version), "live_token_invalid", "manager {i}: validate_token_version({}) is false for a live token (min {min}, current {})", m.version, vm.current_version());
                }
                if let Some(oldest) = live.iter().map(|m| m.version).min() {
                    let mut list = LazyFreeList::new();
                    list.push(LazyFreeItem::new(oldest, 0, 8));
                    let mut freed = false;
                    list.process_safe_items(min, |_| freed = true);
                    check!(!freed, "freed_while_visible", "manager {i}: an item retired at version {oldest} was freed with min_version {min} while a token of that version is live");
                }
                check!(min <= vm.current_version(), "min_version_gt_current", "manager {i}: min_version {min} > current_version {}", vm.current_version());
            }
            // writer exclusion as seen through manager i's API
            if self.level == ConcurrencyLevel::OneWriteMultiRead {
                let handed = st.held.iter().filter(|(_, m)| m.writer && m.via == i).count();
                check!(handed <= 1, "two_writers", "{handed} writer tokens handed out through manager {i}'s API are live at the same time (OneWriteMultiRead)");
            }
        }
        Ok(())
    }
    fn finish(&self, mut st: SSt) -> Result<(), Fail> {
        // end of history: drop tokens, clear the cache (so the next history starts clean), then the managers
        let held = std::mem::take(&mut st.held);
        let r1 = self.guarded(&st, "drop(remaining tokens)", move || drop(held));
        let tmp = TokenManager::new(self.level);
        let r2 = self.guarded(&st, "clear_thread_cache at end of history", || tmp.clear_thread_cache());
        sched::set_passive_observer(None);
        // the findings above are already covered by the same clause earlier in richer form; a failure here is still a failure
        r1?;
        r2?;
        Ok(())
    }
}

// ------------------------------------------------------------------------------------------------
// auxiliary: free-running stress of the token protocol (SAMPLING — see zverif::stress)

fn token_stress(level: ConcurrencyLevel, budget: std::time::Duration) -> Result<u64, Fail> {
    use std::sync::atomic::{AtomicBool, AtomicU64, AtomicUsize, Ordering::SeqCst};
    let mgr = Arc::new(VersionManager::new(level));
    let stop = Arc::new(AtomicBool::new(false));
    let fail: Arc<Mutex<Option<Fail>>> = Arc::new(Mutex::new(None));
    let iters = Arc::new(AtomicU64::new(0));
    let writers_live = Arc::new(AtomicUsize::new(0));
    let exclusive = level == ConcurrencyLevel::OneWriteMultiRead;
    let report = |fail: &Mutex<Option<Fail>>, stop: &AtomicBool, f: Fail| {
        let mut g = fail.lock().unwrap();
        if g.is_none() {
            *g = Some(f);
        }
        stop.store(true, SeqCst);
    };
    let mut hs = Vec::new();
    for tid in 0..4usize {
        let (mgr, stop, fail, iters, writers_live) = (mgr.clone(), stop.clone(), fail.clone(), iters.clone(), writers_live.clone());
        hs.push(std::thread::spawn(move || {
            let mut n = 0u64;
            while !stop.load(SeqCst) {
                n += 1;
                // thread 0 holds a reader and looks at what the manager says about it; threads 1, 2 churn readers; thread 3 writers
                if tid < 3 {
                    let Ok(t) = mgr.acquire_reader_token() else { continue };
                    if tid == 0 {
                        let (ar, mv, v) = (mgr.active_readers(), mgr.min_version(), t.version());
                        if ar == 0 {
                            report(&fail, &stop, Fail::new("active_count_mismatch", format!("a thread holds a live reader token (version {v}) while active_readers() = 0")).with_class("stress"));
                        } else if mv > v {
                            let mut list = LazyFreeList::new();
                            list.push(LazyFreeItem::new(v, 0, 8));
                            let mut freed = 0;
                            list.process_safe_items(mv, |_| freed += 1);
                            report(&fail, &stop, Fail::new("min_version_gt_live", format!("min_version() = {mv} exceeds the version {v} of a live reader token held by the observing thread ({freed} item retired at that version reached the free callback)")).with_class("stress"));
                        }
                    }
                    drop(t);
                } else {
                    match mgr.acquire_writer_token() {
                        Ok(t) => {
                            let others = writers_live.fetch_add(1, SeqCst);
                            let (aw, mv, v) = (mgr.active_writers(), mgr.min_version(), t.version());
                            if exclusive && others != 0 {
                                report(&fail, &stop, Fail::new("two_writers", "two writer tokens live at the same time in OneWriteMultiRead mode".to_string()).with_class("stress"));
                            } else if aw == 0 {
                                report(&fail, &stop, Fail::new("active_count_mismatch", format!("a thread holds a live writer token (version {v}) while active_writers() = 0")).with_class("stress"));
                            } else if mv > v {
                                report(&fail, &stop, Fail::new("min_version_gt_live", format!("min_version() = {mv} exceeds the version {v} of a live writer token held by the observing thread")).with_class("stress"));
                            }
                            writers_live.fetch_sub(1, SeqCst);
                            drop(t);
                        }
                        Err(_) => {}
                    }
                }
            }
            iters.fetch_add(n, SeqCst);
        }));
    }
    // a second writer thread only where two writers may coexist is not needed for the oracles above
    std::thread::sleep(budget);
    stop.store(true, SeqCst);
    for h in hs {
        let _ = h.join();
    }
    if let Some(f) = fail.lock().unwrap().take() {
        return Err(f);
    }
    let (r, w) = (mgr.active_readers(), mgr.active_writers());
    if r != 0 || w != 0 {
        return Err(Fail::new("counts_not_zero_at_quiescence", format!("all threads joined and every token dropped, but active_readers() = {r}, active_writers() = {w}")).with_class("stress"));
    }
    Ok(iters.load(SeqCst))
}

// ------------------------------------------------------------------------------------------------
// thread-exit histories: a worker thread uses the token cache and EXITS (no clear_thread_cache); after the join the manager,
// which outlives it, must count no token and must hand out a writer again

struct ThreadExit {
    level: ConcurrencyLevel,
    lname: &'static str,
}

const TE_OPS: [&str; 4] = ["with_reader_token", "with_writer_token", "acquire_reader+return_to_cache", "acquire_writer+return_to_cache"];

impl ThreadExit {
    fn run(&self, ops: &[usize], workers: usize) -> Result<(), Fail> {
        let tm = Arc::new(TokenManager::new(self.level));
        for w in 0..workers {
            let tm2 = tm.clone();
            let ops2 = ops.to_vec();
            let h = std::thread::spawn(move || {
                for op in ops2 {
                    match op {
                        0 => {
                            let _ = zipora::fsa::token::with_reader_token(&tm2, |_t| Ok(()));
                        }
                        1 => {
                            let _ = zipora::fsa::token::with_writer_token(&tm2, |_t| Ok(()));
                        }
                        2 => {
                            if let Ok(t) = tm2.acquire_reader_token() {
                                tm2.return_reader_token(t);
                            }
                        }
                        _ => {
                            if let Ok(t) = tm2.acquire_writer_token() {
                                tm2.return_writer_token(t);
                            }
                        }
                    }
                }
                // the thread ends here with whatever it parked in its TOKEN_CACHE
            });
            if h.join().is_err() {
                return Err(Fail::new("panic", format!("worker {w} panicked")).with_class("thread_exit"));
            }
            let mgr = tm.version_manager();
            let (r, wr) = (mgr.active_readers(), mgr.active_writers());
            check!(
                r == 0 && wr == 0,
                "counts_not_zero_at_quiescence",
                "worker {w} ran {:?} and exited; no token is live, but the manager reports active_readers() = {r}, active_writers() = {wr} (tokens parked in the exited thread's cache were never released)",
                ops.iter().map(|o| TE_OPS[*o]).collect::<Vec<_>>()
            );
        }
        let mgr = tm.version_manager();
        match mgr.acquire_writer_token() {
            Ok(t) => drop(t),
            Err(e) => {
                return Err(Fail::new("writer_refused_at_quiescence", format!("every worker has exited and no token is live, but acquire_writer_token() is refused: {e}")).with_class("thread_exit"));
            }
        }
        check!(mgr.min_version() <= mgr.current_version(), "min_version_gt_current", "min_version {} > current_version {}", mgr.min_version(), mgr.current_version());
        Ok(())
    }
    fn histories() -> Vec<Vec<usize>> {
        let mut out: Vec<Vec<usize>> = Vec::new();
        let mut level: Vec<Vec<usize>> = vec![vec![]];
        for _ in 0..3 {
            let mut next = Vec::new();
            for s in &level {
                for a in 0..TE_OPS.len() {
                    let mut t = s.clone();
                    t.push(a);
                    next.push(t);
                }
            }
            out.extend(next.iter().cloned());
            level = next;
        }
        out
    }
}

impl zverif::Subject for ThreadExit {
    fn name(&self) -> String {
        format!("TokenManager[{}] thread-exit histories", self.lname)
    }
    fn explore(&self, ctx: &mut zverif::Ctx) {
        let name = zverif::Subject::name(self);
        ctx.stats(&name).bound = format!("every sequence of 1..3 operations from {:?} run by a worker thread that then EXITS without clearing its token cache, for 1 worker and for 2 workers one after the other; after each join: active_readers() = active_writers() = 0; at the end a writer token can be acquired", TE_OPS);
        for ops in Self::histories() {
            for workers in [1usize, 2] {
                if !ctx.take_unit() {
                    continue;
                }
                ctx.journal(&name, &|| zverif::json!({"ops": ops, "workers": workers}));
                let st = ctx.stats(&name);
                st.executions += 1;
                st.transitions += (ops.len() * workers) as u64;
                match zverif::util::catch(|| self.run(&ops, workers)) {
                    Ok(Ok(())) => {
                        *ctx.stats(&name).outcomes.entry("ok".into()).or_insert(0) += 1;
                        ctx.add_state(&name, zverif::util::h64(&(&ops, workers)));
                    }
                    Ok(Err(f)) | Err(f) => {
                        *ctx.stats(&name).outcomes.entry(format!("fail:{}:{}", f.clause, f.class)).or_insert(0) += 1;
                        ctx.violation(&name, &f, zverif::json!({"ops": ops, "workers": workers}));
                    }
                }
            }
        }
    }
    fn replay(&self, _ctx: &mut zverif::Ctx, witness: &zverif::Value) -> zverif::Verdict {
        let ops: Vec<usize> = witness.get("ops").and_then(|o| o.as_array()).map(|a| a.iter().map(|x| x.as_u64().unwrap_or(0) as usize).collect()).unwrap_or_default();
        let workers = witness.get("workers").and_then(|w| w.as_u64()).unwrap_or(1) as usize;
        match zverif::util::catch(|| self.run(&ops, workers)) {
            Ok(Ok(())) => zverif::Verdict::Pass,
            Ok(Err(f)) | Err(f) => zverif::Verdict::Fail(f),
        }
    }
}

// ---------------------------------------------------------------------------------------------
// LazyFreeList with more than one retired item, in ANY order of ages (push() does not sort: writers that buffer their
// retirements hand them over late, so a younger item can sit in front of older ones): process_safe_items may free
// less than it could, never more — nothing whose age is not below min_version, i.e. still visible to a live token.

#[derive(Clone, Debug, Hash, serde::Serialize, serde::Deserialize)]
pub struct LazyCase {
    ages: Vec<u8>,
    /// 0 = LazyFreeList::new() (default threshold), n = with_bulk_threshold(n)
    threshold: u8,
    min_version: u8,
    /// call process_safe_items a second time with min_version + 1
    twice: bool,
}

pub struct LazyQueues;

impl zverif::enumr::EnumSpec for LazyQueues {
    type Case = LazyCase;
    fn name(&self) -> String {
        "LazyFreeList[queues in any order]".to_string()
    }
    fn space(&self, tier: Tier) -> String {
        format!(
            "all sequences of <= {} pushed ages over {{1,2,3,5}} (sorted, unsorted, with duplicates) x LazyFreeList::new / with_bulk_threshold in {{1,2,3}} x min_version in 0..=6 x {{one call, a second call with min_version+1}}: every item handed to the callback has age < min_version, no item is handed over twice, freed + still queued = pushed (len()), the return value counts the callbacks, and at most bulk_threshold items per call",
            if tier == Tier::Thorough { 6 } else { 5 }
        )
    }
    fn cases(&self, tier: Tier, f: &mut dyn FnMut(LazyCase) -> bool) {
        let n = if tier == Tier::Thorough { 6 } else { 5 };
        let alpha = [1u8, 2, 3, 5];
        let mut go = true;
        zverif::util::all_strings(&alpha, n, &mut |ages| {
            for threshold in 0..=3u8 {
                for min_version in 0..=6u8 {
                    for twice in [false, true] {
                        if !f(LazyCase { ages: ages.to_vec(), threshold, min_version, twice }) {
                            go = false;
                            return false;
                        }
                    }
                }
            }
            true
        });
        let _ = go;
    }
    fn run(&self, c: &LazyCase) -> zverif::Outcome {
        let mut list = if c.threshold == 0 { LazyFreeList::new() } else { LazyFreeList::with_bulk_threshold(c.threshold as usize) };
        for (i, &a) in c.ages.iter().enumerate() {
            list.push(LazyFreeItem::new(a as u64, i as u32, 8));
        }
        let mut seen = vec![false; c.ages.len()];
        let mut total = 0usize;
        let rounds: Vec<u64> = if c.twice { vec![c.min_version as u64, c.min_version as u64 + 1] } else { vec![c.min_version as u64] };
        for mv in rounds {
            let mut freed: Vec<LazyFreeItem> = Vec::new();
            let ret = list.process_safe_items(mv, |it| freed.push(it));
            if ret != freed.len() {
                return zverif::enumr::fail("reclaim", "return_value", format!("process_safe_items({mv}) returned {ret} but called the callback {} times", freed.len()));
            }
            if c.threshold > 0 && freed.len() > c.threshold as usize {
                return zverif::enumr::fail("reclaim", "more_than_bulk_threshold", format!("process_safe_items({mv}) freed {} items with bulk_threshold {}", freed.len(), c.threshold));
            }
            for it in &freed {
                let i = it.memory_offset as usize;
                if i >= seen.len() || it.age != c.ages[i] as u64 {
                    return zverif::enumr::fail("reclaim", "unknown_item", format!("the callback received {it:?}, which was never pushed (ages {:?})", c.ages));
                }
                if it.age >= mv {
                    return zverif::enumr::fail("reclaim", "freed_while_visible", format!("queue ages {:?}: process_safe_items({mv}) handed {it:?} to the free callback although its age is not below {mv} (a token of that version can still see it)", c.ages));
                }
                if seen[i] {
                    return zverif::enumr::fail("reclaim", "freed_twice", format!("item #{i} (age {}) was handed to the callback twice", it.age));
                }
                seen[i] = true;
            }
            total += freed.len();
            if list.len() + total != c.ages.len() {
                return zverif::enumr::fail("reclaim", "items_lost", format!("{} pushed, {total} freed, {} still queued", c.ages.len(), list.len()));
            }
        }
        let sorted = c.ages.windows(2).all(|w| w[0] <= w[1]);
        if c.ages.is_empty() {
            zverif::Outcome::trivial("empty")
        } else {
            zverif::Outcome::pass(&format!("{}/{}", if sorted { "sorted" } else { "unsorted" }, if total == 0 { "none_freed" } else if total == c.ages.len() { "all_freed" } else { "some_freed" }))
        }
    }
}

fn main() {
    use Act::*;
    zverif::main_with("C16", |reg, _tier| {
        let owmr = ConcurrencyLevel::OneWriteMultiRead;
        let mwmr = ConcurrencyLevel::MultiWriteMultiRead;
        reg.add(Sched(VmSpec { name: "VersionManager[OneWriteMultiRead] W2: two writers", level: owmr, threads: vec![vec![AcqW, DropOldest], vec![AcqW, DropOldest]], bound_quick: 3, bound_thorough: 3 }));
        reg.add(Sched(VmSpec {
            name: "VersionManager[OneWriteMultiRead] R2: readers acquire/release",
            level: owmr,
            threads: vec![vec![AcqR, DropOldest], vec![AcqR, DropOldest, AcqR, DropOldest]],
            bound_quick: 3,
            bound_thorough: 4,
        }));
        reg.add(Sched(VmSpec {
            name: "VersionManager[OneWriteMultiRead] RW3: reader, writer, reclaimer",
            level: owmr,
            threads: vec![vec![AcqR, DropOldest], vec![AcqW, DropOldest], vec![Retire]],
            bound_quick: 3,
            bound_thorough: 4,
        }));
        reg.add(Sched(VmSpec {
            name: "VersionManager[MultiWriteMultiRead] RW3: reader, writer, reclaimer",
            level: mwmr,
            threads: vec![vec![AcqR, DropOldest], vec![AcqW, DropOldest], vec![Retire]],
            bound_quick: 3,
            bound_thorough: 4,
        }));
        reg.add(Sched(VmSpec {
            name: "VersionManager[MultiWriteMultiRead] W2: two writers allowed",
            level: mwmr,
            threads: vec![vec![AcqW, DropOldest], vec![AcqW, AcqW, DropOldest, DropOldest]],
            bound_quick: 3,
            bound_thorough: 4,
        }));
        reg.add(Sched(VmSpec {
            name: "TokenManager[OneWriteMultiRead] with_reader/with_writer through the thread cache",
            level: owmr,
            threads: vec![vec![TmWithR, TmWithW, TmClear], vec![TmWithW, TmClear, TmWithR]],
            bound_quick: 3,
            bound_thorough: 4,
        }));
        reg.add(Sched(VmSpec {
            name: "VersionManager[OneWriteMultiRead] W3: two writers and a reader",
            level: owmr,
            threads: vec![vec![AcqW, DropOldest], vec![AcqW, DropOldest], vec![AcqR, Retire, DropOldest]],
            bound_quick: 2,
            bound_thorough: 3,
        }));
        reg.add(Sched(VmSpec {
            name: "VersionManager[OneWriteMultiRead] WW: a writer re-acquires while another waits",
            level: owmr,
            threads: vec![vec![AcqW, DropOldest, AcqW, DropOldest], vec![AcqW, DropOldest]],
            bound_quick: 3,
            bound_thorough: 4,
        }));
        // third session: the cache path at the level without writer exclusion; readers only with a reclaimer in between;
        // a reader that retires + reclaims while writers come and go; a token kept across the other thread's whole program
        reg.add(Sched(VmSpec {
            name: "TokenManager[MultiWriteMultiRead] with_reader/with_writer through the thread cache",
            level: mwmr,
            threads: vec![vec![TmWithW, TmWithR, TmClear], vec![TmWithW, TmClear, TmWithW]],
            bound_quick: 2,
            bound_thorough: 4,
        }));
        reg.add(Sched(VmSpec {
            name: "VersionManager[MultiWriteMultiRead] R3: two readers and a reclaimer that also reads",
            level: mwmr,
            threads: vec![vec![AcqR, DropOldest, AcqR, DropOldest], vec![AcqR, DropOldest], vec![AcqR, Retire, DropOldest, Retire]],
            bound_quick: 2,
            bound_thorough: 3,
        }));
        reg.add(Sched(VmSpec {
            name: "VersionManager[OneWriteMultiRead] RK: a reader keeps its token while a writer cycles twice and reclaims",
            level: owmr,
            threads: vec![vec![AcqR, Retire, DropOldest], vec![AcqW, DropOldest, Retire, AcqW, DropOldest, Retire]],
            bound_quick: 2,
            bound_thorough: 4,
        }));
        reg.add(Sched(VmSpec {
            name: "TokenManager+VersionManager[OneWriteMultiRead] MIX: cached tokens on one thread, direct tokens on the other",
            level: owmr,
            threads: vec![vec![TmWithR, TmWithW, TmWithR], vec![AcqR, AcqW, DropOldest, DropOldest]],
            bound_quick: 2,
            bound_thorough: 3,
        }));
        for (lvl, lname) in [(owmr, "OneWriteMultiRead"), (mwmr, "MultiWriteMultiRead")] {
            reg.add(zverif::stress::Stress(zverif::stress::StressSpec {
                name: format!("VersionManager[{lname}] free-running stress (sampling)"),
                describe: "4 uncontrolled threads (a reader that checks active_readers() >= 1 and min_version() <= its own token's version, two reader churners, a writer that checks exclusion / its own count / min_version); after join both counters must be zero. Catches races INSIDE one schedule step of E3 (e.g. a read-modify-write split into load + store)".into(),
                run: Box::new(move |d| token_stress(lvl, d)),
                budget_quick_ms: 1200,
                budget_thorough_ms: 15000,
            }));
        }
        reg.add(zverif::enumr::Enum(LazyQueues));
        reg.add(ThreadExit { level: owmr, lname: "OneWriteMultiRead" });
        reg.add(ThreadExit { level: mwmr, lname: "MultiWriteMultiRead" });
        reg.add(Seq(SeqTokens { level: owmr, dq: 4, dt: 5 }));
        reg.add(Seq(SeqTokens { level: mwmr, dq: 3, dt: 4 }));
        reg.add(Seq(SeqTokens { level: ConcurrencyLevel::SingleThreadShared, dq: 4, dt: 5 }));
        // the unsynchronised level takes its own branch in acquire_*_token (no mutex, constant version 1)
        reg.add(Seq(SeqTokens { level: ConcurrencyLevel::SingleThreadStrict, dq: 3, dt: 4 }));
    });
}
