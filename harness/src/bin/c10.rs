//! C10 — vectors, queues and string vectors match their standard-library models (engine E1).
//!
//! Three spec families, all stepping the real container and a std model in lock-step:
//!   * `ContSpec`  — FastVec, ValVec32, CacheAlignedVec, BumpVec, PooledVec, MmapVec against `Vec<id>`;
//!                   FixedCircularQueue, AutoGrowCircularQueue against `VecDeque<id>`
//!   * `StrSpec`   — SortableStrVec, FixedLenStrVec<N>, BitPackedStringVec, AdvancedStringVec,
//!                   ZoSortedStrVec against `Vec<String>` (or the sorted, de-duplicated list)
//! Elements are `zverif::model::Tracked` (own heap memory, count drops) wherever the container
//! accepts non-Copy elements; the registry is compared with the model after *every* step and must be
//! empty after the container is dropped.
//!
//! After a violation (or a panic inside an operation) the container is leaked, never dropped: a
//! container whose bookkeeping is already wrong may hold bitwise duplicates or uninitialised slots.

use std::collections::hash_map::DefaultHasher;
use std::collections::VecDeque;
use std::fmt;
use std::hash::Hash;
use std::path::{Path, PathBuf};

use zverif::model::{DropRegistry, Tracked};
use zverif::seq::{Seq, SeqSpec};
use zverif::{Fail, Tier};

use zipora::containers::specialized::{AutoGrowCircularQueue, FixedCircularQueue, ValVec32};
use zipora::containers::FastVec;
use zipora::memory::bump::{BumpAllocator, BumpVec};
use zipora::memory::cache::CacheAlignedVec;
use zipora::memory::cache_layout::{AccessPattern, CacheAlignedVec as LayoutVec};
use zipora::memory::mmap_vec::{MmapVec, MmapVecConfig};
use zipora::memory::pool::PooledVec;

#[path = "c10/strs.rs"]
mod strs;

// =================================================================================================
// elements
// =================================================================================================

pub trait Elem: Clone + PartialEq + 'static {
    fn mk(reg: &DropRegistry, id: u64) -> Self;
    fn id(&self) -> u64;
    fn ok(&self) -> bool;
    const TRACKED: bool;
}
impl Elem for Tracked {
    fn mk(reg: &DropRegistry, id: u64) -> Self {
        reg.make(id)
    }
    fn id(&self) -> u64 {
        self.id
    }
    fn ok(&self) -> bool {
        self.is_valid()
    }
    const TRACKED: bool = true;
}
impl Elem for u64 {
    fn mk(_reg: &DropRegistry, id: u64) -> Self {
        id
    }
    fn id(&self) -> u64 {
        *self
    }
    fn ok(&self) -> bool {
        true
    }
    const TRACKED: bool = false;
}

impl Elem for u8 {
    fn mk(_reg: &DropRegistry, id: u64) -> Self {
        id as u8
    }
    fn id(&self) -> u64 {
        *self as u64
    }
    fn ok(&self) -> bool {
        true
    }
    const TRACKED: bool = false;
}
/// zero-sized elements: all carry id 0
impl Elem for () {
    fn mk(_reg: &DropRegistry, _id: u64) -> Self {}
    fn id(&self) -> u64 {
        0
    }
    fn ok(&self) -> bool {
        true
    }
    const TRACKED: bool = false;
}

// =================================================================================================
// operations
// =================================================================================================

#[derive(Clone, Copy, Debug, PartialEq, Eq)]
pub enum Pos {
    Front,
    Mid,
    /// index len-1 (remove/set) resp. len (insert)
    End,
    /// first index that is out of range: len (remove/set/get) resp. len+1 (insert)
    Past,
}

#[derive(Clone, Copy, Debug, PartialEq, Eq)]
pub enum Len {
    Zero,
    Minus1,
    Plus2,
    /// (audit) enough one-byte elements to cross the 64-byte SIMD threshold of the fill paths
    Plus70,
}

#[derive(Clone, Copy, Debug, PartialEq, Eq)]
pub enum COp {
    // vectors
    Push,
    Pop,
    Insert(Pos),
    Remove(Pos),
    Resize(Len),
    ResizeWith(Len),
    Truncate(Len),
    Extend2,
    /// bulk append of n fresh elements from a slice
    ExtendSlice(usize),
    /// n copies of one value
    PushN(usize),
    /// replace the whole content by n fresh elements (assign-from-slice APIs)
    Assign(usize),
    /// overwrite every element with one value
    FillAll,
    Set(Pos),
    Clear,
    Shrink,
    Reserve(usize),
    CloneSwap,
    PopN(usize),
    // queues
    PushBack,
    PopFront,
    PushBulk(usize),
    PopBulk(usize),
    // appended by the coverage audit
    /// extend(iterator of n fresh elements)
    ExtendIter(usize),
    /// the alternative entry point for appending one element (push_panic / unchecked_push / push() of a queue)
    PushAlt,
    /// the alternative entry point for taking one element (pop() of a queue)
    PopAlt,
    /// fill the sub-range 1..len-1 with one value
    FillMid,
    /// fill 0..len+1: out of range, must be refused and change nothing
    FillPast,
}

/// What an operation reported.
#[derive(Clone, Debug, PartialEq, Eq)]
pub enum Ret {
    /// the container does not offer this operation
    NotOffered,
    /// infallible operation
    Done,
    Ok,
    Err,
    Val(Option<u64>),
    ResVal(Result<u64, ()>),
    Vals(Result<Vec<u64>, ()>),
}

pub struct Obs {
    pub len: usize,
    pub is_empty: bool,
    pub cap: Option<usize>,
    /// the whole sequence through as_slice()/iter(), with per-element validity
    pub items: Option<Vec<(u64, bool)>>,
    /// get(i) for i in 0..=len+1
    pub gets: Option<Vec<Option<u64>>>,
    pub front: Option<Option<u64>>,
    pub back: Option<Option<u64>>,
    /// (audit) further views of the whole sequence (iterators, Deref, ...), each compared with the model
    pub alt: Vec<(&'static str, Vec<u64>)>,
    /// (audit) named boolean observers and what they answered; the expectation is computed from the model
    pub claims: Vec<(&'static str, bool, Claim)>,
}

/// what the model says a boolean observer must answer
#[derive(Clone, Copy, Debug, PartialEq, Eq)]
pub enum Claim {
    True,
    /// true iff the container holds exactly this many elements
    LenIs(usize),
}

pub struct Cx<'a> {
    pub reg: &'a DropRegistry,
    /// fresh ids reserved for this operation
    pub ids: &'a [u64],
    pub scratch: &'a Path,
}

pub trait Cont {
    fn apply(&mut self, op: COp, cx: &Cx) -> Ret;
    fn observe(&self) -> Obs;
    fn try_clone(&self) -> Option<Box<dyn Cont>> {
        None
    }
    /// remove everything through the container's own pop operation; `None` = no such operation
    fn drain(&mut self) -> Option<Vec<u64>> {
        None
    }
}

fn idx_rm(p: Pos, len: usize) -> usize {
    match p {
        Pos::Front => 0,
        Pos::Mid => len / 2,
        Pos::End => len.saturating_sub(1),
        Pos::Past => len,
    }
}
fn idx_ins(p: Pos, len: usize) -> usize {
    match p {
        Pos::Front => 0,
        Pos::Mid => len / 2,
        Pos::End => len,
        Pos::Past => len + 1,
    }
}
fn new_len(l: Len, len: usize) -> usize {
    match l {
        Len::Zero => 0,
        Len::Minus1 => len.saturating_sub(1),
        Len::Plus2 => len + 2,
        Len::Plus70 => len + 70,
    }
}
fn r<E>(x: Result<(), E>) -> Ret {
    if x.is_ok() {
        Ret::Ok
    } else {
        Ret::Err
    }
}
fn items<E: Elem>(s: &[E]) -> Vec<(u64, bool)> {
    s.iter().map(|e| (e.id(), e.ok())).collect()
}
fn fresh<E: Elem>(cx: &Cx, n: usize) -> Vec<E> {
    cx.ids[..n].iter().map(|&i| E::mk(cx.reg, i)).collect()
}

// ---- FastVec ------------------------------------------------------------------------------------

struct FastVecAd<E: Elem>(FastVec<E>);

/// start/end of the "middle" range used by FillMid (empty when fewer than two elements)
fn mid_range(len: usize) -> (usize, usize) {
    if len >= 2 {
        (1, len - 1)
    } else {
        (len, len)
    }
}

/// the T: Copy bulk API of FastVec
fn fastvec_copy_ops<T: Copy>(v: &mut FastVec<T>, op: COp, vals: &[T]) -> Ret {
    let l = v.len();
    match op {
        COp::ExtendSlice(n) => r(v.extend_from_slice_fast(&vals[..n])),
        COp::Assign(n) => r(v.copy_from_slice_fast(&vals[..n])),
        COp::FillAll => r(v.fill_range_fast(0, l, vals[0])),
        COp::FillMid => {
            let (a, b) = mid_range(l);
            r(v.fill_range_fast(a, b, vals[0]))
        }
        COp::FillPast => r(v.fill_range_fast(0, l + 1, vals[0])),
        _ => Ret::NotOffered,
    }
}

impl<E: Elem> FastVecAd<E> {
    fn copy_ops(&mut self, op: COp, cx: &Cx) -> Ret {
        // the T: Copy API, only reachable for the Copy element types
        let any: &mut dyn std::any::Any = &mut self.0;
        if let Some(v) = any.downcast_mut::<FastVec<u64>>() {
            return fastvec_copy_ops(v, op, cx.ids);
        }
        if let Some(v) = any.downcast_mut::<FastVec<u8>>() {
            let vals: Vec<u8> = cx.ids.iter().map(|&i| i as u8).collect();
            return fastvec_copy_ops(v, op, &vals);
        }
        Ret::NotOffered
    }
}

impl<E: Elem> Cont for FastVecAd<E> {
    fn apply(&mut self, op: COp, cx: &Cx) -> Ret {
        let v = &mut self.0;
        let len = v.len();
        match op {
            COp::Push => r(v.push(E::mk(cx.reg, cx.ids[0]))),
            COp::Pop => Ret::Val(v.pop().map(|e| e.id())),
            COp::Insert(p) => r(v.insert(idx_ins(p, len), E::mk(cx.reg, cx.ids[0]))),
            COp::Remove(p) => Ret::ResVal(v.remove(idx_rm(p, len)).map(|e| e.id()).map_err(|_| ())),
            COp::Resize(l) => r(v.resize(new_len(l, len), E::mk(cx.reg, cx.ids[0]))),
            COp::ResizeWith(l) => {
                let mut k = 0;
                r(v.resize_with(new_len(l, len), || {
                    k += 1;
                    E::mk(cx.reg, cx.ids[k - 1])
                }))
            }
            COp::Extend2 => r(v.extend(fresh::<E>(cx, 2))),
            COp::ExtendIter(n) => r(v.extend(fresh::<E>(cx, n))),
            COp::Clear => {
                v.clear();
                Ret::Done
            }
            COp::Shrink => r(v.shrink_to_fit()),
            // both spellings: reserve(additional) / ensure_capacity(minimum), chosen by the (deterministic) length
            COp::Reserve(k) => {
                if len % 2 == 0 {
                    r(v.reserve(k))
                } else {
                    r(v.ensure_capacity(len + k))
                }
            }
            // write through the mutable views: get_mut(i) for even ids, as_mut_slice() for odd ones
            COp::Set(p) => {
                let i = idx_rm(p, len);
                let e = E::mk(cx.reg, cx.ids[0]);
                let slot = if cx.ids[0] % 2 == 0 { v.get_mut(i) } else { v.as_mut_slice().get_mut(i) };
                match slot {
                    Some(s) => {
                        *s = e;
                        Ret::Ok
                    }
                    None => Ret::Err,
                }
            }
            COp::ExtendSlice(_) | COp::Assign(_) | COp::FillAll | COp::FillMid | COp::FillPast => self.copy_ops(op, cx),
            _ => Ret::NotOffered,
        }
    }
    fn observe(&self) -> Obs {
        let v = &self.0;
        let deref: &[E] = v;
        Obs {
            len: v.len(),
            is_empty: v.is_empty(),
            cap: Some(v.capacity()),
            items: Some(items(v.as_slice())),
            gets: Some((0..=v.len() + 1).map(|i| v.as_slice().get(i).map(|e| e.id())).collect()),
            front: Some(v.first().map(|e| e.id())),
            back: Some(v.last().map(|e| e.id())),
            alt: vec![("Deref::deref().iter()", deref.iter().map(|e| e.id()).collect())],
            claims: Vec::new(),
        }
    }
    fn try_clone(&self) -> Option<Box<dyn Cont>> {
        Some(Box::new(FastVecAd(self.0.clone())))
    }
    fn drain(&mut self) -> Option<Vec<u64>> {
        let mut out = Vec::new();
        while let Some(e) = self.0.pop() {
            out.push(e.id());
        }
        out.reverse();
        Some(out)
    }
}

// ---- ValVec32 -----------------------------------------------------------------------------------

struct ValVecAd<E: Elem>(ValVec32<E>);

impl<E: Elem> ValVecAd<E> {
    fn copy_ops(&mut self, op: COp, cx: &Cx) -> Ret {
        let any: &mut dyn std::any::Any = &mut self.0;
        let Some(v) = any.downcast_mut::<ValVec32<u64>>() else { return Ret::NotOffered };
        match op {
            COp::ExtendSlice(n) => r(v.extend_from_slice_copy(&cx.ids[..n])),
            COp::PushN(n) => r(v.push_n_copy(n as u32, cx.ids[0])),
            COp::PushAlt if v.len() < v.capacity() => {
                // precondition of the unchecked entry point: spare capacity
                unsafe { v.unchecked_push_copy(cx.ids[0]) };
                Ret::Done
            }
            _ => Ret::NotOffered,
        }
    }
}

impl<E: Elem> Cont for ValVecAd<E> {
    fn apply(&mut self, op: COp, cx: &Cx) -> Ret {
        let v = &mut self.0;
        let len = v.len() as usize;
        match op {
            COp::Push => r(v.push(E::mk(cx.reg, cx.ids[0]))),
            COp::Pop => Ret::Val(v.pop().map(|e| e.id())),
            COp::Set(p) => r(v.set(idx_rm(p, len) as u32, E::mk(cx.reg, cx.ids[0]))),
            COp::Extend2 => {
                let src = fresh::<E>(cx, 2);
                r(v.extend_from_slice(&src))
            }
            COp::Clear => {
                v.clear();
                Ret::Done
            }
            COp::Reserve(k) => r(v.reserve(k as u32)),
            COp::PushAlt => {
                // even ids: the unchecked entry point where its precondition (spare capacity) holds, Copy variant for u64;
                // otherwise push_panic (own slow path push_slow_panic)
                if cx.ids[0] % 2 == 0 && v.len() < v.capacity() {
                    if !E::TRACKED {
                        let r = self.copy_ops(op, cx);
                        if r != Ret::NotOffered {
                            return r;
                        }
                    }
                    let v = &mut self.0;
                    unsafe { v.unchecked_push(E::mk(cx.reg, cx.ids[0])) };
                } else {
                    v.push_panic(E::mk(cx.reg, cx.ids[0]));
                }
                Ret::Done
            }
            COp::ExtendSlice(_) | COp::PushN(_) => self.copy_ops(op, cx),
            _ => Ret::NotOffered,
        }
    }
    fn observe(&self) -> Obs {
        let v = &self.0;
        let n = v.len() as usize;
        Obs {
            len: n,
            is_empty: v.is_empty(),
            cap: Some(v.capacity() as usize),
            items: Some(items(v.as_slice())),
            gets: Some((0..=n + 1).map(|i| v.get(i as u32).map(|e| e.id())).collect()),
            front: None,
            back: None,
            alt: vec![("iter()", v.iter().map(|e| e.id()).collect()), ("(&v).into_iter()", v.into_iter().map(|e| e.id()).collect())],
            claims: Vec::new(),
        }
    }
    fn try_clone(&self) -> Option<Box<dyn Cont>> {
        Some(Box::new(ValVecAd(self.0.clone())))
    }
    fn drain(&mut self) -> Option<Vec<u64>> {
        let mut out = Vec::new();
        while let Some(e) = self.0.pop() {
            out.push(e.id());
        }
        out.reverse();
        Some(out)
    }
}

// ---- CacheAlignedVec ----------------------------------------------------------------------------

struct CacheVecAd<E: Elem>(CacheAlignedVec<E>);

impl<E: Elem> Cont for CacheVecAd<E> {
    fn apply(&mut self, op: COp, cx: &Cx) -> Ret {
        let v = &mut self.0;
        let len = v.len();
        match op {
            COp::Push => r(v.push(E::mk(cx.reg, cx.ids[0]))),
            COp::Pop => Ret::Val(v.pop().map(|e| e.id())),
            COp::Truncate(l) => {
                v.truncate(new_len(l, len));
                Ret::Done
            }
            COp::Clear => {
                v.clear();
                Ret::Done
            }
            COp::Reserve(k) => r(v.reserve(k)),
            // write through the mutable views: get_mut(i) for even ids, as_mut_slice() for odd ones
            COp::Set(p) => {
                let i = idx_rm(p, len);
                let e = E::mk(cx.reg, cx.ids[0]);
                let slot = if cx.ids[0] % 2 == 0 { v.get_mut(i) } else { v.as_mut_slice().get_mut(i) };
                match slot {
                    Some(s) => {
                        *s = e;
                        Ret::Ok
                    }
                    None => Ret::Err,
                }
            }
            _ => Ret::NotOffered,
        }
    }
    fn observe(&self) -> Obs {
        let v = &self.0;
        Obs {
            len: v.len(),
            is_empty: v.is_empty(),
            cap: Some(v.capacity()),
            items: Some(items(v.as_slice())),
            gets: Some((0..=v.len() + 1).map(|i| v.get(i).map(|e| e.id())).collect()),
            front: None,
            back: None,
            alt: Vec::new(),
            claims: Vec::new(),
        }
    }
    fn drain(&mut self) -> Option<Vec<u64>> {
        let mut out = Vec::new();
        while let Some(e) = self.0.pop() {
            out.push(e.id());
        }
        out.reverse();
        Some(out)
    }
}

// ---- BumpVec (fixed capacity inside a bump allocator) --------------------------------------------

struct BumpVecAd<E: Elem> {
    v: Option<BumpVec<'static, E>>,
    _a: Box<BumpAllocator>,
}

impl<E: Elem> BumpVecAd<E> {
    fn new(cap: usize) -> Result<Self, String> {
        let a = Box::new(BumpAllocator::new(4096).map_err(|e| e.to_string())?);
        // the vector borrows the boxed allocator, which is dropped after it
        let ar: &'static BumpAllocator = unsafe { &*(a.as_ref() as *const BumpAllocator) };
        let v = BumpVec::new_in(ar, cap).map_err(|e| e.to_string())?;
        Ok(BumpVecAd { v: Some(v), _a: a })
    }
}

impl<E: Elem> Drop for BumpVecAd<E> {
    fn drop(&mut self) {
        self.v.take();
    }
}

impl<E: Elem> Cont for BumpVecAd<E> {
    fn apply(&mut self, op: COp, cx: &Cx) -> Ret {
        let v = self.v.as_mut().unwrap();
        match op {
            COp::Push => r(v.push(E::mk(cx.reg, cx.ids[0]))),
            COp::Pop => Ret::Val(v.pop().map(|e| e.id())),
            _ => Ret::NotOffered,
        }
    }
    fn observe(&self) -> Obs {
        let v = self.v.as_ref().unwrap();
        Obs {
            len: v.len(),
            is_empty: v.is_empty(),
            cap: Some(v.capacity()),
            items: Some(items(v.as_slice())),
            gets: Some((0..=v.len() + 1).map(|i| v.as_slice().get(i).map(|e| e.id())).collect()),
            front: None,
            back: None,
            alt: Vec::new(),
            claims: Vec::new(),
        }
    }
    fn drain(&mut self) -> Option<Vec<u64>> {
        let v = self.v.as_mut().unwrap();
        let mut out = Vec::new();
        while let Some(e) = v.pop() {
            out.push(e.id());
        }
        out.reverse();
        Some(out)
    }
}

// ---- PooledVec (one chunk of a global pool) -------------------------------------------------------

struct PooledVecAd<E: Elem>(PooledVec<E>);

impl<E: Elem> Cont for PooledVecAd<E> {
    fn apply(&mut self, op: COp, cx: &Cx) -> Ret {
        match op {
            COp::Push => r(self.0.push(E::mk(cx.reg, cx.ids[0]))),
            _ => Ret::NotOffered,
        }
    }
    fn observe(&self) -> Obs {
        let v = &self.0;
        Obs {
            len: v.len(),
            is_empty: v.is_empty(),
            cap: Some(v.capacity()),
            items: Some(items(v.as_slice())),
            gets: Some((0..=v.len() + 1).map(|i| v.as_slice().get(i).map(|e| e.id())).collect()),
            front: None,
            back: None,
            alt: Vec::new(),
            claims: Vec::new(),
        }
    }
}

// ---- MmapVec<u64> / MmapVec<u8> ---------------------------------------------------------------------

struct MmapVecAd<E: Elem + Copy> {
    v: Option<MmapVec<E>>,
    path: PathBuf,
}

impl<E: Elem + Copy> Drop for MmapVecAd<E> {
    fn drop(&mut self) {
        self.v.take();
        let _ = std::fs::remove_file(&self.path);
    }
}

impl<E: Elem + Copy> Cont for MmapVecAd<E> {
    fn apply(&mut self, op: COp, cx: &Cx) -> Ret {
        let v = self.v.as_mut().unwrap();
        let len = v.len();
        let e0 = E::mk(cx.reg, cx.ids[0]);
        match op {
            COp::Push => r(v.push(e0)),
            COp::Pop => Ret::Val(v.pop().map(|e| e.id())),
            COp::Resize(l) => r(v.resize(new_len(l, len), e0)),
            COp::Truncate(l) => r(v.truncate(new_len(l, len))),
            COp::Extend2 => r(v.extend(fresh::<E>(cx, 2))),
            COp::ExtendSlice(n) => r(v.push_bulk_simd(&fresh::<E>(cx, n))),
            COp::PopN(n) => Ret::Vals(v.pop_bulk_simd(n).map(|x| x.iter().map(|e| e.id()).collect()).map_err(|_| ())),
            COp::FillAll => r(v.fill_range_simd(0..len, e0)),
            COp::FillMid => {
                let (a, b) = mid_range(len);
                r(v.fill_range_simd(a..b, e0))
            }
            COp::FillPast => r(v.fill_range_simd(0..len + 1, e0)),
            COp::Clear => r(v.clear()),
            COp::Shrink => r(v.shrink_to_fit()),
            COp::Reserve(k) => r(v.reserve(k)),
            COp::Set(p) => match v.get_mut(idx_rm(p, len)) {
                Some(slot) => {
                    *slot = e0;
                    Ret::Ok
                }
                None => Ret::Err,
            },
            COp::Assign(n) => {
                // copy_from_simd takes another MmapVec as the source
                let p = cx.scratch.join(format!("c10-src-{}-{}.mmv", std::process::id(), cx.ids[0]));
                let res = (|| -> Result<(), ()> {
                    let mut src = MmapVec::<E>::create(&p, MmapVecConfig { initial_capacity: 2, ..MmapVecConfig::default() }).map_err(|_| ())?;
                    for x in fresh::<E>(cx, n) {
                        src.push(x).map_err(|_| ())?;
                    }
                    v.copy_from_simd(&src).map_err(|_| ())?;
                    // the comparison observer must agree that the copy equals its source
                    match v.compare_range_simd(0..n, &src) {
                        Ok(true) => Ok(()),
                        _ => panic!("compare_range_simd(0..{n}, source) is not Ok(true) right after copy_from_simd(source)"),
                    }
                })();
                let _ = std::fs::remove_file(&p);
                r(res)
            }
            _ => Ret::NotOffered,
        }
    }
    fn observe(&self) -> Obs {
        let v = self.v.as_ref().unwrap();
        Obs {
            len: v.len(),
            is_empty: v.is_empty(),
            cap: Some(v.capacity()),
            items: Some(items(v.as_slice())),
            gets: Some((0..=v.len() + 1).map(|i| v.get(i).map(|e| e.id())).collect()),
            front: None,
            back: None,
            alt: vec![("(&v).into_iter()", v.into_iter().map(|e| e.id()).collect())],
            claims: vec![
                ("(&v).into_iter().len() == len()", v.into_iter().len() == v.len(), Claim::True),
                ("compare_range_simd(0..len, self)", matches!(v.compare_range_simd(0..v.len(), v), Ok(true)), Claim::True),
            ],
        }
    }
    fn drain(&mut self) -> Option<Vec<u64>> {
        let v = self.v.as_mut().unwrap();
        let mut out = Vec::new();
        while let Some(e) = v.pop() {
            out.push(e.id());
        }
        out.reverse();
        Some(out)
    }
}

// ---- cache_layout::CacheAlignedVec (the second type of that name: a Vec with prefetch hints) ----------

struct LayoutVecAd<E: Elem>(LayoutVec<E>);

impl<E: Elem> Cont for LayoutVecAd<E> {
    fn apply(&mut self, op: COp, cx: &Cx) -> Ret {
        match op {
            COp::Push => {
                self.0.push(E::mk(cx.reg, cx.ids[0]));
                Ret::Ok
            }
            _ => Ret::NotOffered,
        }
    }
    fn observe(&self) -> Obs {
        let v = &self.0;
        let n = v.len();
        Obs {
            len: n,
            is_empty: v.is_empty(),
            cap: None,
            items: Some(items(v.as_slice())),
            gets: Some((0..=n + 1).map(|i| v.get(i).map(|e| e.id())).collect()),
            front: None,
            back: None,
            alt: vec![
                ("slice(0..len)", v.slice(0..n).map(|s| s.iter().map(|e| e.id()).collect()).unwrap_or_else(|| vec![u64::MAX])),
                ("slice(0..1) + slice(1..len)", if n >= 1 { v.slice(0..1).into_iter().chain(v.slice(1..n)).flat_map(|s| s.iter().map(|e| e.id())).collect() } else { Vec::new() }),
            ],
            claims: vec![("slice(0..len+1).is_none()", v.slice(0..n + 1).is_none(), Claim::True)],
        }
    }
}

// ---- queues -----------------------------------------------------------------------------------------

struct FixedQAd<E: Elem, const N: usize>(FixedCircularQueue<E, N>);

impl<E: Elem, const N: usize> Cont for FixedQAd<E, N> {
    fn apply(&mut self, op: COp, cx: &Cx) -> Ret {
        match op {
            COp::PushBack => r(self.0.push_back(E::mk(cx.reg, cx.ids[0]))),
            COp::PopFront => Ret::Val(self.0.pop_front().map(|e| e.id())),
            COp::PushAlt => r(self.0.push(E::mk(cx.reg, cx.ids[0]))),
            COp::PopAlt => Ret::Val(self.0.pop().map(|e| e.id())),
            COp::Clear => {
                self.0.clear();
                Ret::Done
            }
            _ => Ret::NotOffered,
        }
    }
    fn observe(&self) -> Obs {
        let q = &self.0;
        Obs {
            len: q.len(),
            is_empty: q.is_empty(),
            cap: Some(q.capacity()),
            items: None,
            gets: None,
            front: Some(q.front().map(|e| e.id())),
            back: Some(q.back().map(|e| e.id())),
            alt: Vec::new(),
            claims: vec![("is_full()", q.is_full(), Claim::LenIs(N))],
        }
    }
    fn drain(&mut self) -> Option<Vec<u64>> {
        let mut out = Vec::new();
        while let Some(e) = self.0.pop_front() {
            out.push(e.id());
        }
        Some(out)
    }
}

struct AutoQAd<E: Elem>(AutoGrowCircularQueue<E>);

impl<E: Elem> Cont for AutoQAd<E> {
    fn apply(&mut self, op: COp, cx: &Cx) -> Ret {
        let q = &mut self.0;
        match op {
            COp::PushBack => r(q.push_back(E::mk(cx.reg, cx.ids[0]))),
            COp::PopFront => Ret::Val(q.pop_front().map(|e| e.id())),
            COp::PushAlt => r(q.push(E::mk(cx.reg, cx.ids[0]))),
            COp::PopAlt => Ret::Val(q.pop().map(|e| e.id())),
            COp::PushBulk(n) => {
                let src = fresh::<E>(cx, n);
                match q.push_bulk(&src) {
                    Ok(k) if k == n => Ret::Ok,
                    _ => Ret::Err,
                }
            }
            COp::PopBulk(n) => {
                // the output slots hold placeholders that the queue overwrites
                let mut out = fresh::<E>(cx, n);
                let k = q.pop_bulk(&mut out);
                Ret::Vals(Ok(out[..k.min(n)].iter().map(|e| e.id()).collect()))
            }
            COp::Reserve(k) => r(q.reserve(k)),
            COp::Clear => {
                q.clear();
                Ret::Done
            }
            _ => Ret::NotOffered,
        }
    }
    fn observe(&self) -> Obs {
        let q = &self.0;
        Obs {
            len: q.len(),
            is_empty: q.is_empty(),
            cap: Some(q.capacity()),
            items: None,
            gets: None,
            front: Some(q.front().map(|e| e.id())),
            back: Some(q.back().map(|e| e.id())),
            alt: Vec::new(),
            // PartialEq walks both rings with its own iterator
            claims: vec![("self == self.clone()", *q == q.clone(), Claim::True)],
        }
    }
    fn try_clone(&self) -> Option<Box<dyn Cont>> {
        Some(Box::new(AutoQAd(self.0.clone())))
    }
    fn drain(&mut self) -> Option<Vec<u64>> {
        let mut out = Vec::new();
        while let Some(e) = self.0.pop_front() {
            out.push(e.id());
        }
        Some(out)
    }
}

// =================================================================================================
// the spec
// =================================================================================================

pub struct ContSpec {
    pub name: String,
    pub make: Box<dyn Fn(&Path) -> Result<Box<dyn Cont>, String>>,
    pub alphabet: Vec<COp>,
    pub prefix: Vec<COp>,
    pub queue: bool,
    pub tracked: bool,
    /// fixed capacity: a push must succeed iff fewer than this many elements are stored
    pub fixed_cap: Option<usize>,
    pub guard_assign: bool,
    pub depth_q: usize,
    pub depth_t: usize,
    pub note: &'static str,
    /// (audit) element ids as the element type can represent them (identity; `% 256` for u8; 0 for zero-sized elements)
    pub norm: fn(u64) -> u64,
}

pub struct St {
    cont: Option<Box<dyn Cont>>,
    model: VecDeque<u64>,
    reg: DropRegistry,
    next_id: u64,
    scratch: PathBuf,
    refused: u64,
    /// variant name of the last mutator (part of the outcome class)
    last_op: String,
    /// set while the container may be inconsistent: it is leaked instead of dropped
    poison: bool,
}

impl Drop for St {
    fn drop(&mut self) {
        if self.poison {
            if let Some(c) = self.cont.take() {
                std::mem::forget(c);
            }
        }
    }
}

fn ids_needed(op: COp, len: usize) -> usize {
    match op {
        COp::Push | COp::PushBack | COp::Insert(_) | COp::Resize(_) | COp::Set(_) | COp::FillAll | COp::PushN(_) => 1,
        COp::PushAlt | COp::FillMid | COp::FillPast => 1,
        COp::ExtendIter(n) => n.max(1),
        COp::ResizeWith(l) => new_len(l, len).saturating_sub(len).max(1),
        COp::Extend2 => 2,
        COp::ExtendSlice(n) | COp::Assign(n) | COp::PushBulk(n) | COp::PopBulk(n) => n.max(1),
        _ => 1,
    }
}

/// outcome class = clause @ variant of the last mutator
fn at(mut f: Fail, last_op: &str) -> Fail {
    f.class = format!("{}@{}", f.clause, last_op);
    f
}

fn fl(clause: &str, detail: String) -> Fail {
    Fail::new(clause, detail).with_class(clause)
}

impl ContSpec {
    fn step(&self, st: &mut St, op: COp) -> Result<(), Fail> {
        let len = st.model.len();
        let n_ids = ids_needed(op, len);
        let ids: Vec<u64> = (st.next_id..st.next_id + n_ids as u64).map(self.norm).collect();
        st.next_id += n_ids as u64;

        if op == COp::CloneSwap {
            let cont = st.cont.as_ref().unwrap();
            let Some(clone) = cont.try_clone() else { return Ok(()) };
            // the clone must equal the model; then the original is dropped and the history continues on the clone
            let old = st.cont.replace(clone).unwrap();
            drop(old);
            return self.compare(st, "clone");
        }

        let cx = Cx { reg: &st.reg, ids: &ids, scratch: &st.scratch };
        let got = st.cont.as_mut().unwrap().apply(op, &cx);
        if got == Ret::NotOffered {
            if matches!(op, COp::ExtendIter(_) | COp::PushAlt | COp::PopAlt | COp::FillMid | COp::FillPast) {
                // the audit's operations are only put into alphabets of containers that offer them
                return Err(Fail::new("machinery", format!("{op:?} is in the alphabet but the adapter does not offer it")));
            }
            return Ok(());
        }
        let m = &st.model;
        // (expected result, may the operation refuse with Err?, clause if it fails, model update)
        type Upd = Box<dyn FnOnce(&mut VecDeque<u64>)>;
        let nop = || -> Upd { Box::new(|_| {}) };
        let i0 = ids[0];
        let (want, refusable, clause, update): (Ret, bool, &str, Upd) = match op {
            COp::Push | COp::PushBack => match self.fixed_cap {
                Some(cap) if len >= cap => (Ret::Err, false, "capacity", nop()),
                Some(_) => (Ret::Ok, false, "capacity", Box::new(move |m| m.push_back(i0))),
                None => (Ret::Ok, true, "return_value", Box::new(move |m| m.push_back(i0))),
            },
            COp::Pop => (Ret::Val(m.back().copied()), false, "return_value", Box::new(|m| {
                m.pop_back();
            })),
            COp::PopFront => (Ret::Val(m.front().copied()), false, "return_value", Box::new(|m| {
                m.pop_front();
            })),
            COp::Insert(p) => {
                let i = idx_ins(p, len);
                if i > len {
                    (Ret::Err, false, "out_of_range", nop())
                } else {
                    (Ret::Ok, true, "return_value", Box::new(move |m| m.insert(i, i0)))
                }
            }
            COp::Remove(p) => {
                let i = idx_rm(p, len);
                if i >= len {
                    (Ret::ResVal(Err(())), false, "out_of_range", nop())
                } else {
                    (Ret::ResVal(Ok(m[i])), false, "return_value", Box::new(move |m| {
                        m.remove(i);
                    }))
                }
            }
            COp::Set(p) => {
                let i = idx_rm(p, len);
                if i >= len {
                    (Ret::Err, false, "out_of_range", nop())
                } else {
                    (Ret::Ok, false, "return_value", Box::new(move |m| m[i] = i0))
                }
            }
            COp::Resize(l) => {
                let n = new_len(l, len);
                (Ret::Ok, true, "return_value", Box::new(move |m| m.resize(n, i0)))
            }
            COp::ResizeWith(l) => {
                let n = new_len(l, len);
                let ids2 = ids.clone();
                (Ret::Ok, true, "return_value", Box::new(move |m| {
                    let mut k = 0;
                    m.resize_with(n, || {
                        k += 1;
                        ids2[k - 1]
                    })
                }))
            }
            COp::Truncate(l) => {
                let n = new_len(l, len);
                (if got == Ret::Done { Ret::Done } else { Ret::Ok }, false, "return_value", Box::new(move |m| m.truncate(n)))
            }
            COp::Extend2 => {
                let ids2 = ids.clone();
                (Ret::Ok, true, "return_value", Box::new(move |m| m.extend(ids2[..2].iter().copied())))
            }
            COp::ExtendSlice(n) | COp::PushBulk(n) => {
                let ids2 = ids.clone();
                (Ret::Ok, true, "return_value", Box::new(move |m| m.extend(ids2[..n].iter().copied())))
            }
            COp::PushN(n) => (Ret::Ok, true, "return_value", Box::new(move |m| m.extend(std::iter::repeat(i0).take(n)))),
            COp::Assign(n) => {
                let ids2 = ids.clone();
                (Ret::Ok, true, "return_value", Box::new(move |m| {
                    m.clear();
                    m.extend(ids2[..n].iter().copied())
                }))
            }
            COp::FillAll => (Ret::Ok, false, "return_value", Box::new(move |m| m.iter_mut().for_each(|x| *x = i0))),
            COp::Clear => (if got == Ret::Done { Ret::Done } else { Ret::Ok }, false, "return_value", Box::new(|m| m.clear())),
            COp::Shrink | COp::Reserve(_) => (Ret::Ok, true, "return_value", nop()),
            COp::PopN(n) => {
                if n > len {
                    (Ret::Vals(Err(())), false, "out_of_range", nop())
                } else {
                    let tail: Vec<u64> = m.iter().skip(len - n).copied().collect();
                    (Ret::Vals(Ok(tail)), false, "return_value", Box::new(move |m| m.truncate(len - n)))
                }
            }
            COp::PopBulk(n) => {
                let k = n.min(len);
                let head: Vec<u64> = m.iter().take(k).copied().collect();
                (Ret::Vals(Ok(head)), false, "return_value", Box::new(move |m| {
                    m.drain(..k);
                }))
            }
            COp::ExtendIter(n) => {
                let ids2 = ids.clone();
                (Ret::Ok, true, "return_value", Box::new(move |m| m.extend(ids2[..n].iter().copied())))
            }
            COp::PushAlt => match self.fixed_cap {
                Some(cap) if len >= cap => (Ret::Err, false, "capacity", nop()),
                Some(_) => (Ret::Ok, false, "capacity", Box::new(move |m| m.push_back(i0))),
                None => (if got == Ret::Done { Ret::Done } else { Ret::Ok }, true, "return_value", Box::new(move |m| m.push_back(i0))),
            },
            COp::PopAlt => {
                if self.queue {
                    (Ret::Val(m.front().copied()), false, "return_value", Box::new(|m| {
                        m.pop_front();
                    }))
                } else {
                    (Ret::Val(m.back().copied()), false, "return_value", Box::new(|m| {
                        m.pop_back();
                    }))
                }
            }
            COp::FillMid => (Ret::Ok, false, "return_value", Box::new(move |m| {
                let n = m.len();
                if n >= 2 {
                    for x in m.iter_mut().take(n - 1).skip(1) {
                        *x = i0;
                    }
                }
            })),
            COp::FillPast => (Ret::Err, false, "out_of_range", nop()),
            COp::CloneSwap => unreachable!(),
        };
        if got == want {
            update(&mut st.model);
            Ok(())
        } else if refusable && got == Ret::Err {
            // refused: nothing may have changed; the observers verify that — but only the refusals the unchanged library makes
            // as well are tolerated (label: operation kind and length of the container)
            let kind = format!("{op:?}");
            let kind = kind.split('(').next().unwrap_or("").to_string();
            zverif::core::tolerate_refusal(&self.name(), &format!("{kind}/len={}", len.min(9)), &format!("{op:?} on {len} elements"))?;
            st.refused += 1;
            Ok(())
        } else {
            Err(fl(clause, format!("{op:?} on a container of {len} elements returned {got:?}, model says {want:?}")))
        }
    }

    fn compare(&self, st: &St, when: &str) -> Result<(), Fail> {
        let m = &st.model;
        let o = st.cont.as_ref().unwrap().observe();
        if o.len != m.len() {
            return Err(fl("len", format!("{when}: len() = {}, model says {}", o.len, m.len())));
        }
        if o.is_empty != m.is_empty() {
            return Err(fl("len", format!("{when}: is_empty() = {}, model has {} elements", o.is_empty, m.len())));
        }
        if let Some(c) = o.cap {
            if c < o.len {
                return Err(fl("len", format!("{when}: capacity() = {c} < len() = {}", o.len)));
            }
        }
        if let Some(it) = &o.items {
            let ids: Vec<u64> = it.iter().map(|x| x.0).collect();
            let want: Vec<u64> = m.iter().copied().collect();
            if ids != want {
                return Err(fl("sequence", format!("{when}: as_slice()/iter() yields {ids:?}, model says {want:?}")));
            }
            if let Some(p) = it.iter().position(|x| !x.1) {
                return Err(fl("sequence", format!("{when}: element {p} is not a live, initialised element")));
            }
        }
        if let Some(g) = &o.gets {
            for (i, x) in g.iter().enumerate() {
                let want = m.get(i).copied();
                if *x != want {
                    let clause = if i >= m.len() { "out_of_range" } else { "get" };
                    return Err(fl(clause, format!("{when}: get({i}) = {x:?}, model says {want:?} (len {})", m.len())));
                }
            }
        }
        for (what, seq) in &o.alt {
            let want: Vec<u64> = m.iter().copied().collect();
            if *seq != want {
                return Err(fl("sequence", format!("{when}: {what} yields {seq:?}, model says {want:?}")));
            }
        }
        for (what, got, claim) in &o.claims {
            let want = match claim {
                Claim::True => true,
                Claim::LenIs(n) => m.len() == *n,
            };
            if *got != want {
                return Err(fl("observer", format!("{when}: {what} = {got}, model says {want} ({} elements)", m.len())));
            }
        }
        if let Some(f) = o.front {
            if f != m.front().copied() {
                return Err(fl("front_back", format!("{when}: front() = {f:?}, model says {:?}", m.front())));
            }
        }
        if let Some(b) = o.back {
            if b != m.back().copied() {
                return Err(fl("front_back", format!("{when}: back() = {b:?}, model says {:?}", m.back())));
            }
        }
        if self.tracked {
            let dd = st.reg.double_drops();
            if !dd.is_empty() {
                return Err(fl("double_drop", format!("{when}: elements dropped twice: ids {dd:?}")));
            }
            let live = st.reg.live_count();
            if live != m.len() as i64 {
                let clause = if live > m.len() as i64 { "leak" } else { "double_drop" };
                return Err(fl(clause, format!("{when}: {live} element instances are alive, the container holds {} ({:?})", m.len(), st.reg.live_ids())));
            }
        }
        Ok(())
    }
}

impl SeqSpec for ContSpec {
    type Op = COp;
    type St = St;

    fn name(&self) -> String {
        self.name.clone()
    }
    fn depth(&self, tier: Tier) -> usize {
        tier.pick(self.depth_q, self.depth_t)
    }
    fn bound(&self, tier: Tier) -> String {
        format!(
            "all histories of <= {} mutators from {:?} after the scripted prefix {:?}; model = {}; elements = {}; after every step: len/is_empty/capacity, {} and the drop registry are compared with the model; at the end the container is drained through its own pop and dropped, the registry must be empty. {}",
            self.depth(tier),
            self.alphabet,
            self.prefix,
            if self.queue { "VecDeque of ids" } else { "Vec of ids" },
            if self.tracked { "Tracked (heap-owning, drop-counting)" } else { "u64 (the container requires Copy elements)" },
            if self.queue { "front()/back()" } else { "as_slice()/iter() and get(i) for i in 0..=len+1" },
            self.note
        )
    }
    fn init(&self, scratch: &Path) -> Result<St, Fail> {
        let cont = (self.make)(scratch).map_err(|e| Fail::new("construct", e))?;
        let mut st = St { cont: Some(cont), model: VecDeque::new(), reg: DropRegistry::new(), next_id: 1, scratch: scratch.to_path_buf(), refused: 0, last_op: "init".into(), poison: false };
        for op in &self.prefix {
            self.apply(&mut st, op)?;
            let mut h = DefaultHasher::new();
            self.observe(&mut st, &mut h)?;
        }
        Ok(st)
    }
    fn ops(&self, st: &St) -> Vec<COp> {
        // `guard_assign`: FastVec::copy_from_slice_fast aborts the process (zipora_verify!) when the source is
        // shorter than the current length; that history is kept out of the in-process search (see notes/C10.md)
        self.alphabet.iter().copied().filter(|op| !(self.guard_assign && matches!(op, COp::Assign(n) if *n < st.model.len()))).collect()
    }
    fn apply(&self, st: &mut St, op: &COp) -> Result<(), Fail> {
        st.poison = true;
        st.last_op = format!("{op:?}").split('(').next().unwrap_or("").to_string();
        self.step(st, *op).map_err(|f| at(f, &st.last_op))?;
        st.poison = false;
        Ok(())
    }
    fn observe(&self, st: &mut St, h: &mut DefaultHasher) -> Result<(), Fail> {
        st.model.hash(h);
        st.refused.hash(h);
        st.poison = true;
        self.compare(st, "after step").map_err(|f| at(f, &st.last_op))?;
        st.poison = false;
        Ok(())
    }
    fn finish(&self, st: St) -> Result<(), Fail> {
        let last = st.last_op.clone();
        self.finish_inner(st).map_err(|f| at(f, &format!("{last}+drop")))
    }
}

impl ContSpec {
    fn finish_inner(&self, mut st: St) -> Result<(), Fail> {
        st.poison = true;
        if let Some(got) = st.cont.as_mut().unwrap().drain() {
            let want: Vec<u64> = st.model.iter().copied().collect();
            if got != want {
                return Err(fl("sequence", format!("draining the container through its own pop yields {got:?}, model says {want:?}")));
            }
            st.model.clear();
            self.compare(&st, "after drain")?;
        }
        st.poison = false;
        drop(st.cont.take());
        if self.tracked {
            let dd = st.reg.double_drops();
            if !dd.is_empty() {
                return Err(fl("double_drop", format!("after dropping the container: elements dropped twice: ids {dd:?}")));
            }
            let live = st.reg.live_count();
            if live != 0 {
                let clause = if live > 0 { "leak" } else { "double_drop" };
                return Err(fl(clause, format!("after dropping the container {live} element instances are still alive: {:?}", st.reg.live_ids())));
            }
        }
        Ok(())
    }
}

// =================================================================================================
// subjects
// =================================================================================================

#[allow(clippy::too_many_arguments)]
fn cont(
    name: &str,
    make: impl Fn(&Path) -> Result<Box<dyn Cont>, String> + 'static,
    alphabet: &[COp],
    prefix: &[COp],
    queue: bool,
    tracked: bool,
    fixed_cap: Option<usize>,
    dq: usize,
    dt: usize,
    note: &'static str,
) -> Seq<ContSpec> {
    Seq(ContSpec {
        name: name.to_string(),
        make: Box::new(make),
        alphabet: alphabet.to_vec(),
        prefix: prefix.to_vec(),
        queue,
        tracked,
        fixed_cap,
        guard_assign: name.starts_with("FastVec<u64>") || name.starts_with("FastVec<u8>"),
        depth_q: dq,
        depth_t: dt,
        note,
        norm: |x| x,
    })
}

fn es<E: fmt::Display>(e: E) -> String {
    e.to_string()
}

/// `k` pushes followed by `k` pops: leaves an empty ring whose head is at offset k
fn rotate(k: usize) -> Vec<COp> {
    let mut v = vec![COp::PushBack; k];
    v.extend(vec![COp::PopFront; k]);
    v
}

fn main() {
    zverif::main_with("C10", |reg, _tier| {
        use COp::*;
        // ---- FastVec<Tracked>
        let fv_a = [Push, Pop, Insert(Pos::Front), Insert(Pos::Mid), Insert(Pos::Past), Remove(Pos::Front), Remove(Pos::End), Remove(Pos::Past), Clear, CloneSwap];
        let fv_b = [Push, Extend2, Resize(Len::Zero), Resize(Len::Minus1), Resize(Len::Plus2), ResizeWith(Len::Minus1), ResizeWith(Len::Plus2), Shrink, Reserve(3), Insert(Pos::End), Remove(Pos::Mid), CloneSwap];
        for cap in [0usize, 1, 2] {
            reg.add(cont(
                &format!("FastVec<Tracked>[cap={cap}]/insert-remove"),
                move |_| Ok(Box::new(FastVecAd::<Tracked>(FastVec::with_capacity(cap).map_err(es)?)) as Box<dyn Cont>),
                &fv_a,
                &[],
                false,
                true,
                None,
                if cap == 0 { 5 } else { 4 },
                if cap == 0 { 6 } else { 5 },
                "",
            ));
        }
        reg.add(cont(
            "FastVec<Tracked>[cap=0]/resize-extend-shrink",
            |_| Ok(Box::new(FastVecAd::<Tracked>(FastVec::new())) as Box<dyn Cont>),
            &fv_b,
            &[],
            false,
            true,
            None,
            4,
            5,
            "",
        ));
        reg.add(cont(
            "FastVec<Tracked>[cap=4]/resize-extend-shrink/prefill3",
            |_| Ok(Box::new(FastVecAd::<Tracked>(FastVec::with_capacity(4).map_err(es)?)) as Box<dyn Cont>),
            &fv_b,
            &[Push, Push, Push],
            false,
            true,
            None,
            3,
            4,
            "",
        ));
        // (coverage audit) writes through get_mut / as_mut_slice, ensure_capacity next to reserve
        reg.add(cont(
            "FastVec<Tracked>[cap=2]/set-ensure",
            |_| Ok(Box::new(FastVecAd::<Tracked>(FastVec::with_capacity(2).map_err(es)?)) as Box<dyn Cont>),
            &[Push, Pop, Set(Pos::Front), Set(Pos::End), Set(Pos::Past), Reserve(3), Shrink, CloneSwap],
            &[],
            false,
            true,
            None,
            4,
            5,
            "",
        ));
        // the T: Copy bulk API; 9 x u64 = 72 bytes crosses the 64-byte SIMD threshold
        reg.add(cont(
            "FastVec<u64>/bulk",
            |_| Ok(Box::new(FastVecAd::<u64>(FastVec::new())) as Box<dyn Cont>),
            &[Push, Pop, ExtendSlice(2), ExtendSlice(9), Assign(1), Assign(9), FillAll, Insert(Pos::Front), Remove(Pos::Front), Shrink, CloneSwap],
            &[],
            false,
            false,
            None,
            4,
            5,
            "insert/remove of u64 take the SIMD move path once >= 8 elements follow the index",
        ));
        reg.add(cont(
            "FastVec<u64>/bulk/prefill10",
            |_| Ok(Box::new(FastVecAd::<u64>(FastVec::new())) as Box<dyn Cont>),
            &[Push, Pop, Insert(Pos::Front), Insert(Pos::Mid), Remove(Pos::Front), Remove(Pos::Mid), FillAll, Resize(Len::Plus2), CloneSwap],
            &[ExtendSlice(9), Push],
            false,
            false,
            None,
            4,
            5,
            "insert/remove of u64 take the SIMD move path once >= 8 elements follow the index",
        ));

        // ---- ValVec32
        let vv = [Push, Pop, Set(Pos::Front), Set(Pos::End), Set(Pos::Past), Extend2, Clear, Reserve(9), CloneSwap];
        for cap in [0u32, 1, 3] {
            reg.add(cont(
                &format!("ValVec32<Tracked>[cap={cap}]"),
                move |_| Ok(Box::new(ValVecAd::<Tracked>(ValVec32::with_capacity(cap).map_err(es)?)) as Box<dyn Cont>),
                &vv,
                &[],
                false,
                true,
                None,
                if cap == 0 { 5 } else { 4 },
                if cap == 0 { 6 } else { 5 },
                "initial capacities are lower bounds (malloc_usable_size); growth is 8, then x103/64",
            ));
        }
        reg.add(cont(
            "ValVec32<Tracked>[cap=0]/prefill8",
            |_| Ok(Box::new(ValVecAd::<Tracked>(ValVec32::new())) as Box<dyn Cont>),
            &[Push, Pop, Extend2, Clear, CloneSwap],
            &[Push, Push, Push, Push, Push, Push, Push, Push],
            false,
            true,
            None,
            4,
            6,
            "the prefix fills the first growth step (8) so that the next push reallocates",
        ));
        reg.add(cont(
            "ValVec32<u64>/bulk",
            |_| Ok(Box::new(ValVecAd::<u64>(ValVec32::new())) as Box<dyn Cont>),
            &[Push, Pop, ExtendSlice(2), ExtendSlice(9), PushN(2), PushN(17), Set(Pos::Front), Clear, CloneSwap],
            &[],
            false,
            false,
            None,
            4,
            5,
            "push_n_copy switches to the doubling copy above 16 elements",
        ));

        // ---- CacheAlignedVec<Tracked>
        let cv = [Push, Pop, Truncate(Len::Zero), Truncate(Len::Minus1), Truncate(Len::Plus2), Clear, Reserve(1), Reserve(5), Set(Pos::Mid), Set(Pos::Past)];
        reg.add(cont("CacheAlignedVec<Tracked>[new]", |_| Ok(Box::new(CacheVecAd::<Tracked>(CacheAlignedVec::new())) as Box<dyn Cont>), &cv, &[], false, true, None, 5, 6, ""));
        reg.add(cont(
            "CacheAlignedVec<Tracked>[cap=2]/prefill3",
            |_| Ok(Box::new(CacheVecAd::<Tracked>(CacheAlignedVec::with_capacity(2).map_err(es)?)) as Box<dyn Cont>),
            &cv,
            &[Push, Push, Push],
            false,
            true,
            None,
            4,
            5,
            "",
        ));

        // ---- BumpVec / PooledVec (fixed capacity, push returns Err when full)
        for cap in [1usize, 3] {
            reg.add(cont(
                &format!("BumpVec<Tracked>[cap={cap}]"),
                move |_| Ok(Box::new(BumpVecAd::<Tracked>::new(cap)?) as Box<dyn Cont>),
                &[Push, Pop],
                &[],
                false,
                true,
                Some(cap),
                7,
                9,
                "",
            ));
        }
        reg.add(cont(
            "PooledVec<Tracked>[global small pool]",
            |_| Ok(Box::new(PooledVecAd::<Tracked>(PooledVec::new().map_err(es)?)) as Box<dyn Cont>),
            &[Push],
            &[],
            false,
            true,
            None,
            3,
            4,
            "push is the only mutator; capacity is chunk_size / size_of::<T>()",
        ));

        // ---- MmapVec<u64>
        let mv = |cap: usize| {
            move |scratch: &Path| -> Result<Box<dyn Cont>, String> {
                static N: std::sync::atomic::AtomicU64 = std::sync::atomic::AtomicU64::new(0);
                let path = scratch.join(format!("c10-{}.mmv", N.fetch_add(1, std::sync::atomic::Ordering::Relaxed)));
                let v = MmapVec::<u64>::create(&path, MmapVecConfig { initial_capacity: cap, ..MmapVecConfig::default() }).map_err(es)?;
                Ok(Box::new(MmapVecAd { v: Some(v), path }) as Box<dyn Cont>)
            }
        };
        let mm_a = [Push, Pop, Resize(Len::Minus1), Resize(Len::Plus2), Truncate(Len::Zero), Extend2, Clear, Shrink, Reserve(3), Set(Pos::End), Set(Pos::Past)];
        let mm_b = [Push, ExtendSlice(2), ExtendSlice(9), PopN(1), PopN(3), FillAll, Assign(1), Assign(9), Shrink];
        reg.add(cont("MmapVec<u64>[cap=0]", mv(0), &mm_a, &[], false, false, None, 3, 4, "file-backed: every history uses its own file in the scratch directory"));
        reg.add(cont("MmapVec<u64>[cap=2]", mv(2), &mm_a, &[], false, false, None, 3, 4, "file-backed: every history uses its own file in the scratch directory"));
        reg.add(cont("MmapVec<u64>[cap=1]/bulk", mv(1), &mm_b, &[], false, false, None, 3, 4, "file-backed: every history uses its own file in the scratch directory"));

        // ---- FixedCircularQueue<Tracked, N>: every head offset
        for k in 0..4 {
            reg.add(cont(
                &format!("FixedCircularQueue<Tracked,4>/head={k}"),
                |_| Ok(Box::new(FixedQAd::<Tracked, 4>(FixedCircularQueue::new())) as Box<dyn Cont>),
                &[PushBack, PopFront, Clear],
                &rotate(k),
                true,
                true,
                Some(4),
                7,
                9,
                "",
            ));
        }
        reg.add(cont(
            "FixedCircularQueue<Tracked,1>",
            |_| Ok(Box::new(FixedQAd::<Tracked, 1>(FixedCircularQueue::new())) as Box<dyn Cont>),
            &[PushBack, PopFront, Clear],
            &[],
            true,
            true,
            Some(1),
            6,
            8,
            "",
        ));

        // ---- AutoGrowCircularQueue<Tracked>: capacities 1, 2, 4 x every head offset
        let aq = [PushBack, PopFront, PushBulk(1), PushBulk(3), PopBulk(1), PopBulk(3), Reserve(2), Clear, CloneSwap];
        for (cap, heads, dq, dt) in [(1usize, 1usize, 4usize, 5usize), (2, 2, 4, 5), (4, 4, 4, 5)] {
            for k in 0..heads {
                // a ring of capacity c stores c-1 elements before it grows: rotate one element at a time
                let mut prefix = Vec::new();
                for _ in 0..k {
                    prefix.push(PushBack);
                    prefix.push(PopFront);
                }
                reg.add(cont(
                    &format!("AutoGrowCircularQueue<Tracked>[cap={cap}]/head={k}"),
                    move |_| Ok(Box::new(AutoQAd::<Tracked>(AutoGrowCircularQueue::with_capacity(cap))) as Box<dyn Cont>),
                    &aq,
                    &prefix,
                    true,
                    true,
                    None,
                    dq,
                    dt,
                    "",
                ));
            }
        }

        // =========================================================================================
        // Coverage audit: element types, entry points, presets and thresholds not reached above
        // =========================================================================================
        fn with_norm(mut s: Seq<ContSpec>, norm: fn(u64) -> u64) -> Seq<ContSpec> {
            s.0.norm = norm;
            s
        }
        fn mmap_make<E: Elem + Copy>(cfg: fn() -> MmapVecConfig) -> impl Fn(&Path) -> Result<Box<dyn Cont>, String> {
            move |scratch: &Path| {
                static N: std::sync::atomic::AtomicU64 = std::sync::atomic::AtomicU64::new(0);
                let path = scratch.join(format!("c10-au-{}-{}.mmv", std::process::id(), N.fetch_add(1, std::sync::atomic::Ordering::Relaxed)));
                let v = MmapVec::<E>::create(&path, cfg()).map_err(es)?;
                Ok(Box::new(MmapVecAd { v: Some(v), path }) as Box<dyn Cont>)
            }
        }

        // ---- FastVec<u8>: the size_of::<T>() == 1 branches (resize -> fast_fill for >= 64 new elements, fill_range_fast ->
        //      fast_fill), SIMD insert/remove moves of >= 64 bytes; partial and out-of-range fill ranges
        reg.add(with_norm(
            cont(
                "FastVec<u8>/bulk",
                |_| Ok(Box::new(FastVecAd::<u8>(FastVec::new())) as Box<dyn Cont>),
                &[Push, Pop, Resize(Len::Plus70), Resize(Len::Minus1), ExtendSlice(70), ExtendIter(70), FillAll, FillMid, FillPast, Insert(Pos::Front), Remove(Pos::Front), Shrink, CloneSwap],
                &[],
                false,
                false,
                None,
                3,
                4,
                "element ids are taken modulo 256; 70 one-byte elements cross the 64-byte SIMD threshold",
            ),
            |x| x % 256,
        ));
        reg.add(with_norm(
            cont(
                "FastVec<u8>/bulk/prefill72",
                |_| Ok(Box::new(FastVecAd::<u8>(FastVec::new())) as Box<dyn Cont>),
                &[Push, Pop, Insert(Pos::Front), Insert(Pos::Mid), Remove(Pos::Front), Remove(Pos::Mid), FillMid, FillAll, Assign(70), Resize(Len::Plus70), CloneSwap],
                &[ExtendSlice(70), Push, Push],
                false,
                false,
                None,
                3,
                4,
                "element ids are taken modulo 256; Assign(70) is enabled only while 70 >= len (a shorter source aborts the process, see notes)",
            ),
            |x| x % 256,
        ));
        // ---- FastVec<u64>: extend(iterator) with >= 8 elements takes its own collect + fast_copy path; partial fills
        reg.add(cont(
            "FastVec<u64>/extend-iter",
            |_| Ok(Box::new(FastVecAd::<u64>(FastVec::new())) as Box<dyn Cont>),
            &[Push, Pop, ExtendIter(2), ExtendIter(9), ExtendIter(17), FillMid, FillPast, Shrink, Reserve(3), CloneSwap],
            &[],
            false,
            false,
            None,
            4,
            5,
            "extend() of a Copy type switches to collect + fast_copy at 64 bytes (8 elements); FillMid over >= 16 elements takes the prefetching loop",
        ));
        reg.add(cont(
            "FastVec<Tracked>[cap=0]/extend-iter",
            |_| Ok(Box::new(FastVecAd::<Tracked>(FastVec::new())) as Box<dyn Cont>),
            &[Push, Pop, ExtendIter(2), ExtendIter(9), Resize(Len::Minus1), Shrink, CloneSwap],
            &[],
            false,
            true,
            None,
            4,
            5,
            "",
        ));

        // ---- ValVec32: push_panic (own slow path) and unchecked_push / unchecked_push_copy as alternative entry points
        for (cap, pre) in [(0u32, 0usize), (0, 8), (3, 0)] {
            reg.add(cont(
                &format!("ValVec32<Tracked>[cap={cap}]/push_panic+unchecked_push{}", if pre > 0 { "/prefill8" } else { "" }),
                move |_| Ok(Box::new(ValVecAd::<Tracked>(ValVec32::with_capacity(cap).map_err(es)?)) as Box<dyn Cont>),
                &[PushAlt, Push, Pop, Set(Pos::Front), Extend2, Clear, CloneSwap],
                &vec![PushAlt; pre],
                false,
                true,
                None,
                if pre > 0 { 4 } else { 5 },
                if pre > 0 { 5 } else { 6 },
                "PushAlt = unchecked_push where spare capacity exists and the element id is even, else push_panic",
            ));
        }
        reg.add(cont(
            "ValVec32<u64>/push_panic+unchecked_push_copy",
            |_| Ok(Box::new(ValVecAd::<u64>(ValVec32::new())) as Box<dyn Cont>),
            &[PushAlt, Push, Pop, ExtendSlice(9), PushN(17), Clear, CloneSwap],
            &[],
            false,
            false,
            None,
            4,
            5,
            "",
        ));

        // ---- ValVec32 with a zero-sized element type (own branches in with_capacity / grow_to / as_slice / drop)
        reg.add(with_norm(
            cont(
                "ValVec32<()>",
                |_| Ok(Box::new(ValVecAd::<()>(ValVec32::with_capacity(2).map_err(es)?)) as Box<dyn Cont>),
                &[Push, Pop, Extend2, Clear, CloneSwap],
                &[],
                false,
                false,
                None,
                4,
                5,
                "zero-sized elements all carry id 0: the model is a sequence of zeros, what is compared is its length in every view",
            ),
            |_| 0,
        ));

        // ---- FixedCircularQueue: a capacity that is no power of two, the push()/pop() aliases, is_full()
        for k in 0..3 {
            reg.add(cont(
                &format!("FixedCircularQueue<Tracked,3>/head={k}"),
                |_| Ok(Box::new(FixedQAd::<Tracked, 3>(FixedCircularQueue::new())) as Box<dyn Cont>),
                &[PushBack, PopFront, PushAlt, PopAlt, Clear],
                &rotate(k),
                true,
                true,
                Some(3),
                5,
                6,
                "PushAlt/PopAlt = push()/pop()",
            ));
        }

        // ---- AutoGrowCircularQueue: requested capacities that are no power of two (rounded by ensure_power_of_two, whose
        //      shift cascade only matters for larger values), push()/pop() aliases, PartialEq
        for (cap, k) in [(3usize, 0usize), (3, 2), (5, 0), (5, 6)] {
            let mut prefix = Vec::new();
            for _ in 0..k {
                prefix.push(PushBack);
                prefix.push(PopFront);
            }
            reg.add(cont(
                &format!("AutoGrowCircularQueue<Tracked>[with_capacity({cap})]/head={k}"),
                move |_| Ok(Box::new(AutoQAd::<Tracked>(AutoGrowCircularQueue::with_capacity(cap))) as Box<dyn Cont>),
                &[PushBack, PopFront, PushAlt, PopAlt, PushBulk(3), PopBulk(3), Reserve(2), Clear, CloneSwap],
                &prefix,
                true,
                true,
                None,
                4,
                5,
                "PushAlt/PopAlt = push()/pop()",
            ));
        }
        for cap in [33usize, 513, 65537] {
            reg.add(cont(
                &format!("AutoGrowCircularQueue<Tracked>[with_capacity({cap})]"),
                move |_| Ok(Box::new(AutoQAd::<Tracked>(AutoGrowCircularQueue::with_capacity(cap))) as Box<dyn Cont>),
                &[PushBack, PopFront, PushBulk(3), PopBulk(3), CloneSwap],
                &[PushBack, PopFront],
                true,
                true,
                None,
                3,
                4,
                "a capacity that is not rounded to a power of two makes the index mask skip or repeat slots",
            ));
        }
        reg.add(cont(
            "AutoGrowCircularQueue<Tracked>[new]/reserve-large",
            |_| Ok(Box::new(AutoQAd::<Tracked>(AutoGrowCircularQueue::new())) as Box<dyn Cont>),
            &[PushBack, PopFront, Reserve(8), Reserve(40), Reserve(511), PushBulk(3), CloneSwap],
            &[PushBack, PushBack, PopFront],
            true,
            true,
            None,
            3,
            4,
            "reserve() for 8 / 40 / 511 more elements goes through ensure_power_of_two (with one element stored, 511 asks for exactly 513 slots) with a wrapped or offset ring",
        ));

        // ---- PooledVec: the push beyond the chunk capacity must be refused
        {
            let cap = 1024 / std::mem::size_of::<Tracked>();
            reg.add(cont(
                "PooledVec<Tracked>[global small pool]/full",
                |_| Ok(Box::new(PooledVecAd::<Tracked>(PooledVec::new().map_err(es)?)) as Box<dyn Cont>),
                &[Push],
                &vec![Push; cap - 1],
                false,
                true,
                Some(cap),
                3,
                3,
                "the prefix leaves one free slot of the 1024-byte chunk; the push after the last slot must return Err",
            ));
        }

        // ---- cache_layout::CacheAlignedVec (a second public type of that name)
        reg.add(cont(
            "cache_layout::CacheAlignedVec<Tracked>[Sequential]",
            |_| Ok(Box::new(LayoutVecAd::<Tracked>(LayoutVec::with_access_pattern(AccessPattern::Sequential))) as Box<dyn Cont>),
            &[Push],
            &[Push, Push, Push, Push, Push, Push, Push],
            false,
            true,
            None,
            2,
            3,
            "push is the only mutator; with the Sequential pattern every 8th push prefetches the whole buffer; slice(range) is an observer",
        ));
        reg.add(cont(
            "cache_layout::CacheAlignedVec<Tracked>[Random]",
            |_| Ok(Box::new(LayoutVecAd::<Tracked>(LayoutVec::with_access_pattern(AccessPattern::Random))) as Box<dyn Cont>),
            &[Push],
            &[],
            false,
            true,
            None,
            3,
            4,
            "",
        ));

        // ---- MmapVec: one-byte elements (own SIMD fill branch), partial / out-of-range fills, Truncate beyond len,
        //      presets with their own branches, the temp-file constructor, a mapping larger than the 64 KiB minimum
        fn mm_small() -> MmapVecConfig {
            MmapVecConfig { initial_capacity: 1, ..MmapVecConfig::default() }
        }
        fn mm_memopt() -> MmapVecConfig {
            MmapVecConfig { initial_capacity: 2, ..MmapVecConfig::memory_optimized() }
        }
        fn mm_persistent() -> MmapVecConfig {
            MmapVecConfig { initial_capacity: 2, ..MmapVecConfig::persistent_cache() }
        }
        fn mm_64k() -> MmapVecConfig {
            MmapVecConfig { initial_capacity: 8184, ..MmapVecConfig::default() }
        }
        reg.add(with_norm(
            cont(
                "MmapVec<u8>[cap=1]/bulk",
                mmap_make::<u8>(mm_small),
                &[Push, ExtendSlice(70), Resize(Len::Plus70), FillAll, FillMid, FillPast, PopN(3), Truncate(Len::Minus1), Truncate(Len::Plus2), Assign(70), Shrink],
                &[],
                false,
                false,
                None,
                3,
                3,
                "element ids modulo 256; fill_range_simd has its own branch for one-byte elements and >= 64 bytes",
            ),
            |x| x % 256,
        ));
        reg.add(cont(
            "MmapVec<u64>[cap=1]/fill-ranges",
            mmap_make::<u64>(mm_small),
            &[Push, ExtendSlice(9), FillMid, FillPast, FillAll, Truncate(Len::Plus2), PopN(1)],
            &[],
            false,
            false,
            None,
            3,
            4,
            "",
        ));
        reg.add(cont(
            "MmapVec<u64>[memory_optimized,cap=2]",
            mmap_make::<u64>(mm_memopt),
            &[Push, Pop, Extend2, Resize(Len::Plus2), Shrink, Reserve(3), Clear],
            &[],
            false,
            false,
            None,
            4,
            5,
            "growth factor 1.4: the factor rounds down to the old capacity, growth relies on the capacity + 1 floor",
        ));
        reg.add(cont(
            "MmapVec<u64>[persistent_cache,cap=2]",
            mmap_make::<u64>(mm_persistent),
            &[Push, Pop, ExtendSlice(9), PopN(3), Resize(Len::Plus2), Truncate(Len::Zero), Shrink, Clear],
            &[],
            false,
            false,
            None,
            3,
            3,
            "sync_on_write: every mutator rewrites the backing file, which the next growth reads back",
        ));
        reg.add(cont(
            "MmapVec<u64>[with_capacity_simd(16)]",
            |_| {
                let v = MmapVec::<u64>::with_capacity_simd(16).map_err(es)?;
                Ok(Box::new(MmapVecAd { v: Some(v), path: PathBuf::from("/nonexistent/c10-temp-file-is-removed-by-the-vector") }) as Box<dyn Cont>)
            },
            &[Push, Pop, ExtendSlice(9), PopN(3), Clear],
            &[],
            false,
            false,
            None,
            3,
            3,
            "the vector creates (and removes) its own temporary file; default capacity 1024",
        ));
        reg.add(cont(
            "MmapVec<u64>[cap=8184]/64KiB",
            mmap_make::<u64>(mm_64k),
            &[Push, Pop, ExtendSlice(9), PopN(3), Shrink, Reserve(3), Truncate(Len::Minus1), Resize(Len::Plus2)],
            &[ExtendSlice(8184)],
            false,
            false,
            None,
            3,
            3,
            "header + 8184 x u64 is exactly the 64 KiB minimum mapping: the next growth makes the mapping as large as the file, shrink_to_fit goes back",
        ));

        strs::register(reg);
    });
}
