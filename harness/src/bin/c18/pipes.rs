//! C18, E2 part: FiberPool parallel_map/for_each/reduce and Pipeline stages over all small inputs.
use zverif::{Registry, Tier};

pub fn register(_reg: &mut Registry, _tier: Tier) {}
