//! C18, E2 part: "parallel_map/for_each/reduce and pipeline batch processing return one result per input, in
//! input order where the API returns a sequence, equal to applying the stage function sequentially; a failing
//! or timed-out item surfaces as an error rather than a missing or shifted result."
//!
//! Every subject runs the real API on a real tokio runtime (current-thread and 2-worker multi-thread, built
//! once per process) and judges ONLY the returned value (plus, for `for_each`-style APIs, the visit log at
//! return time), so the verdict does not depend on how tokio interleaves the tasks.
//!
//! Items are `(index, value)` pairs with value in {0,1,2}; a stage maps `(i, v)` to `(i, v)` (Id) or
//! `(i, v + 1)` (every other variant) and misbehaves at one index:
//!   FailAt(i)  returns Err for item i
//!   PanicAt(i) panics for item i (only where the stage runs inside a spawned task: the API then sees a JoinError)
//!   SlowAt(i)  never finishes item i within any realistic time (sleeps 3600 s against a 5 ms `stage_timeout`;
//!              the design's "20 x timeout" would make the verdict depend on machine load: with a stall of
//!              > 95 ms between two polls tokio's `timeout` legitimately returns the value)
//!   LateAt(i)  item i completes only after item i+1 has completed (a oneshot dependency, deterministic;
//!              only for APIs that take futures and only with concurrency >= 2)
//! All stages but SlowAt run with a 30 s `stage_timeout`, so a loaded machine cannot cause a spurious timeout.

use serde::{Deserialize, Serialize};
use std::future::Future;
use std::path::PathBuf;
use std::pin::Pin;
use std::sync::atomic::{AtomicUsize, Ordering};
use std::sync::{Arc, Mutex, OnceLock};
use std::time::Duration;
use tokio::sync::{mpsc, oneshot};
use zverif::enumr::{fail, Enum, EnumSpec};
use zverif::util::all_strings;
use zverif::{Outcome, Registry, Tier};

use zipora::concurrency::async_blob_store::{AsyncBlobStore, AsyncCompressedBlobStore, AsyncMemoryBlobStore};
use zipora::concurrency::fiber_aio::FiberIoUtils;
use zipora::concurrency::fiber_pool::{FiberPool, FiberPoolConfig};
use zipora::concurrency::fiber_yield::{CooperativeUtils, YieldingIterator};
use zipora::concurrency::pipeline::{BatchCollector, BatchMapStage, FilterStage, MapStage, Pipeline, PipelineConfig, PipelineStage};
use zipora::error::ZiporaError;

type ZResult<T> = zipora::error::Result<T>;
type Item = (usize, u8);
type BoxFut<T> = Pin<Box<dyn Future<Output = ZResult<T>> + Send>>;

const HANG: Duration = Duration::from_secs(10);
const SHORT_TIMEOUT: Duration = Duration::from_millis(5);
const LONG_TIMEOUT: Duration = Duration::from_secs(30);
const NEVER: Duration = Duration::from_secs(3600);

// ------------------------------------------------------------------------------------------------
// case description

#[derive(Clone, Copy, Debug, PartialEq, Eq, Hash, Serialize, Deserialize, Default)]
pub enum Rt {
    /// `tokio::runtime::Builder::new_current_thread()`
    #[default]
    Current,
    /// `new_multi_thread().worker_threads(2)`
    Multi2,
}

#[derive(Clone, Copy, Debug, PartialEq, Eq, Hash, Serialize, Deserialize, Default)]
pub enum Stage {
    #[default]
    Id,
    Inc,
    FailAt(usize),
    PanicAt(usize),
    SlowAt(usize),
    LateAt(usize),
}

/// which `PipelineStage` implementation carries the stage function
#[derive(Clone, Copy, Debug, PartialEq, Eq, Hash, Serialize, Deserialize, Default)]
pub enum Kind {
    #[default]
    Map,
    /// `BatchMapStage::new` (no batch function)
    BatchMapPlain,
    /// `BatchMapStage::with_batch_support` (batch function = sequential map of the same stage function)
    BatchMapBatch,
    /// the harness' own `PipelineStage` whose `process` is genuinely async; `supports_batching() == true`, trait-default `process_batch`
    Async,
    /// `FilterStage` with predicate `value != 1` (results are `Option<item>`; cannot fail)
    FilterNot1,
}

#[derive(Clone, Copy, Debug, PartialEq, Eq, Hash, Serialize, Deserialize, Default)]
pub enum ROp {
    /// list concatenation, identity = empty list (associative, NOT commutative)
    #[default]
    Concat,
    /// u64 addition, identity 0
    Sum,
    /// concatenation that fails when its right operand contains item i
    ConcatFailAt(usize),
    ConcatPanicAt(usize),
}

#[derive(Clone, Debug, Hash, Serialize, Deserialize, Default)]
pub struct Case {
    pub rt: Rt,
    pub input: Vec<u8>,
    #[serde(default)]
    pub stage: Stage,
    /// second stage (execute_two_stage)
    #[serde(default)]
    pub stage2: Stage,
    #[serde(default)]
    pub rop: ROp,
    #[serde(default)]
    pub kind: Kind,
    /// execute_stream: chain length and which stage of the chain carries `stage` (the others carry its well-behaved base)
    #[serde(default)]
    pub n_stages: usize,
    #[serde(default)]
    pub at: usize,
    /// PipelineConfig::enable_batching
    #[serde(default)]
    pub batching: bool,
    #[serde(default)]
    pub max_fibers: usize,
    #[serde(default)]
    pub max_workers: usize,
    /// batch size / max_concurrent / yield interval, whatever the API calls its chunking parameter
    #[serde(default)]
    pub batch: usize,
    #[serde(default)]
    pub buffer: usize,
    #[serde(default)]
    pub in_flight: usize,
    /// BatchCollector: call `check_timeout()` after this many adds; `zero_timeout` = batch_timeout 0 (always due) instead of 3600 s (never due)
    #[serde(default)]
    pub check_after: Option<usize>,
    #[serde(default)]
    pub zero_timeout: bool,
}

#[derive(Clone, Copy, Debug, PartialEq, Eq)]
enum Api {
    PoolMap,
    PoolForEach,
    PoolReduce,
    PoolSpawnBatch,
    ModMap,
    ModReduce,
    ExecSingle,
    ExecTwoStage,
    ProcessBatch,
    ExecStream,
    Collector,
    RunWithYield,
    ProcessVecYielding,
    YieldingIter,
    ConcurrentWithYield,
    ProcessFilesParallel,
    IoBatchProcess,
    BlobBatch,
}

impl Api {
    fn name(self) -> &'static str {
        match self {
            Api::PoolMap => "FiberPool::parallel_map",
            Api::PoolForEach => "FiberPool::parallel_for_each",
            Api::PoolReduce => "FiberPool::parallel_reduce",
            Api::PoolSpawnBatch => "FiberPool::spawn_batch + await every handle",
            Api::ModMap => "concurrency::parallel_map (join_all)",
            Api::ModReduce => "concurrency::parallel_reduce",
            Api::ExecSingle => "Pipeline::execute_single",
            Api::ExecTwoStage => "Pipeline::execute_two_stage",
            Api::ProcessBatch => "Pipeline::process_batch",
            Api::ExecStream => "Pipeline::execute_stream",
            Api::Collector => "BatchCollector add/check_timeout/flush",
            Api::RunWithYield => "CooperativeUtils::run_with_yield",
            Api::ProcessVecYielding => "CooperativeUtils::process_vec_yielding",
            Api::YieldingIter => "YieldingIterator::for_each/collect",
            Api::ConcurrentWithYield => "CooperativeUtils::concurrent_with_yield",
            Api::ProcessFilesParallel => "FiberIoUtils::process_files_parallel",
            Api::IoBatchProcess => "FiberIoUtils::batch_process",
            Api::BlobBatch => "AsyncBlobStore::put_batch/get_batch",
        }
    }
}

// ------------------------------------------------------------------------------------------------
// the stage function and its sequential reference

fn misbehaves(stage: Stage) -> Option<usize> {
    match stage {
        Stage::FailAt(i) | Stage::PanicAt(i) | Stage::SlowAt(i) => Some(i),
        _ => None,
    }
}

/// the well-behaved function a stage computes on the items it does not misbehave on
fn base(stage: Stage) -> Stage {
    if stage == Stage::Id {
        Stage::Id
    } else {
        Stage::Inc
    }
}

/// synchronous part of the stage (SlowAt/LateAt are handled by the async wrappers)
fn apply(stage: Stage, (idx, v): Item) -> ZResult<Item> {
    match stage {
        Stage::FailAt(i) if i == idx => Err(ZiporaError::invalid_data("injected stage failure")),
        Stage::PanicAt(i) if i == idx => panic!("injected stage panic"),
        Stage::Id => Ok((idx, v)),
        _ => Ok((idx, v + 1)),
    }
}

fn items(input: &[u8]) -> Vec<Item> {
    input.iter().copied().enumerate().collect()
}

/// sequential reference: `None` = some item fails / times out, so the call as a whole has to be an error
fn reference(stages: &[Stage], input: &[u8]) -> Option<Vec<Item>> {
    let mut out = Vec::with_capacity(input.len());
    for (idx, &v) in input.iter().enumerate() {
        let mut it = (idx, v);
        for &s in stages {
            if misbehaves(s) == Some(idx) {
                return None;
            }
            it = (idx, if s == Stage::Id { it.1 } else { it.1 + 1 });
        }
        out.push(it);
    }
    Some(out)
}

/// class of the misbehaviour that a swallowed error belongs to: Err and timeout are one arm in the code under test
fn swallow_class(stages: &[Stage], len: usize) -> &'static str {
    for s in stages {
        match *s {
            Stage::PanicAt(i) if i < len => return "stage_panic",
            Stage::FailAt(i) | Stage::SlowAt(i) if i < len => return "stage_err_or_timeout",
            _ => {}
        }
    }
    "none"
}

fn mismatch_class<T: PartialEq + Ord + Clone>(got: &[T], want: &[T]) -> &'static str {
    if got.len() < want.len() {
        "shorter"
    } else if got.len() > want.len() {
        "longer"
    } else {
        let (mut a, mut b) = (got.to_vec(), want.to_vec());
        a.sort();
        b.sort();
        if a == b {
            "reordered"
        } else {
            "wrong_values"
        }
    }
}

/// The oracle shared by every sequence-returning API.
fn judge_seq<T: PartialEq + Ord + Clone + std::fmt::Debug, E: std::fmt::Debug>(
    got: Result<Vec<T>, E>,
    want: Option<Vec<T>>,
    swallow: &str,
) -> Outcome {
    match (got, want) {
        (Ok(g), Some(w)) => {
            if g == w {
                if w.is_empty() {
                    Outcome::trivial("ok_empty")
                } else {
                    Outcome::pass("ok")
                }
            } else {
                fail("result_mismatch", mismatch_class(&g, &w), format!("sequential map gives {:?}, the call returned Ok({:?})", w, g))
            }
        }
        (Err(_), None) => Outcome::pass("err"),
        (Ok(g), None) => fail(
            "error_swallowed",
            swallow,
            format!("one item fails or times out, so the call must return Err; it returned Ok({:?})", g),
        ),
        (Err(e), Some(w)) => fail("unexpected_err", "err", format!("no item fails (expected Ok({:?})), the call returned Err({:?})", w, e)),
    }
}

/// One-shot dependency used by LateAt(i): item i waits until item i+1 is done.
struct Gate {
    tx: Mutex<Option<oneshot::Sender<()>>>,
    rx: Mutex<Option<oneshot::Receiver<()>>>,
}

impl Gate {
    fn new() -> Arc<Gate> {
        let (tx, rx) = oneshot::channel();
        Arc::new(Gate { tx: Mutex::new(Some(tx)), rx: Mutex::new(Some(rx)) })
    }
}

/// the stage as a future (for APIs that take futures / async processors)
fn item_future(stage: Stage, gate: Arc<Gate>, it: Item, runs: Option<Arc<Vec<AtomicUsize>>>) -> BoxFut<Item> {
    Box::pin(async move {
        if let Some(r) = &runs {
            r[it.0].fetch_add(1, Ordering::SeqCst);
        }
        match stage {
            Stage::LateAt(i) if i == it.0 => {
                let rx = gate.rx.lock().unwrap().take();
                if let Some(rx) = rx {
                    let _ = rx.await;
                }
            }
            Stage::SlowAt(i) if i == it.0 => tokio::time::sleep(NEVER).await,
            _ => {}
        }
        let r = apply(stage, it);
        if let Stage::LateAt(i) = stage {
            if i + 1 == it.0 {
                if let Some(tx) = gate.tx.lock().unwrap().take() {
                    let _ = tx.send(());
                }
            }
        }
        r
    })
}

/// harness-side `PipelineStage` with a genuinely asynchronous `process` (needed for SlowAt: a synchronous
/// function is Ready at its first poll and can never be timed out by `tokio::time::timeout`)
struct AsyncStage {
    stage: Stage,
}

impl PipelineStage<Item, Item> for AsyncStage {
    fn process(&self, input: Item) -> Pin<Box<dyn Future<Output = ZResult<Item>> + Send + '_>> {
        let stage = self.stage;
        Box::pin(async move {
            tokio::task::yield_now().await;
            if let Stage::SlowAt(i) = stage {
                if i == input.0 {
                    tokio::time::sleep(NEVER).await;
                }
            }
            apply(stage, input)
        })
    }
    fn name(&self) -> &str {
        "async"
    }
    fn supports_batching(&self) -> bool {
        true
    }
}

fn boxed_stage(kind: Kind, stage: Stage) -> Box<dyn PipelineStage<Item, Item>> {
    match kind {
        Kind::Map => Box::new(MapStage::new("map".to_string(), move |it: Item| apply(stage, it))),
        Kind::BatchMapPlain => {
            Box::new(BatchMapStage::<_, fn(Vec<Item>) -> ZResult<Vec<Item>>>::new("bmap".to_string(), move |it: Item| apply(stage, it)))
        }
        Kind::BatchMapBatch => Box::new(BatchMapStage::with_batch_support(
            "bmapb".to_string(),
            move |it: Item| apply(stage, it),
            move |v: Vec<Item>| v.into_iter().map(|it| apply(stage, it)).collect::<ZResult<Vec<Item>>>(),
        )),
        Kind::Async | Kind::FilterNot1 => Box::new(AsyncStage { stage }),
    }
}

// ------------------------------------------------------------------------------------------------
// runtimes

fn runtime(rt: Rt) -> &'static tokio::runtime::Runtime {
    static CUR: OnceLock<tokio::runtime::Runtime> = OnceLock::new();
    static MT2: OnceLock<tokio::runtime::Runtime> = OnceLock::new();
    match rt {
        Rt::Current => CUR.get_or_init(|| tokio::runtime::Builder::new_current_thread().enable_all().build().expect("current-thread runtime")),
        Rt::Multi2 => MT2.get_or_init(|| tokio::runtime::Builder::new_multi_thread().worker_threads(2).enable_all().build().expect("multi-thread runtime")),
    }
}

/// Run the case's future to completion; a call that does not return within 10 s is reported as `hang`.
fn block<T>(rt: Rt, fut: impl Future<Output = T>) -> Result<T, Outcome> {
    match runtime(rt).block_on(async { tokio::time::timeout(HANG, fut).await }) {
        Ok(v) => Ok(v),
        Err(_) => Err(fail("hang", "no_return_within_10s", "the call did not return within 10 s")),
    }
}

fn pool(c: &Case) -> ZResult<FiberPool> {
    FiberPool::new(FiberPoolConfig {
        max_fibers: c.max_fibers,
        initial_workers: 1,
        max_workers: c.max_workers,
        queue_capacity: 16,
        idle_timeout: Duration::from_secs(1),
    })
}

fn pipeline(c: &Case, slow: bool) -> Pipeline {
    Pipeline::new(PipelineConfig {
        buffer_size: c.buffer.max(1),
        max_in_flight: c.in_flight.max(1),
        stage_timeout: if slow { SHORT_TIMEOUT } else { LONG_TIMEOUT },
        enable_batching: c.batching,
        batch_size: c.batch.max(1),
        batch_timeout: Duration::from_millis(100),
    })
}

fn is_slow(s: Stage) -> bool {
    matches!(s, Stage::SlowAt(_))
}

// ------------------------------------------------------------------------------------------------
// enumeration helpers

fn max_len(tier: Tier) -> usize {
    tier.pick(4, 5)
}

fn for_inputs(tier: Tier, f: &mut dyn FnMut(&[u8]) -> bool) -> bool {
    all_strings(&[0u8, 1, 2], max_len(tier), f)
}

/// inputs on which the real-time (5 ms each) SlowAt cases run: every vector of length <= 2 (quick) / <= 3
/// (thorough) plus the cyclic vectors 0,1,2,0,1 up to the tier's maximum length
fn for_slow_inputs(tier: Tier, f: &mut dyn FnMut(&[u8]) -> bool) -> bool {
    let small = tier.pick(2, 3);
    if !all_strings(&[0u8, 1, 2], small, f) {
        return false;
    }
    for len in small + 1..=max_len(tier) {
        let v: Vec<u8> = (0..len).map(|i| (i % 3) as u8).collect();
        if !f(&v) {
            return false;
        }
    }
    true
}

/// chunking thresholds: the pools split an input into chunks of len / max_workers (FiberPool) or len / num_cpus (the free
/// functions) items — lengths of at least 2 x workers + 1 that the divisor does not divide are needed to get a short last chunk
fn long_inputs(by_cpus: bool) -> Vec<Vec<u8>> {
    let mut lens: Vec<usize> = vec![5, 6, 7, 8, 9, 11, 13, 16, 17];
    if by_cpus {
        let n = std::thread::available_parallelism().map(|n| n.get()).unwrap_or(16);
        for k in [2 * n - 1, 2 * n, 2 * n + 1, 2 * n + 3, 3 * n, 3 * n + 1, 4 * n + 1] {
            lens.push(k);
        }
    }
    lens.sort_unstable();
    lens.dedup();
    lens.into_iter().map(|len| (0..len).map(|i| (i % 3) as u8).collect()).collect()
}

struct StageOpts {
    fail: bool,
    panic: bool,
    late: bool,
}

fn stages_for(len: usize, o: &StageOpts) -> Vec<Stage> {
    let mut v = vec![Stage::Id, Stage::Inc];
    if o.fail {
        v.extend((0..len).map(Stage::FailAt));
    }
    if o.panic {
        v.extend((0..len).map(Stage::PanicAt));
    }
    if o.late {
        v.extend((0..len.saturating_sub(1)).map(Stage::LateAt));
    }
    v
}

const RTS: [Rt; 2] = [Rt::Current, Rt::Multi2];

/// (batch size, buffer, in-flight): full grid in the thorough tier, a covering diagonal in the quick tier
fn pipe_cfgs(tier: Tier) -> Vec<(usize, usize, usize)> {
    match tier {
        Tier::Quick => vec![(1, 1, 1), (2, 2, 2), (3, 1, 2)],
        Tier::Thorough => {
            let mut v = Vec::new();
            for b in 1..=3 {
                for buf in 1..=2 {
                    for fl in 1..=2 {
                        v.push((b, buf, fl));
                    }
                }
            }
            v
        }
    }
}

// ------------------------------------------------------------------------------------------------

struct Pipes {
    api: Api,
}

impl EnumSpec for Pipes {
    type Case = Case;

    fn name(&self) -> String {
        self.api.name().to_string()
    }

    fn space(&self, tier: Tier) -> String {
        let n = max_len(tier);
        let common = format!("inputs = all vectors of length <= {n} over {{0,1,2}} (items are (index, value)); for the chunking APIs (FiberPool::parallel_*, concurrency::parallel_*) additionally cyclic vectors of lengths 5..17 x max_workers {{1,2,3}} (and around 2x, 3x, 4x the CPU count for the functions that chunk by num_cpus) with stage/op in {{Id, +1 / concat, sum, fail on the last item}}: a length the chunk size does not divide; runtimes: current-thread and 2-worker multi-thread");
        let detail = match self.api {
            Api::PoolMap | Api::PoolForEach => "stage in {Id, +1, FailAt(i), PanicAt(i) for every i; parallel_map also LateAt(i): the call for item i returns only after the call for item i+1 has returned (max_fibers >= 2), so completion order differs from input order on the 2-thread runtime}; max_fibers {1,2,8}".to_string(),
            Api::PoolReduce => "op in {concat (non-commutative, identity []), sum (identity 0), concat failing/panicking on item i for every i}; max_fibers {1,2,8} x max_workers {1,2,3}; oracle = sequential left fold".to_string(),
            Api::PoolSpawnBatch => "futures with stage in {Id, +1, FailAt(i), PanicAt(i), LateAt(i) (item i finishes after item i+1; max_fibers >= 2)}; max_fibers {1,2,8}; every handle awaited in input order: handle j yields Ok(stage(item j)) or Err exactly for the misbehaving item; every future ran exactly once".to_string(),
            Api::ModMap => "stage in {Id, +1, FailAt(i), PanicAt(i)}".to_string(),
            Api::ModReduce => "op as for FiberPool::parallel_reduce (chunking by num_cpus)".to_string(),
            Api::ExecSingle => "one call per case on a single item: value {0,1,2} x stage {Id, +1, Fail, Slow (never finishes; stage_timeout 5 ms)} x stage kind {MapStage, BatchMapStage plain/batch, async stage, FilterStage}".to_string(),
            Api::ExecTwoStage => "single item, value {0,1,2} x stage1, stage2 in {Id, +1, Fail, Slow} x kind {MapStage, async stage}".to_string(),
            Api::ProcessBatch => "stage in {Id, +1, FailAt(i) every i, SlowAt(i) (async stage only; on the slow-input subset: all vectors of length <= 2 quick / <= 3 thorough plus cyclic ones up to the maximum length)} x stage kind {MapStage, BatchMapStage plain, BatchMapStage with batch fn, async stage with trait-default process_batch, FilterStage} x enable_batching {f,t} x (batch_size {1,2,3} x buffer {1,2} x in-flight {1,2}; quick: 3 of the 12 combinations)".to_string(),
            Api::ExecStream => "chains of 1..3 stages (kind MapStage or async stage), one stage of the chain (every position) carries stage in {Id, +1, FailAt(i), PanicAt(i), SlowAt(i) (async kind, slow-input subset)}; buffer {1,2} (also the capacity of the caller's input and output channels) x in-flight {1,2}; feeder, execute_stream and collector run joined; oracle: Ok(()) => collected outputs == sequential map in order; a failing/panicking/timed-out item => Err".to_string(),
            Api::Collector => "max_batch_size {1,2,3}; every input added in order, optionally one check_timeout() after k adds (every k) with batch_timeout 0 (always due) or 3600 s (never due), then flush(); oracle: concatenation of all returned batches == inputs, collector empty afterwards".to_string(),
            Api::RunWithYield | Api::ProcessVecYielding | Api::YieldingIter => "stage in {Id, +1, FailAt(i)}; yield interval {1,2,3}".to_string(),
            Api::ConcurrentWithYield | Api::ProcessFilesParallel => "futures with stage in {Id, +1, FailAt(i), LateAt(i) (max_concurrent >= 2)}; max_concurrent {1,2,3}".to_string(),
            Api::IoBatchProcess => "stage in {Id, +1, FailAt(i)}; batch size {1,2,3}; the processor maps its chunk sequentially".to_string(),
            Api::BlobBatch => "stores {AsyncMemoryBlobStore (own batch impl), AsyncCompressedBlobStore<memory> (trait-default batch impl)}; blobs [index, value]; put_batch then get_batch of the returned ids (Id), of the ids reversed (+1), or after removing record i (FailAt(i)): one id per blob, all distinct; get_batch returns the blobs of the requested ids in request order, or Err if one is missing".to_string(),
        };
        format!("{common}; {detail}")
    }

    fn cases(&self, tier: Tier, f: &mut dyn FnMut(Case) -> bool) {
        match self.api {
            Api::PoolMap | Api::PoolForEach | Api::PoolSpawnBatch => {
                let spawn = self.api == Api::PoolSpawnBatch;
                for rt in RTS {
                    for max_fibers in [1usize, 2, 8] {
                        let ok = for_inputs(tier, &mut |inp| {
                            // (the synchronous LateAt of parallel_map needs two items running at the same time: 2-thread runtime only)
                            let late = (spawn || (self.api == Api::PoolMap && rt == Rt::Multi2)) && max_fibers >= 2;
                            for stage in stages_for(inp.len(), &StageOpts { fail: true, panic: true, late }) {
                                if !f(Case { rt, input: inp.to_vec(), stage, max_fibers, max_workers: 2, ..Default::default() }) {
                                    return false;
                                }
                            }
                            true
                        });
                        if !ok {
                            return;
                        }
                        for max_workers in [1usize, 2, 3] {
                            for inp in long_inputs(false) {
                                for stage in [Stage::Id, Stage::Inc, Stage::FailAt(inp.len() - 1)] {
                                    if !f(Case { rt, input: inp.clone(), stage, max_fibers, max_workers, ..Default::default() }) {
                                        return;
                                    }
                                }
                            }
                        }
                    }
                }
            }
            Api::PoolReduce | Api::ModReduce => {
                let grid: Vec<(usize, usize)> = if self.api == Api::PoolReduce {
                    let mut g = Vec::new();
                    for mf in [1usize, 2, 8] {
                        for mw in [1usize, 2, 3] {
                            g.push((mf, mw));
                        }
                    }
                    g
                } else {
                    vec![(0, 0)]
                };
                for rt in RTS {
                    for &(max_fibers, max_workers) in &grid {
                        let ok = for_inputs(tier, &mut |inp| {
                            let mut ops = vec![ROp::Concat, ROp::Sum];
                            ops.extend((0..inp.len()).map(ROp::ConcatFailAt));
                            ops.extend((0..inp.len()).map(ROp::ConcatPanicAt));
                            for rop in ops {
                                if !f(Case { rt, input: inp.to_vec(), rop, max_fibers, max_workers, ..Default::default() }) {
                                    return false;
                                }
                            }
                            true
                        });
                        if !ok {
                            return;
                        }
                        for inp in long_inputs(self.api == Api::ModReduce) {
                            for rop in [ROp::Concat, ROp::Sum, ROp::ConcatFailAt(inp.len() - 1)] {
                                if !f(Case { rt, input: inp.clone(), rop, max_fibers, max_workers, ..Default::default() }) {
                                    return;
                                }
                            }
                        }
                    }
                }
            }
            Api::ModMap => {
                for rt in RTS {
                    let ok = for_inputs(tier, &mut |inp| {
                        for stage in stages_for(inp.len(), &StageOpts { fail: true, panic: true, late: false }) {
                            if !f(Case { rt, input: inp.to_vec(), stage, ..Default::default() }) {
                                return false;
                            }
                        }
                        true
                    });
                    if !ok {
                        return;
                    }
                    for inp in long_inputs(true) {
                        for stage in [Stage::Id, Stage::Inc, Stage::FailAt(inp.len() - 1)] {
                            if !f(Case { rt, input: inp.clone(), stage, ..Default::default() }) {
                                return;
                            }
                        }
                    }
                }
            }
            Api::ExecSingle => {
                for rt in RTS {
                    for kind in [Kind::Map, Kind::BatchMapPlain, Kind::BatchMapBatch, Kind::Async, Kind::FilterNot1] {
                        for v in 0u8..3 {
                            let stages: &[Stage] = match kind {
                                Kind::FilterNot1 => &[Stage::Id],
                                Kind::Async => &[Stage::Id, Stage::Inc, Stage::FailAt(0), Stage::SlowAt(0)],
                                _ => &[Stage::Id, Stage::Inc, Stage::FailAt(0)],
                            };
                            for &stage in stages {
                                if !f(Case { rt, input: vec![v], stage, kind, batch: 1, buffer: 1, in_flight: 1, ..Default::default() }) {
                                    return;
                                }
                            }
                        }
                    }
                }
            }
            Api::ExecTwoStage => {
                for rt in RTS {
                    for kind in [Kind::Map, Kind::Async] {
                        let stages: &[Stage] = if kind == Kind::Async {
                            &[Stage::Id, Stage::Inc, Stage::FailAt(0), Stage::SlowAt(0)]
                        } else {
                            &[Stage::Id, Stage::Inc, Stage::FailAt(0)]
                        };
                        for v in 0u8..3 {
                            for &stage in stages {
                                for &stage2 in stages {
                                    if !f(Case { rt, input: vec![v], stage, stage2, kind, batch: 1, buffer: 1, in_flight: 1, ..Default::default() }) {
                                        return;
                                    }
                                }
                            }
                        }
                    }
                }
            }
            Api::ProcessBatch => {
                for rt in RTS {
                    for kind in [Kind::Map, Kind::BatchMapPlain, Kind::BatchMapBatch, Kind::Async, Kind::FilterNot1] {
                        for batching in [false, true] {
                            for (batch, buffer, in_flight) in pipe_cfgs(tier) {
                                let ok = for_inputs(tier, &mut |inp| {
                                    let stages = if kind == Kind::FilterNot1 {
                                        vec![Stage::Id]
                                    } else {
                                        stages_for(inp.len(), &StageOpts { fail: true, panic: false, late: false })
                                    };
                                    for stage in stages {
                                        if !f(Case { rt, input: inp.to_vec(), stage, kind, batching, batch, buffer, in_flight, ..Default::default() }) {
                                            return false;
                                        }
                                    }
                                    true
                                });
                                if !ok {
                                    return;
                                }
                            }
                            if kind == Kind::Async {
                                let ok = for_slow_inputs(tier, &mut |inp| {
                                    for i in 0..inp.len() {
                                        if !f(Case { rt, input: inp.to_vec(), stage: Stage::SlowAt(i), kind, batching, batch: 2, buffer: 1, in_flight: 1, ..Default::default() }) {
                                            return false;
                                        }
                                    }
                                    true
                                });
                                if !ok {
                                    return;
                                }
                            }
                        }
                    }
                }
            }
            Api::ExecStream => {
                for rt in RTS {
                    for kind in [Kind::Map, Kind::Async] {
                        for n_stages in 1..=3usize {
                            for buffer in [1usize, 2] {
                                for in_flight in [1usize, 2] {
                                    let ok = for_inputs(tier, &mut |inp| {
                                        for stage in stages_for(inp.len(), &StageOpts { fail: true, panic: true, late: false }) {
                                            // a well-behaved chain is the same whichever position "carries" the stage
                                            let positions = if misbehaves(stage).is_some() { n_stages } else { 1 };
                                            for at in 0..positions {
                                                if !f(Case { rt, input: inp.to_vec(), stage, kind, n_stages, at, buffer, in_flight, batch: 1, ..Default::default() }) {
                                                    return false;
                                                }
                                            }
                                        }
                                        true
                                    });
                                    if !ok {
                                        return;
                                    }
                                }
                            }
                            if kind == Kind::Async {
                                let ok = for_slow_inputs(tier, &mut |inp| {
                                    for i in 0..inp.len() {
                                        for at in 0..n_stages {
                                            if !f(Case { rt, input: inp.to_vec(), stage: Stage::SlowAt(i), kind, n_stages, at, buffer: 1, in_flight: 1, batch: 1, ..Default::default() }) {
                                                return false;
                                            }
                                        }
                                    }
                                    true
                                });
                                if !ok {
                                    return;
                                }
                            }
                        }
                    }
                }
            }
            Api::Collector => {
                for rt in RTS {
                    for batch in 1..=3usize {
                        let ok = for_inputs(tier, &mut |inp| {
                            if !f(Case { rt, input: inp.to_vec(), batch, ..Default::default() }) {
                                return false;
                            }
                            for k in 0..=inp.len() {
                                for zero_timeout in [true, false] {
                                    if !f(Case { rt, input: inp.to_vec(), batch, check_after: Some(k), zero_timeout, ..Default::default() }) {
                                        return false;
                                    }
                                }
                            }
                            true
                        });
                        if !ok {
                            return;
                        }
                    }
                }
            }
            Api::RunWithYield | Api::ProcessVecYielding | Api::YieldingIter | Api::IoBatchProcess | Api::ConcurrentWithYield | Api::ProcessFilesParallel => {
                let futures_api = matches!(self.api, Api::ConcurrentWithYield | Api::ProcessFilesParallel);
                for rt in RTS {
                    for batch in 1..=3usize {
                        let ok = for_inputs(tier, &mut |inp| {
                            for stage in stages_for(inp.len(), &StageOpts { fail: true, panic: false, late: futures_api && batch >= 2 }) {
                                if !f(Case { rt, input: inp.to_vec(), stage, batch, ..Default::default() }) {
                                    return false;
                                }
                            }
                            true
                        });
                        if !ok {
                            return;
                        }
                    }
                }
            }
            Api::BlobBatch => {
                for rt in RTS {
                    for kind in [Kind::Map, Kind::Async] {
                        let ok = for_inputs(tier, &mut |inp| {
                            for stage in stages_for(inp.len(), &StageOpts { fail: true, panic: false, late: false }) {
                                if !f(Case { rt, input: inp.to_vec(), stage, kind, ..Default::default() }) {
                                    return false;
                                }
                            }
                            true
                        });
                        if !ok {
                            return;
                        }
                    }
                }
            }
        }
    }

    fn run(&self, c: &Case) -> Outcome {
        match self.api {
            Api::PoolMap => run_pool_map(c),
            Api::PoolForEach => run_pool_for_each(c),
            Api::PoolReduce | Api::ModReduce => run_reduce(self.api, c),
            Api::PoolSpawnBatch => run_spawn_batch(c),
            Api::ModMap => run_mod_map(c),
            Api::ExecSingle => run_exec_single(c),
            Api::ExecTwoStage => run_exec_two_stage(c),
            Api::ProcessBatch => run_process_batch(c),
            Api::ExecStream => run_exec_stream(c),
            Api::Collector => run_collector(c),
            Api::RunWithYield | Api::ProcessVecYielding | Api::YieldingIter | Api::IoBatchProcess => run_sequential_helpers(self.api, c),
            Api::ConcurrentWithYield | Api::ProcessFilesParallel => run_unordered(self.api, c),
            Api::BlobBatch => run_blob_batch(c),
        }
    }
}

// ------------------------------------------------------------------------------------------------
// FiberPool

/// LateAt(i) for the APIs that take a SYNCHRONOUS closure (FiberPool::parallel_map / parallel_for_each, concurrency::parallel_map):
/// the call for item i returns only after the call for item i+1 has returned (bounded: 300 ms, so that a runtime that runs the
/// items one after the other is not stalled for long).  Completion order then differs from input order wherever two items
/// can run at the same time.
fn late_sync(stage: Stage, n: usize) -> impl Fn(Item) -> ZResult<Item> + Send + Sync + Clone + 'static {
    let done: Arc<Vec<std::sync::atomic::AtomicBool>> = Arc::new((0..n + 1).map(|_| std::sync::atomic::AtomicBool::new(false)).collect());
    move |it: Item| {
        if let Stage::LateAt(i) = stage {
            if it.0 == i && i + 1 < done.len() {
                let t0 = std::time::Instant::now();
                while !done[i + 1].load(Ordering::SeqCst) && t0.elapsed() < Duration::from_millis(300) {
                    std::thread::sleep(Duration::from_micros(200));
                }
            }
        }
        let r = apply(stage, it);
        if it.0 < done.len() {
            done[it.0].store(true, Ordering::SeqCst);
        }
        r
    }
}

fn run_pool_map(c: &Case) -> Outcome {
    let stage = c.stage;
    let its = items(&c.input);
    let f = late_sync(stage, c.input.len());
    let got = match block(c.rt, async {
        let pool = pool(c)?;
        pool.parallel_map(its, move |it| f(it)).await
    }) {
        Ok(r) => r,
        Err(o) => return o,
    };
    match judge_seq(got, reference(&[stage], &c.input), swallow_class(&[stage], c.input.len())) {
        // a LateAt case fails deterministically when results come back in completion order: its own class, so that it is not
        // represented by a timing-dependent witness of the plain stages
        Outcome::Fail(mut f) if f.clause == "result_mismatch" && f.class == "reordered" && matches!(stage, Stage::LateAt(_)) => {
            f.class = "completion_order".to_string();
            Outcome::Fail(f)
        }
        o => o,
    }
}

fn run_mod_map(c: &Case) -> Outcome {
    let stage = c.stage;
    let its = items(&c.input);
    let f = late_sync(stage, c.input.len());
    let got = match block(c.rt, async { zipora::concurrency::parallel_map(its, move |it| f(it)).await }) {
        Ok(r) => r,
        Err(o) => return o,
    };
    judge_seq(got, reference(&[stage], &c.input), swallow_class(&[stage], c.input.len()))
}

fn run_pool_for_each(c: &Case) -> Outcome {
    let stage = c.stage;
    let its = items(&c.input);
    let log: Arc<Mutex<Vec<Item>>> = Arc::new(Mutex::new(Vec::new()));
    let log2 = log.clone();
    let got = match block(c.rt, async {
        let pool = pool(c)?;
        pool.parallel_for_each(its, move |it| {
            log2.lock().unwrap().push(it);
            apply(stage, it).map(|_| ())
        })
        .await
    }) {
        Ok(r) => r,
        Err(o) => return o,
    };
    let mut visited = log.lock().unwrap().clone();
    visited.sort();
    for w in visited.windows(2) {
        if w[0] == w[1] {
            return fail("visited_twice", "for_each", format!("item {:?} was passed to the closure more than once (visited: {:?})", w[0], visited));
        }
    }
    match (got, misbehaves(stage)) {
        (Ok(()), None) => {
            let want = items(&c.input);
            if visited == want {
                if want.is_empty() {
                    Outcome::trivial("ok_empty")
                } else {
                    Outcome::pass("ok")
                }
            } else {
                fail("for_each_visits", mismatch_class(&visited, &want), format!("Ok(()) returned but the closure saw {:?} instead of every input exactly once ({:?})", visited, want))
            }
        }
        (Err(_), Some(_)) => Outcome::pass("err"),
        (Ok(()), Some(_)) => fail("error_swallowed", swallow_class(&[stage], c.input.len()), "the closure failed for one item, parallel_for_each returned Ok(())"),
        (Err(e), None) => fail("unexpected_err", "err", format!("no item fails, the call returned Err({:?})", e)),
    }
}

fn run_reduce(api: Api, c: &Case) -> Outcome {
    let its = items(&c.input);
    let n = its.len();
    match c.rop {
        ROp::Sum => {
            let vals: Vec<u64> = c.input.iter().map(|&v| v as u64).collect();
            let want: u64 = vals.iter().sum();
            let got = match block(c.rt, async {
                if api == Api::PoolReduce {
                    let pool = pool(c)?;
                    pool.parallel_reduce(vals, 0u64, |a, b| Ok(a + b)).await
                } else {
                    zipora::concurrency::parallel_reduce(vals, 0u64, |a, b| Ok(a + b)).await
                }
            }) {
                Ok(r) => r,
                Err(o) => return o,
            };
            match got {
                Ok(g) if g == want => {
                    if n == 0 {
                        Outcome::trivial("ok_empty")
                    } else {
                        Outcome::pass("ok_sum")
                    }
                }
                Ok(g) => fail("reduce_mismatch", "sum", format!("sequential fold gives {want}, parallel_reduce returned Ok({g})")),
                Err(e) => fail("unexpected_err", "err", format!("no item fails, the call returned Err({:?})", e)),
            }
        }
        rop => {
            let lists: Vec<Vec<Item>> = its.iter().map(|&it| vec![it]).collect();
            let op = move |mut a: Vec<Item>, b: Vec<Item>| -> ZResult<Vec<Item>> {
                match rop {
                    ROp::ConcatFailAt(i) if b.iter().any(|x| x.0 == i) => return Err(ZiporaError::invalid_data("injected reduce failure")),
                    ROp::ConcatPanicAt(i) if b.iter().any(|x| x.0 == i) => panic!("injected reduce panic"),
                    _ => {}
                }
                a.extend(b);
                Ok(a)
            };
            let got = match block(c.rt, async {
                if api == Api::PoolReduce {
                    let pool = pool(c)?;
                    pool.parallel_reduce(lists, Vec::new(), op).await
                } else {
                    zipora::concurrency::parallel_reduce(lists, Vec::new(), op).await
                }
            }) {
                Ok(r) => r,
                Err(o) => return o,
            };
            let (want, swallow) = match rop {
                ROp::ConcatFailAt(_) => (None, "stage_err_or_timeout"),
                ROp::ConcatPanicAt(_) => (None, "stage_panic"),
                _ => (Some(its.clone()), "none"),
            };
            match (got, want) {
                (Ok(g), Some(w)) if g == w => {
                    if n == 0 {
                        Outcome::trivial("ok_empty")
                    } else {
                        Outcome::pass("ok_concat")
                    }
                }
                (Ok(g), Some(w)) => fail("reduce_mismatch", mismatch_class(&g, &w), format!("sequential fold (concatenation) gives {:?}, parallel_reduce returned Ok({:?})", w, g)),
                (Err(_), None) => Outcome::pass("err"),
                (Ok(g), None) => fail("error_swallowed", swallow, format!("the operation fails on one item, parallel_reduce returned Ok({:?})", g)),
                (Err(e), Some(_)) => fail("unexpected_err", "err", format!("no item fails, the call returned Err({:?})", e)),
            }
        }
    }
}

fn run_spawn_batch(c: &Case) -> Outcome {
    let stage = c.stage;
    let its = items(&c.input);
    let n = its.len();
    let runs: Arc<Vec<AtomicUsize>> = Arc::new((0..n).map(|_| AtomicUsize::new(0)).collect());
    let gate = Gate::new();
    let futs: Vec<BoxFut<Item>> = its.iter().map(|&it| item_future(stage, gate.clone(), it, Some(runs.clone()))).collect();
    let got = match block(c.rt, async {
        let pool = pool(c)?;
        let handles = pool.spawn_batch(futs);
        let mut out = Vec::with_capacity(handles.len());
        for h in handles {
            out.push(h.await);
        }
        Ok::<_, ZiporaError>(out)
    }) {
        Ok(Ok(r)) => r,
        Ok(Err(e)) => return fail("unexpected_err", "pool_new", format!("FiberPool::new failed: {:?}", e)),
        Err(o) => return o,
    };
    if got.len() != n {
        return fail("result_mismatch", if got.len() < n { "shorter" } else { "longer" }, format!("{} futures submitted, {} handles returned", n, got.len()));
    }
    for (j, r) in got.iter().enumerate() {
        let want = if misbehaves(stage) == Some(j) { None } else { apply(base(stage), its[j]).ok() };
        match (r, want) {
            (Ok(g), Some(w)) if *g == w => {}
            (Err(_), None) => {}
            (Ok(g), Some(w)) => {
                return fail("result_mismatch", "wrong_values", format!("handle {j} yields Ok({:?}), its future computes {:?} (all handles: {:?})", g, w, got))
            }
            (Ok(g), None) => return fail("error_swallowed", swallow_class(&[stage], n), format!("future {j} fails but its handle yields Ok({:?})", g)),
            (Err(e), Some(w)) => {
                return fail("unexpected_err", "err", format!("handle {j} yields Err({:?}) although its future returns Ok({:?}) (all handles: {:?})", e, w, got))
            }
        }
    }
    for (j, r) in runs.iter().enumerate() {
        let k = r.load(Ordering::SeqCst);
        if k != 1 {
            return fail("ran_exactly_once", if k == 0 { "never_run" } else { "ran_twice" }, format!("future {j} was started {k} times although its handle completed"));
        }
    }
    if n == 0 {
        Outcome::trivial("ok_empty")
    } else if misbehaves(stage).is_some() {
        Outcome::pass("err_on_its_handle")
    } else {
        Outcome::pass("ok")
    }
}

// ------------------------------------------------------------------------------------------------
// Pipeline

fn opt_items(v: Vec<Option<Item>>) -> Vec<(usize, i16)> {
    // FilterStage results: Some(item) -> (idx, value), None -> (usize::MAX, -1)
    v.into_iter().map(|o| o.map(|(i, x)| (i, x as i16)).unwrap_or((usize::MAX, -1))).collect()
}

fn filter_reference(input: &[u8]) -> Vec<(usize, i16)> {
    input.iter().enumerate().map(|(i, &v)| if v != 1 { (i, v as i16) } else { (usize::MAX, -1) }).collect()
}

fn run_exec_single(c: &Case) -> Outcome {
    let it = (0usize, c.input[0]);
    let stage = c.stage;
    let p = pipeline(c, is_slow(stage));
    if c.kind == Kind::FilterNot1 {
        let st = FilterStage::new("f".to_string(), |x: &Item| x.1 != 1);
        let got = match block(c.rt, async { p.execute_single(st, it).await }) {
            Ok(r) => r,
            Err(o) => return o,
        };
        return judge_seq(got.map(|o| opt_items(vec![o])), Some(filter_reference(&c.input)), "none");
    }
    let got = match block(c.rt, async {
        match c.kind {
            Kind::Map => p.execute_single(MapStage::new("m".to_string(), move |x: Item| apply(stage, x)), it).await,
            Kind::BatchMapPlain => {
                p.execute_single(BatchMapStage::<_, fn(Vec<Item>) -> ZResult<Vec<Item>>>::new("b".to_string(), move |x: Item| apply(stage, x)), it).await
            }
            Kind::BatchMapBatch => {
                p.execute_single(
                    BatchMapStage::with_batch_support("bb".to_string(), move |x: Item| apply(stage, x), move |v: Vec<Item>| v.into_iter().map(|x| apply(stage, x)).collect::<ZResult<Vec<Item>>>()),
                    it,
                )
                .await
            }
            _ => p.execute_single(AsyncStage { stage }, it).await,
        }
    }) {
        Ok(r) => r,
        Err(o) => return o,
    };
    judge_seq(got.map(|x| vec![x]), reference(&[stage], &c.input), swallow_class(&[stage], 1))
}

fn run_exec_two_stage(c: &Case) -> Outcome {
    let it = (0usize, c.input[0]);
    let (s1, s2) = (c.stage, c.stage2);
    let p = pipeline(c, is_slow(s1) || is_slow(s2));
    let got = match block(c.rt, async {
        match c.kind {
            Kind::Map => {
                p.execute_two_stage(MapStage::new("m1".to_string(), move |x: Item| apply(s1, x)), MapStage::new("m2".to_string(), move |x: Item| apply(s2, x)), it).await
            }
            _ => p.execute_two_stage(AsyncStage { stage: s1 }, AsyncStage { stage: s2 }, it).await,
        }
    }) {
        Ok(r) => r,
        Err(o) => return o,
    };
    judge_seq(got.map(|x| vec![x]), reference(&[s1, s2], &c.input), swallow_class(&[s1, s2], 1))
}

fn run_process_batch(c: &Case) -> Outcome {
    let its = items(&c.input);
    let stage = c.stage;
    let p = pipeline(c, is_slow(stage));
    if c.kind == Kind::FilterNot1 {
        let st = FilterStage::new("f".to_string(), |x: &Item| x.1 != 1);
        let got = match block(c.rt, async { p.process_batch(st, its).await }) {
            Ok(r) => r,
            Err(o) => return o,
        };
        return judge_seq(got.map(opt_items), Some(filter_reference(&c.input)), "none");
    }
    let got = match block(c.rt, async {
        match c.kind {
            Kind::Map => p.process_batch(MapStage::new("m".to_string(), move |x: Item| apply(stage, x)), its).await,
            Kind::BatchMapPlain => {
                p.process_batch(BatchMapStage::<_, fn(Vec<Item>) -> ZResult<Vec<Item>>>::new("b".to_string(), move |x: Item| apply(stage, x)), its).await
            }
            Kind::BatchMapBatch => {
                p.process_batch(
                    BatchMapStage::with_batch_support("bb".to_string(), move |x: Item| apply(stage, x), move |v: Vec<Item>| v.into_iter().map(|x| apply(stage, x)).collect::<ZResult<Vec<Item>>>()),
                    its,
                )
                .await
            }
            _ => p.process_batch(AsyncStage { stage }, its).await,
        }
    }) {
        Ok(r) => r,
        Err(o) => return o,
    };
    judge_seq(got, reference(&[stage], &c.input), swallow_class(&[stage], c.input.len()))
}

fn run_exec_stream(c: &Case) -> Outcome {
    let its = items(&c.input);
    let n_stages = c.n_stages.max(1);
    let chain: Vec<Stage> = (0..n_stages).map(|k| if k == c.at { c.stage } else { base(c.stage) }).collect();
    let stages: Vec<Box<dyn PipelineStage<Item, Item>>> = chain.iter().map(|&s| boxed_stage(c.kind, s)).collect();
    let p = pipeline(c, chain.iter().any(|&s| is_slow(s)));
    let cap = c.buffer.max(1);
    let got = match block(c.rt, async {
        let (in_tx, in_rx) = mpsc::channel::<Item>(cap);
        let (out_tx, mut out_rx) = mpsc::channel::<Item>(cap);
        let feeder = async move {
            for it in its {
                if in_tx.send(it).await.is_err() {
                    break; // the first stage stopped reading
                }
            }
        };
        let collector = async move {
            let mut out = Vec::new();
            while let Some(x) = out_rx.recv().await {
                out.push(x);
            }
            out
        };
        let (_, r, out) = tokio::join!(feeder, p.execute_stream(stages, in_rx, out_tx), collector);
        (r, out)
    }) {
        Ok(r) => r,
        Err(o) => return o,
    };
    let (r, out) = got;
    // the stream's "returned value" is the pair (Result, what arrived on the output channel before it closed)
    judge_seq(r.map(|()| out), reference(&chain, &c.input), swallow_class(&chain, c.input.len()))
}

fn run_collector(c: &Case) -> Outcome {
    let its = items(&c.input);
    let max_batch = c.batch.max(1);
    let timeout = if c.zero_timeout { Duration::ZERO } else { NEVER };
    let got = match block(c.rt, async {
        let col: BatchCollector<Item> = BatchCollector::new(max_batch, timeout);
        let mut batches: Vec<Vec<Item>> = Vec::new();
        let mut adds = 0usize;
        if c.check_after == Some(0) {
            if let Some(b) = col.check_timeout().await? {
                batches.push(b);
            }
        }
        for it in its {
            if let Some(b) = col.add(it).await? {
                batches.push(b);
            }
            adds += 1;
            if c.check_after == Some(adds) {
                if let Some(b) = col.check_timeout().await? {
                    batches.push(b);
                }
            }
        }
        if let Some(b) = col.flush().await? {
            batches.push(b);
        }
        let left = col.len().await;
        let empty = col.is_empty().await;
        Ok::<_, ZiporaError>((batches, left, empty))
    }) {
        Ok(r) => r,
        Err(o) => return o,
    };
    let (batches, left, empty) = match got {
        Ok(x) => x,
        Err(e) => return fail("unexpected_err", "err", format!("BatchCollector returned Err({:?})", e)),
    };
    let flat: Vec<Item> = batches.iter().flatten().copied().collect();
    let want = items(&c.input);
    if flat != want {
        return fail("result_mismatch", mismatch_class(&flat, &want), format!("added {:?}, the batches handed out are {:?}", want, batches));
    }
    if left != 0 || !empty {
        return fail("collector_not_empty", "after_flush", format!("after flush() len() = {left}, is_empty() = {empty}"));
    }
    if batches.iter().any(|b| b.is_empty()) {
        return fail("empty_batch", "some_empty", format!("an empty batch was handed out: {:?}", batches));
    }
    if want.is_empty() {
        Outcome::trivial("ok_empty")
    } else {
        Outcome::pass(&format!("ok_{}_batches", batches.len().min(3)))
    }
}

// ------------------------------------------------------------------------------------------------
// fiber_yield / fiber_aio helpers with a map/batch shape

fn run_sequential_helpers(api: Api, c: &Case) -> Outcome {
    let its = items(&c.input);
    let stage = c.stage;
    let k = c.batch.max(1);
    let want = reference(&[stage], &c.input);
    let swallow = swallow_class(&[stage], c.input.len());
    match api {
        Api::RunWithYield => {
            let its2 = its.clone();
            let got = match block(c.rt, async { CooperativeUtils::run_with_yield(its2.len(), k, |i| apply(stage, its2[i])).await }) {
                Ok(r) => r,
                Err(o) => return o,
            };
            judge_seq(got, want, swallow)
        }
        Api::ProcessVecYielding => {
            let got = match block(c.rt, async { CooperativeUtils::process_vec_yielding(its, k, |it| apply(stage, it)).await }) {
                Ok(r) => r,
                Err(o) => return o,
            };
            judge_seq(got, want, swallow)
        }
        Api::YieldingIter => {
            // for_each: Ok(count) => count == len and the closure saw every item once, in order
            let mut seen: Vec<Item> = Vec::new();
            let its2 = its.clone();
            let got = match block(c.rt, async {
                let r = YieldingIterator::new(its2.clone().into_iter(), k)
                    .for_each(|it| {
                        seen.push(it);
                        apply(stage, it).map(|_| ())
                    })
                    .await;
                let collected: Vec<Item> = YieldingIterator::new(its2.into_iter(), k).collect().await;
                (r, collected)
            }) {
                Ok(r) => r,
                Err(o) => return o,
            };
            let (r, collected) = got;
            if collected != its {
                return fail("result_mismatch", mismatch_class(&collected, &its), format!("collect() of {:?} gives {:?}", its, collected));
            }
            match (r, misbehaves(stage)) {
                (Ok(cnt), None) => {
                    if cnt != its.len() || seen != its {
                        fail("for_each_visits", mismatch_class(&seen, &its), format!("for_each returned Ok({cnt}) having visited {:?}; inputs {:?}", seen, its))
                    } else if its.is_empty() {
                        Outcome::trivial("ok_empty")
                    } else {
                        Outcome::pass("ok")
                    }
                }
                (Err(_), Some(_)) => Outcome::pass("err"),
                (Ok(cnt), Some(_)) => fail("error_swallowed", swallow, format!("the closure failed for one item, for_each returned Ok({cnt})")),
                (Err(e), None) => fail("unexpected_err", "err", format!("no item fails, for_each returned Err({:?})", e)),
            }
        }
        _ => {
            // FiberIoUtils::batch_process
            let got = match block(c.rt, async {
                FiberIoUtils::batch_process(its, k, move |chunk: Vec<Item>| {
                    Box::pin(async move { chunk.into_iter().map(|it| apply(stage, it)).collect::<ZResult<Vec<Item>>>() }) as BoxFut<Vec<Item>>
                })
                .await
            }) {
                Ok(r) => r,
                Err(o) => return o,
            };
            judge_seq(got, want, swallow)
        }
    }
}

fn run_unordered(api: Api, c: &Case) -> Outcome {
    let its = items(&c.input);
    let stage = c.stage;
    let k = c.batch.max(1);
    let gate = Gate::new();
    let got = match api {
        Api::ConcurrentWithYield => {
            let futs: Vec<BoxFut<Item>> = its.iter().map(|&it| item_future(stage, gate.clone(), it, None)).collect();
            block(c.rt, async { CooperativeUtils::concurrent_with_yield(futs, k).await })
        }
        _ => {
            // paths "i-v" carry the item
            let paths: Vec<PathBuf> = its.iter().map(|(i, v)| PathBuf::from(format!("{i}-{v}"))).collect();
            let processor = move |p: PathBuf| -> BoxFut<Item> {
                let s = p.to_string_lossy().to_string();
                let (i, v) = s.split_once('-').expect("harness path");
                item_future(stage, gate.clone(), (i.parse().unwrap(), v.parse().unwrap()), None)
            };
            block(c.rt, async { FiberIoUtils::process_files_parallel(paths, k, processor).await })
        }
    };
    let got = match got {
        Ok(r) => r,
        Err(o) => return o,
    };
    let want = reference(&[stage], &c.input);
    // "completion order": every item is present, the late item i comes after item i+1 and all other items are in input order
    let completion_order = match (stage, &got, &want) {
        (Stage::LateAt(i), Ok(g), Some(w)) if g.len() == w.len() => {
            let others = |v: &[Item]| v.iter().filter(|x| x.0 != i).copied().collect::<Vec<Item>>();
            let pos = |k: usize| g.iter().position(|x| x.0 == k);
            others(g) == others(w) && matches!((pos(i), pos(i + 1)), (Some(a), Some(b)) if a > b)
        }
        _ => false,
    };
    match judge_seq(got, want, swallow_class(&[stage], c.input.len())) {
        // results handed back in completion order instead of input order is one defect (only a LateAt case can show
        // it); any other reordering keeps the class `reordered`
        Outcome::Fail(mut f) if f.clause == "result_mismatch" && f.class == "reordered" && completion_order => {
            f.class = "completion_order".to_string();
            Outcome::Fail(f)
        }
        o => o,
    }
}

// ------------------------------------------------------------------------------------------------
// AsyncBlobStore batch operations

async fn blob_batch<S: AsyncBlobStore>(store: S, c: &Case) -> Outcome {
    let blobs: Vec<Vec<u8>> = c.input.iter().enumerate().map(|(i, &v)| vec![i as u8, v]).collect();
    let refs: Vec<&[u8]> = blobs.iter().map(|b| b.as_slice()).collect();
    let ids = match store.put_batch(refs).await {
        Ok(ids) => ids,
        Err(_) => return Outcome::skip("put_batch returned Err"),
    };
    if ids.len() != blobs.len() {
        return fail("result_mismatch", if ids.len() < blobs.len() { "shorter" } else { "longer" }, format!("put_batch of {} blobs returned {} ids", blobs.len(), ids.len()));
    }
    let mut uniq = ids.clone();
    uniq.sort();
    uniq.dedup();
    if uniq.len() != ids.len() {
        return fail("result_mismatch", "duplicate_ids", format!("put_batch returned duplicate ids {:?}", ids));
    }
    let (req, want): (Vec<u32>, Option<Vec<Vec<u8>>>) = match c.stage {
        Stage::Id => (ids.clone(), Some(blobs.clone())),
        Stage::FailAt(i) => {
            if store.remove(ids[i]).await.is_err() {
                return Outcome::skip("remove returned Err");
            }
            (ids.clone(), None)
        }
        _ => (ids.iter().rev().copied().collect(), Some(blobs.iter().rev().cloned().collect())),
    };
    let got = store.get_batch(req).await;
    judge_seq(got, want, "missing_record")
}

fn run_blob_batch(c: &Case) -> Outcome {
    match block(c.rt, async {
        if c.kind == Kind::Map {
            blob_batch(AsyncMemoryBlobStore::new(), c).await
        } else {
            blob_batch(AsyncCompressedBlobStore::new(AsyncMemoryBlobStore::new(), 3), c).await
        }
    }) {
        Ok(o) => o,
        Err(o) => o,
    }
}

// ------------------------------------------------------------------------------------------------

// ------------------------------------------------------------------------------------------------
// FiberPool::shutdown ("Wait for all active fibers to complete"): the pool is idle when it returns, and only then

#[derive(Clone, Copy, Debug, PartialEq, Eq, Hash, Serialize, Deserialize)]
pub struct ShutdownCase {
    /// fibers that are inside their task (parked on a gate) when shutdown() is first polled
    fibers: u8,
    max_fibers: u8,
    max_workers: u8,
}

pub struct PoolShutdown;

impl EnumSpec for PoolShutdown {
    type Case = ShutdownCase;
    fn name(&self) -> String {
        "FiberPool::shutdown".to_string()
    }
    fn space(&self, _tier: Tier) -> String {
        "current-thread runtime (deterministic): k in 0..=3 fibers accepted by spawn() and parked on a closed gate inside their task, x max_fibers in {k (at least 1), k+1, 2k+2, 8} x max_workers in {1, 2, 4, 16 (> max_fibers)}; shutdown() is polled once (biased select against a ready future): it must be pending while k > 0; the gate is opened and shutdown() awaited (2 s limit): afterwards every accepted fiber has run exactly once and active_fibers is 0".to_string()
    }
    fn cases(&self, _tier: Tier, f: &mut dyn FnMut(ShutdownCase) -> bool) {
        for fibers in 0..=3u8 {
            let mut mf = vec![fibers.max(1), fibers + 1, 2 * fibers + 2, 8];
            mf.dedup();
            for max_fibers in mf {
                for max_workers in [1u8, 2, 4, 16] {
                    if !f(ShutdownCase { fibers, max_fibers, max_workers }) {
                        return;
                    }
                }
            }
        }
    }
    fn run(&self, c: &ShutdownCase) -> Outcome {
        let c = *c;
        let rt = runtime(Rt::Current);
        let r: Result<&'static str, Outcome> = rt.block_on(async move {
            let pool = match FiberPool::new(FiberPoolConfig { max_fibers: c.max_fibers as usize, max_workers: c.max_workers as usize, ..FiberPoolConfig::default() }) {
                Ok(p) => p,
                // a configuration the pool refuses is no case
                Err(_) => return Ok("config_refused"),
            };
            let ran = Arc::new(Mutex::new(vec![0u32; c.fibers as usize]));
            let (gate_tx, gate_rx) = tokio::sync::watch::channel(false);
            let mut handles = Vec::new();
            for i in 0..c.fibers as usize {
                let ran = ran.clone();
                let mut gate = gate_rx.clone();
                handles.push(pool.spawn(async move {
                    while !*gate.borrow() {
                        if gate.changed().await.is_err() {
                            break;
                        }
                    }
                    ran.lock().unwrap()[i] += 1;
                    Ok(())
                }));
            }
            // let every fiber run up to the gate (it holds its permit from then on)
            for _ in 0..8 {
                tokio::task::yield_now().await;
            }
            let active = pool.stats().active_fibers;
            if active != c.fibers as usize {
                return Err(fail("idle", "fibers_not_started", format!("{} fibers were spawned with max_fibers {} but {} are active after the yields", c.fibers, c.max_fibers, active)));
            }
            let early = {
                let sd = pool.shutdown();
                tokio::pin!(sd);
                tokio::select! {
                    biased;
                    r = &mut sd => Some(r.is_ok()),
                    _ = std::future::ready(()) => None,
                }
            };
            if c.fibers > 0 {
                if let Some(ok) = early {
                    return Err(fail("idle", "shutdown_returned_with_fibers_running", format!("shutdown() returned {} while {} accepted fiber(s) were still inside their task (max_fibers {}, max_workers {})", if ok { "Ok" } else { "Err" }, c.fibers, c.max_fibers, c.max_workers)));
                }
            }
            let _ = gate_tx.send(true);
            match tokio::time::timeout(Duration::from_secs(2), pool.shutdown()).await {
                Err(_) => return Err(fail("idle", "shutdown_hangs", format!("shutdown() did not return within 2 s after every fiber could finish (max_fibers {}, max_workers {})", c.max_fibers, c.max_workers))),
                Ok(Err(e)) => return Err(fail("idle", "shutdown_err", format!("shutdown() = Err({e})"))),
                Ok(Ok(())) => {}
            }
            let counts = ran.lock().unwrap().clone();
            if counts.iter().any(|&n| n != 1) {
                return Err(fail("exactly_once", "not_run_when_shutdown_returned", format!("after shutdown() returned the fibers had run {counts:?} times")));
            }
            let active = pool.stats().active_fibers;
            if active != 0 {
                return Err(fail("idle", "active_after_shutdown", format!("{active} fibers active after shutdown() returned")));
            }
            for h in handles {
                let _ = h.await;
            }
            Ok(if c.fibers == 0 { "no_fibers" } else { "waited" })
        });
        match r {
            Ok("no_fibers") | Ok("config_refused") => Outcome::trivial(r.unwrap()),
            Ok(cls) => Outcome::pass(cls),
            Err(o) => o,
        }
    }
}

pub fn register(reg: &mut Registry, _tier: Tier) {
    reg.add(Enum(PoolShutdown));
    for api in [
        Api::PoolMap,
        Api::PoolForEach,
        Api::PoolReduce,
        Api::PoolSpawnBatch,
        Api::ModMap,
        Api::ModReduce,
        Api::ExecSingle,
        Api::ExecTwoStage,
        Api::ProcessBatch,
        Api::ExecStream,
        Api::Collector,
        Api::RunWithYield,
        Api::ProcessVecYielding,
        Api::YieldingIter,
        Api::ConcurrentWithYield,
        Api::ProcessFilesParallel,
        Api::IoBatchProcess,
        Api::BlobBatch,
    ] {
        reg.add(Enum(Pipes { api }));
    }
}
