//! C18 — every submitted task runs exactly once; ordered pipelines keep their order.
//!
//! E3 subjects: the real `WorkStealingExecutor` on a real tokio runtime.  Logical threads are one
//! submitter (native thread) plus the worker loops (tokio tasks, identified by the worker id the
//! schedule points carry).  All interleavings of submit / find_task / balance up to the pre-emption
//! bound are executed; an execution ends when every live thread polls without changing the shared
//! state ("stuck" = quiescent), and then every accepted task must have run exactly once.
//! E1 subject: `WorkStealingQueue` as a sequential object (task multiset preserved).
//! E2 subjects: FiberPool parallel_map/for_each/reduce and Pipeline stages over all small inputs.

use std::collections::hash_map::DefaultHasher;
use std::hash::Hash;
use std::path::Path;
use std::sync::atomic::{AtomicUsize, Ordering};
use std::sync::{Arc, Mutex};
use zverif::sched::{self, Scenario, Sched, SchedSpec};
use zverif::seq::{Seq, SeqSpec};
use zverif::util::h64;
use zverif::{check, Fail, Tier};

use zipora::concurrency::work_stealing::{ClosureTask, Task, WorkStealingExecutor, WorkStealingQueue};

mod pipes;

// ------------------------------------------------------------------------------------------------
// E3: executor

#[derive(Clone, Copy, Debug)]
struct TaskSpec {
    priority: u8,
    stealable: bool,
}

struct ExecSpec {
    name: String,
    /// number of submitter threads (task i is submitted by thread i % submitters)
    submitters: usize,
    workers: usize,
    capacity: usize,
    tasks: Vec<TaskSpec>,
    bound_quick: usize,
    bound_thorough: usize,
}

struct Shared {
    rt: Option<tokio::runtime::Runtime>,
    exec: Option<Arc<WorkStealingExecutor>>,
}

impl SchedSpec for ExecSpec {
    fn name(&self) -> String {
        self.name.clone()
    }
    fn bound(&self, tier: Tier) -> usize {
        tier.pick(self.bound_quick, self.bound_thorough)
    }
    fn describe(&self, _tier: Tier) -> String {
        format!(
            "WorkStealingExecutor::new(workers={}, capacity={}) on a tokio multi-thread runtime; logical threads: {} submitter(s) + {} worker loops; tasks {:?}; schedule points at the top of each worker iteration, before pop_local/global/steal, before balance, at the idle branch (yield), and in submit before the capacity probe and before the push",
            self.workers, self.capacity, self.submitters, self.workers, self.tasks
        )
    }
    fn yield_sites(&self) -> Vec<&'static str> {
        vec!["ws.worker.idle"]
    }
    fn finish_sites(&self) -> Vec<&'static str> {
        vec!["ws.worker.exit"]
    }
    fn max_events(&self) -> usize {
        20_000
    }
    fn build(&self) -> Scenario {
        let n_tasks = self.tasks.len();
        let counters: Arc<Vec<AtomicUsize>> = Arc::new((0..n_tasks).map(|_| AtomicUsize::new(0)).collect());
        let accepted: Arc<Vec<AtomicUsize>> = Arc::new((0..n_tasks).map(|_| AtomicUsize::new(0)).collect()); // 0 = not yet, 1 = Ok, 2 = Err
        let shared = Arc::new(Mutex::new(Shared { rt: None, exec: None }));
        let submitted = Arc::new(AtomicUsize::new(0));

        // submitters
        let nsub = self.submitters.max(1);
        let mut submitter_threads: Vec<Box<dyn FnOnce() + Send>> = Vec::new();
        for j in 0..nsub {
            let (sh, cn, ac, sub) = (shared.clone(), counters.clone(), accepted.clone(), submitted.clone());
            let tasks = self.tasks.clone();
            submitter_threads.push(Box::new(move || {
                let exec = sh.lock().unwrap().exec.clone().expect("executor created in after_spawn");
                for (i, t) in tasks.iter().enumerate() {
                    if i % nsub != j {
                        continue;
                    }
                    let cn2 = cn.clone();
                    let task = ClosureTask::new(move || {
                        let cn3 = cn2.clone();
                        Box::pin(async move {
                            cn3[i].fetch_add(1, Ordering::SeqCst);
                            Ok(())
                        }) as std::pin::Pin<Box<dyn std::future::Future<Output = zipora::error::Result<()>> + Send>>
                    })
                    .with_priority(t.priority)
                    .with_stealable(t.stealable);
                    let r = exec.submit(Box::new(task) as Box<dyn Task>);
                    ac[i].store(if r.is_ok() { 1 } else { 2 }, Ordering::SeqCst);
                    sub.fetch_add(1, Ordering::SeqCst);
                }
            }));
        }

        let workers = self.workers;
        let capacity = self.capacity;
        let sh2 = shared.clone();
        let after_spawn: Box<dyn FnOnce(&Arc<sched::Exec>)> = Box::new(move |_ex| {
            let rt = tokio::runtime::Builder::new_multi_thread().worker_threads(workers + 2).enable_all().build().expect("tokio runtime");
            let exec = {
                let _g = rt.enter();
                WorkStealingExecutor::new(workers, capacity).expect("executor")
            };
            let mut s = sh2.lock().unwrap();
            s.rt = Some(rt);
            s.exec = Some(exec);
        });

        let (sh3, cn3, sub3) = (shared.clone(), counters.clone(), submitted.clone());
        let fingerprint: Box<dyn Fn() -> u64 + Send + Sync> = Box::new(move || {
            let exec = sh3.lock().unwrap().exec.clone();
            let (queued, executed) = match exec {
                Some(e) => (e.total_queued(), e.stats().total_executed),
                None => (0, 0),
            };
            let c: Vec<usize> = cn3.iter().map(|x| x.load(Ordering::SeqCst)).collect();
            h64(&(c, queued, executed, sub3.load(Ordering::SeqCst)))
        });

        let (sh4, cn4, ac4) = (shared.clone(), counters.clone(), accepted.clone());
        let finish: Box<dyn FnOnce(&sched::ExecResult) -> Result<(), Fail>> = Box::new(move |r| {
            let (rt, exec) = {
                let mut s = sh4.lock().unwrap();
                (s.rt.take(), s.exec.take())
            };
            let res = (|| -> Result<(), Fail> {
                let exec = exec.as_ref().ok_or_else(|| Fail::new("harness", "no executor"))?;
                check!(r.stuck, "harness", "execution ended without reaching quiescence");
                let mut n_acc = 0u64;
                for i in 0..cn4.len() {
                    let c = cn4[i].load(Ordering::SeqCst);
                    match ac4[i].load(Ordering::SeqCst) {
                        1 => {
                            n_acc += 1;
                            if c == 0 {
                                let queued = exec.total_queued();
                                return Err(Fail::new(
                                    "task_never_run",
                                    format!("task {i} was accepted by submit() but never executed: the system is quiescent (every worker iteration is a no-op) with {queued} task(s) still queued"),
                                )
                                .with_class("accepted_task_parked"));
                            }
                            check!(c == 1, "task_ran_twice", "task {i} was executed {c} times");
                        }
                        2 => {
                            check!(c == 0, "rejected_task_ran", "submit() returned Err for task {i} but it was executed {c} times");
                        }
                        _ => return Err(Fail::new("harness", format!("task {i} was never submitted"))),
                    }
                }
                let st = exec.stats();
                check!(st.total_executed == n_acc, "stats", "stats().total_executed = {} but {} accepted tasks ran", st.total_executed, n_acc);
                check!(exec.is_idle(), "not_idle_after_drain", "all tasks ran but is_idle() is false (active_tasks={}, queued={})", st.active_tasks, exec.total_queued());
                Ok(())
            })();
            drop(exec);
            if let Some(rt) = rt {
                rt.shutdown_background();
            }
            res
        });

        Scenario {
            threads: submitter_threads,
            external_threads: self.workers,
            identify: Some(Box::new(move |site, a, _b| {
                // worker loops are tokio tasks: a `ws.worker.*` / `ws.find.*` point carries the worker id; the lock scopes
                // (`lock.acquire` / `lock.release`) that follow on the same OS thread before the next await belong to the same
                // worker loop (a task cannot migrate inside one poll)
                thread_local! {
                    static LAST_WORKER: std::cell::Cell<Option<usize>> = const { std::cell::Cell::new(None) };
                }
                if site.starts_with("ws.worker.") || site.starts_with("ws.find.") {
                    LAST_WORKER.with(|w| w.set(if site == "ws.worker.exit" { None } else { Some(nsub + a) }));
                    Some(nsub + a)
                } else if site.starts_with("lock.") {
                    LAST_WORKER.with(|w| w.get())
                } else {
                    None
                }
            })),
            monitor: None,
            fingerprint: Some(fingerprint),
            after_spawn: Some(after_spawn),
            finish,
        }
    }
}

// ------------------------------------------------------------------------------------------------
// E1: WorkStealingQueue as a sequential object

#[derive(Clone, Debug)]
enum QOp {
    Push { prio: u8, stealable: bool },
    PopLocal,
    Steal,
    Balance,
}

struct IdTask {
    id: u64,
    prio: u8,
    stealable: bool,
    log: Arc<Mutex<Vec<u64>>>,
}
impl Task for IdTask {
    fn execute(self: Box<Self>) -> std::pin::Pin<Box<dyn std::future::Future<Output = zipora::error::Result<()>> + Send>> {
        self.log.lock().unwrap().push(self.id);
        Box::pin(async { Ok(()) })
    }
    fn priority(&self) -> u8 {
        self.prio
    }
    fn is_stealable(&self) -> bool {
        self.stealable
    }
}

struct QSt {
    q: WorkStealingQueue,
    log: Arc<Mutex<Vec<u64>>>,
    /// model: ids currently inside the queue (either deque), with their attributes
    inside: Vec<(u64, u8, bool)>,
    next_id: u64,
    cap: usize,
}

struct QueueSpec {
    cap: usize,
    dq: usize,
    dt: usize,
}

fn run_task_now(t: Box<dyn Task>) {
    // IdTask::execute logs its id synchronously; the returned future is trivial
    let _ = t.execute();
}

impl SeqSpec for QueueSpec {
    type Op = QOp;
    type St = QSt;
    fn name(&self) -> String {
        format!("WorkStealingQueue[capacity={}] sequential", self.cap)
    }
    fn depth(&self, tier: Tier) -> usize {
        tier.pick(self.dq, self.dt)
    }
    fn bound(&self, tier: Tier) -> String {
        format!("all histories of <= {} operations from {{push_local(priority 0/1, stealable t/f), pop_local, steal, balance}}; oracle: the multiset of tasks inside the queue is preserved by every operation (a task leaves only by being returned, exactly once), push is refused only at capacity, pop_local returns a highest-priority task, steal returns only stealable tasks, len() = model size", self.depth(tier))
    }
    fn init(&self, _s: &Path) -> Result<QSt, Fail> {
        Ok(QSt { q: WorkStealingQueue::new(0, self.cap), log: Arc::new(Mutex::new(Vec::new())), inside: Vec::new(), next_id: 0, cap: self.cap })
    }
    fn ops(&self, _st: &QSt) -> Vec<QOp> {
        vec![
            QOp::Push { prio: 0, stealable: true },
            QOp::Push { prio: 1, stealable: true },
            QOp::Push { prio: 0, stealable: false },
            QOp::PopLocal,
            QOp::Steal,
            QOp::Balance,
        ]
    }
    fn apply(&self, st: &mut QSt, op: &QOp) -> Result<(), Fail> {
        match *op {
            QOp::Push { prio, stealable } => {
                let id = st.next_id;
                st.next_id += 1;
                let r = st.q.push_local(Box::new(IdTask { id, prio, stealable, log: st.log.clone() }));
                match r {
                    Ok(()) => st.inside.push((id, prio, stealable)),
                    Err(_) => {
                        // refusing is allowed only when the local queue is at capacity; we cannot see the split between the
                        // two deques from outside, so only require that *something* is inside
                        check!(!st.inside.is_empty(), "push_refused_when_empty", "push_local refused a task although the queue holds no task");
                    }
                }
            }
            QOp::PopLocal | QOp::Steal => {
                let got = if matches!(op, QOp::PopLocal) { st.q.pop_local() } else { st.q.steal() };
                if let Some(t) = got {
                    let before = st.log.lock().unwrap().len();
                    run_task_now(t);
                    let log = st.log.lock().unwrap();
                    check!(log.len() == before + 1, "harness", "task did not log");
                    let id = *log.last().unwrap();
                    drop(log);
                    let pos = st.inside.iter().position(|x| x.0 == id);
                    check!(pos.is_some(), "task_returned_twice", "{:?} returned task {id}, which is not (or no longer) inside the queue", op);
                    let (_, _prio, stealable) = st.inside.remove(pos.unwrap());
                    if matches!(op, QOp::Steal) {
                        // tasks moved to the steal queue by balance() were stealable when moved; steal from the local queue checks the flag
                        check!(stealable, "stole_non_stealable", "steal() returned task {id}, which is not stealable");
                    }
                }
            }
            QOp::Balance => st.q.balance(),
        }
        Ok(())
    }
    fn observe(&self, st: &mut QSt, h: &mut DefaultHasher) -> Result<(), Fail> {
        st.inside.hash(h);
        let l = st.q.len();
        check!(l == st.inside.len(), "task_lost_or_duplicated", "len() = {l} but {} tasks were pushed and not yet returned: {:?}", st.inside.len(), st.inside);
        check!(st.q.is_empty() == st.inside.is_empty(), "is_empty", "is_empty() = {} but model holds {} tasks", st.q.is_empty(), st.inside.len());
        Ok(())
    }
    fn finish(&self, st: QSt) -> Result<(), Fail> {
        // drain: every task still inside must come out exactly once through pop_local + steal
        let QSt { q, log, mut inside, .. } = st;
        let mut guard = 0;
        loop {
            guard += 1;
            if guard > 100 {
                return Err(Fail::new("drain_unbounded", "draining the queue does not terminate"));
            }
            let t = match q.pop_local() {
                Some(t) => t,
                None => match q.steal() {
                    Some(t) => t,
                    None => break,
                },
            };
            run_task_now(t);
            let id = *log.lock().unwrap().last().unwrap();
            let pos = inside.iter().position(|x| x.0 == id);
            check!(pos.is_some(), "task_returned_twice", "drain returned task {id} which is not inside the queue");
            inside.remove(pos.unwrap());
        }
        check!(inside.is_empty(), "task_lost", "after draining with pop_local and steal, tasks {:?} never came out", inside);
        Ok(())
    }
}

// ------------------------------------------------------------------------------------------------
// E3: WorkStealingQueue under the controlled scheduler (native threads: owner, thief, observer)

#[derive(Clone, Copy, Debug)]
enum CQ {
    Push(u8, bool),
    PopLocal,
    Steal,
    Balance,
    Len,
}

struct ConcQueueSpec {
    name: &'static str,
    cap: usize,
    /// tasks pushed (priority, stealable) before the threads start
    prefill: Vec<(u8, bool)>,
    threads: Vec<Vec<CQ>>,
    bound_quick: usize,
    bound_thorough: usize,
}

impl SchedSpec for ConcQueueSpec {
    fn name(&self) -> String {
        self.name.to_string()
    }
    fn bound(&self, tier: Tier) -> usize {
        tier.pick(self.bound_quick, self.bound_thorough)
    }
    fn describe(&self, _tier: Tier) -> String {
        format!(
            "{} native threads on ONE WorkStealingQueue(capacity {}) pre-filled with {:?} (priority, stealable); per-thread programs {:?}; schedule points before every acquisition of the local / steal queue lock (scheduler-visible lock scopes) and before every harness action; oracle: no task handed out twice, every task is inside the queue or was handed out exactly once, len() never exceeds the tasks inside, no deadlock; drained at quiescence",
            self.threads.len(),
            self.cap,
            self.prefill,
            self.threads
        )
    }
    fn build(&self) -> Scenario {
        let q = Arc::new(WorkStealingQueue::new(0, self.cap));
        let log = Arc::new(Mutex::new(Vec::<u64>::new()));
        // id -> state: 0 = inside the queue, 1 = handed out
        let inside: Arc<Mutex<std::collections::BTreeMap<u64, (u8, bool, u8)>>> = Arc::new(Mutex::new(Default::default()));
        let next_id = Arc::new(AtomicUsize::new(0));
        for (prio, st) in &self.prefill {
            let id = next_id.fetch_add(1, Ordering::SeqCst) as u64;
            if q.push_local(Box::new(IdTask { id, prio: *prio, stealable: *st, log: log.clone() })).is_ok() {
                inside.lock().unwrap().insert(id, (*prio, *st, 0));
            }
        }
        let mut threads: Vec<Box<dyn FnOnce() + Send>> = Vec::new();
        for (tid, prog) in self.threads.iter().cloned().enumerate() {
            let (q, log, inside, next_id) = (q.clone(), log.clone(), inside.clone(), next_id.clone());
            threads.push(Box::new(move || {
                for (i, act) in prog.iter().enumerate() {
                    sched::point("h.step", tid, i);
                    match *act {
                        CQ::Push(prio, st) => {
                            let id = next_id.fetch_add(1, Ordering::SeqCst) as u64;
                            // registered before the call: from the moment push_local links it another thread may take it
                            inside.lock().unwrap().insert(id, (prio, st, 0));
                            if q.push_local(Box::new(IdTask { id, prio, stealable: st, log: log.clone() })).is_err() {
                                inside.lock().unwrap().remove(&id);
                            }
                        }
                        CQ::PopLocal | CQ::Steal => {
                            let got = if matches!(act, CQ::PopLocal) { q.pop_local() } else { q.steal() };
                            if let Some(t) = got {
                                let stealable = t.is_stealable();
                                // executing logs the id (the log mutex is harness state, no schedule point inside)
                                let id = {
                                    let _ = t.execute();
                                    *log.lock().unwrap().last().unwrap()
                                };
                                let mut m = inside.lock().unwrap();
                                match m.get_mut(&id) {
                                    Some(e) if e.2 == 0 => e.2 = 1,
                                    Some(_) => {
                                        drop(m);
                                        sched::fail_now(Fail::new("task_returned_twice", format!("thread {tid}: {:?} handed out task {id}, which another call had already handed out", act)).with_class("concurrent"));
                                    }
                                    None => {
                                        drop(m);
                                        sched::fail_now(Fail::new("task_returned_twice", format!("thread {tid}: {:?} handed out task {id}, which was never accepted", act)).with_class("concurrent"));
                                    }
                                }
                                if matches!(act, CQ::Steal) && !stealable {
                                    sched::fail_now(Fail::new("stole_non_stealable", format!("thread {tid}: steal() returned task {id}, which is not stealable")).with_class("concurrent"));
                                }
                            }
                        }
                        CQ::Balance => q.balance(),
                        CQ::Len => {
                            let l = q.len();
                            // tasks that are inside now or were inside at some moment of the call: an upper bound that holds for
                            // every linearisation is the number of tasks ever accepted; a lower bound is 0.  The sharp check
                            // (len == inside) is made at quiescence.
                            let ever = inside.lock().unwrap().len();
                            if l > ever {
                                sched::fail_now(Fail::new("task_lost_or_duplicated", format!("thread {tid}: len() = {l} but only {ever} tasks were ever accepted")).with_class("concurrent"));
                            }
                        }
                    }
                }
            }));
        }
        let (q_f, log_f, inside_f) = (q.clone(), log.clone(), inside.clone());
        Scenario {
            threads,
            external_threads: 0,
            identify: None,
            monitor: None,
            fingerprint: None,
            after_spawn: None,
            finish: Box::new(move |_r| {
                let mut m = inside_f.lock().unwrap();
                let still: usize = m.values().filter(|e| e.2 == 0).count();
                let l = q_f.len();
                check!(l == still, "task_lost_or_duplicated", "at quiescence len() = {l} but {still} accepted tasks were never handed out");
                let mut guard = 0;
                loop {
                    guard += 1;
                    if guard > 64 {
                        return Err(Fail::new("drain_unbounded", "draining the queue does not terminate"));
                    }
                    let t = match q_f.pop_local() {
                        Some(t) => t,
                        None => match q_f.steal() {
                            Some(t) => t,
                            None => break,
                        },
                    };
                    let _ = t.execute();
                    let id = *log_f.lock().unwrap().last().unwrap();
                    match m.get_mut(&id) {
                        Some(e) if e.2 == 0 => e.2 = 1,
                        _ => return Err(Fail::new("task_returned_twice", format!("drain at quiescence handed out task {id} a second time"))),
                    }
                }
                let lost: Vec<u64> = m.iter().filter(|(_, e)| e.2 == 0).map(|(k, _)| *k).collect();
                check!(lost.is_empty(), "task_lost", "after draining with pop_local and steal, tasks {:?} never came out", lost);
                Ok(())
            }),
        }
    }
}

fn main() {
    zverif::main_with("C18", |reg, tier| {
        let t = |p: u8, s: bool| TaskSpec { priority: p, stealable: s };
        let grid: Vec<(usize, usize, Vec<TaskSpec>)> = vec![
            (1, 2, vec![t(0, true)]),
            (1, 2, vec![t(0, true), t(0, true)]),
            (1, 4, vec![t(0, true), t(1, true), t(0, false)]),
            (1, 1, vec![t(0, true), t(0, true)]),
            (2, 2, vec![t(0, true), t(0, true)]),
            (2, 1, vec![t(0, true), t(1, false), t(0, true)]),
            (2, 4, vec![t(0, true), t(0, false), t(1, true)]),
        ];
        for (w, c, tasks) in grid {
            let desc: Vec<String> = tasks.iter().map(|x| format!("p{}{}", x.priority, if x.stealable { "s" } else { "n" })).collect();
            reg.add(Sched(ExecSpec {
                name: format!("WorkStealingExecutor[workers={w},capacity={c}] tasks [{}]", desc.join(",")),
                submitters: 1,
                workers: w,
                capacity: c,
                tasks,
                bound_quick: 1,
                bound_thorough: 2,
            }));
        }
        // two submitters racing for the last slot of a worker's local queue (probe and push are separate lock sections)
        for (w, c, n) in [(1usize, 1usize, 2usize), (1, 2, 3), (1, 2, 4), (2, 1, 4)] {
            reg.add(Sched(ExecSpec {
                name: format!("WorkStealingExecutor[workers={w},capacity={c}] {n} plain tasks from 2 submitters"),
                submitters: 2,
                workers: w,
                capacity: c,
                tasks: vec![t(0, true); n],
                bound_quick: 1,
                bound_thorough: 2,
            }));
        }
        // default-schedule grid (pre-emption bound 0): worker x capacity x task-count, incl. the counts around the
        // `total_executed % 100 == 0` balance trigger
        let counts_quick: &[usize] = &[0, 3, 6, 101, 102];
        let counts_thorough: &[usize] = &[0, 1, 2, 3, 4, 5, 6, 100, 101, 102, 201];
        for w in 1..=3usize {
            for c in [1usize, 2, 4, 256] {
                for &n in tier.pick(counts_quick, counts_thorough) {
                    if tier == Tier::Quick && !(w == 1 || c == 256) {
                        continue;
                    }
                    reg.add(Sched(ExecSpec {
                        name: format!("WorkStealingExecutor[workers={w},capacity={c}] {n} plain tasks, default schedule"),
                        submitters: 1,
                        workers: w,
                        capacity: c,
                        tasks: vec![t(0, true); n],
                        bound_quick: 0,
                        bound_thorough: 0,
                    }));
                }
            }
        }
        reg.add(Seq(QueueSpec { cap: 2, dq: 5, dt: 7 }));
        // the queue itself under the controlled scheduler: owner (push / pop_local / balance), thief (steal), observer (len)
        {
            use CQ::*;
            reg.add(Sched(ConcQueueSpec {
                name: "WorkStealingQueue[capacity=4] Q1: owner [balance, pop_local] vs thief [steal, steal]",
                cap: 4,
                prefill: vec![(0, true), (1, true), (0, true)],
                threads: vec![vec![Balance, PopLocal], vec![Steal, Steal]],
                bound_quick: 2,
                bound_thorough: 4,
            }));
            reg.add(Sched(ConcQueueSpec {
                name: "WorkStealingQueue[capacity=4] Q2: owner [push, balance, pop_local], thief [steal], observer [len, len]",
                cap: 4,
                prefill: vec![(0, true), (0, false)],
                threads: vec![vec![Push(1, true), Balance, PopLocal], vec![Steal], vec![Len, Len]],
                bound_quick: 2,
                bound_thorough: 3,
            }));
            reg.add(Sched(ConcQueueSpec {
                name: "WorkStealingQueue[capacity=2] Q3: two pushers at capacity, thief, balance",
                cap: 2,
                prefill: vec![(0, true)],
                threads: vec![vec![Push(0, true), Balance], vec![Push(1, false), PopLocal], vec![Steal, Steal]],
                bound_quick: 2,
                bound_thorough: 3,
            }));
        }
        reg.add(Seq(QueueSpec { cap: 4, dq: 5, dt: 7 }));
        pipes::register(reg, tier);
    });
}
