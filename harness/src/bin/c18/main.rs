//! C18 — every submitted task runs exactly once; ordered pipelines keep their order.
//!
//! E3 subjects: the real `WorkStealingExecutor` on a real tokio runtime.  Logical threads are one
//! submitter (native thread) plus the worker loops (tokio tasks, identified by the worker id the
//! schedule points carry).  All interleavings of submit / find_task / balance up to the pre-emption
//! bound are executed; an execution ends when every live thread polls without changing the shared
//! state ("stuck" = quiescent), and then every accepted task must have run exactly once.
//! E1 subject: `WorkStealingQueue` as a sequential object (task multiset preserved).
//! E2 subjects: FiberPool parallel_map/for_each/reduce and Pipeline stages over all small inputs.

use std::collections::hash_map::DefaultHasher;
use std::hash::Hash;
use std::path::Path;
use std::sync::atomic::{AtomicUsize, Ordering};
use std::sync::{Arc, Mutex};
use zverif::sched::{self, Scenario, Sched, SchedSpec};
use zverif::seq::{Seq, SeqSpec};
use zverif::util::h64;
use zverif::{check, Fail, Tier};

use zipora::concurrency::work_stealing::{ClosureTask, Task, WorkStealingExecutor, WorkStealingQueue};

mod pipes;

// ------------------------------------------------------------------------------------------------
// E3: executor

#[derive(Clone, Copy, Debug)]
struct TaskSpec {
    priority: u8,
    stealable: bool,
}

struct ExecSpec {
    name: String,
    /// number of submitter threads (task i is submitted by thread i % submitters)
    submitters: usize,
    workers: usize,
    capacity: usize,
    tasks: Vec<TaskSpec>,
    bound_quick: usize,
    bound_thorough: usize,
}

struct Shared {
    rt: Option<tokio::runtime::Runtime>,
    exec: Option<Arc<WorkStealingExecutor>>,
}

impl SchedSpec for ExecSpec {
    fn name(&self) -> String {
        self.name.clone()
    }
    fn bound(&self, tier: Tier) -> usize {
        tier.pick(self.bound_quick, self.bound_thorough)
    }
    fn describe(&self, _tier: Tier) -> String {
        format!(
            "WorkStealingExecutor::new(workers={}, capacity={}) on a tokio multi-thread runtime; logical threads: {} submitter(s) + {} worker loops; tasks {:?}; schedule points at the top of each worker iteration, before pop_local/global/steal, before balance, at the idle branch (yield), and in submit before the capacity probe and before the push",
            self.workers, self.capacity, self.submitters, self.workers, self.tasks
        )
    }
    fn yield_sites(&self) -> Vec<&'static str> {
        vec!["ws.worker.idle"]
    }
    fn finish_sites(&self) -> Vec<&'static str> {
        vec!["ws.worker.exit"]
    }
    fn max_events(&self) -> usize {
        20_000
    }
    fn build(&self) -> Scenario {
        let n_tasks = self.tasks.len();
        let counters: Arc<Vec<AtomicUsize>> = Arc::new((0..n_tasks).map(|_| AtomicUsize::new(0)).collect());
        let accepted: Arc<Vec<AtomicUsize>> = Arc::new((0..n_tasks).map(|_| AtomicUsize::new(0)).collect()); // 0 = not yet, 1 = Ok, 2 = Err
        let shared = Arc::new(Mutex::new(Shared { rt: None, exec: None }));
        let submitted = Arc::new(AtomicUsize::new(0));

        // submitters
        let nsub = self.submitters.max(1);
        let mut submitter_threads: Vec<Box<dyn FnOnce() + Send>> = Vec::new();
        for j in 0..nsub {
            let (sh, cn, ac, sub) = (shared.clone(), counters.clone(), accepted.clone(), submitted.clone());
            let tasks = self.tasks.clone();
            submitter_threads.push(Box::new(move || {
                let exec = sh.lock().unwrap().exec.clone().expect("executor created in after_spawn");
                for (i, t) in tasks.iter().enumerate() {
                    if i % nsub != j {
                        continue;
                    }
                    let cn2 = cn.clone();
                    let task = ClosureTask::new(move || {
                        let cn3 = cn2.clone();
                        Box::pin(async move {
                            cn3[i].fetch_add(1, Ordering::SeqCst);
                            Ok(())
                        }) as std::pin::Pin<Box<dyn std::future::Future<Output = zipora::error::Result<()>> + Send>>
                    })
                    .with_priority(t.priority)
                    .with_stealable(t.stealable);
                    let r = exec.submit(Box::new(task) as Box<dyn Task>);
                    ac[i].store(if r.is_ok() { 1 } else { 2 }, Ordering::SeqCst);
                    sub.fetch_add(1, Ordering::SeqCst);
                }
            }));
        }

        let workers = self.workers;
        let capacity = self.capacity;
        let sh2 = shared.clone();
        let after_spawn: Box<dyn FnOnce(&Arc<sched::Exec>)> = Box::new(move |_ex| {
            let rt = tokio::runtime::Builder::new_multi_thread().worker_threads(workers + 2).enable_all().build().expect("tokio runtime");
            let exec = {
                let _g = rt.enter();
                WorkStealingExecutor::new(workers, capacity).expect("executor")
            };
            let mut s = sh2.lock().unwrap();
            s.rt = Some(rt);
            s.exec = Some(exec);
        });

        let (sh3, cn3, sub3) = (shared.clone(), counters.clone(), submitted.clone());
        let fingerprint: Box<dyn Fn() -> u64 + Send + Sync> = Box::new(move || {
            let exec = sh3.lock().unwrap().exec.clone();
            let (queued, executed) = match exec {
                Some(e) => (e.total_queued(), e.stats().total_executed),
                None => (0, 0),
            };
            let c: Vec<usize> = cn3.iter().map(|x| x.load(Ordering::SeqCst)).collect();
            h64(&(c, queued, executed, sub3.load(Ordering::SeqCst)))
        });

        let (sh4, cn4, ac4) = (shared.clone(), counters.clone(), accepted.clone());
        let finish: Box<dyn FnOnce(&sched::ExecResult) -> Result<(), Fail>> = Box::new(move |r| {
            let (rt, exec) = {
                let mut s = sh4.lock().unwrap();
                (s.rt.take(), s.exec.take())
            };
            let res = (|| -> Result<(), Fail> {
                let exec = exec.as_ref().ok_or_else(|| Fail::new("harness", "no executor"))?;
                check!(r.stuck, "harness", "execution ended without reaching quiescence");
                let mut n_acc = 0u64;
                for i in 0..cn4.len() {
                    let c = cn4[i].load(Ordering::SeqCst);
                    match ac4[i].load(Ordering::SeqCst) {
                        1 => {
                            n_acc += 1;
                            if c == 0 {
                                let queued = exec.total_queued();
                                return Err(Fail::new(
                                    "task_never_run",
                                    format!("task {i} was accepted by submit() but never executed: the system is quiescent (every worker iteration is a no-op) with {queued} task(s) still queued"),
                                )
                                .with_class("accepted_task_parked"));
                            }
                            check!(c == 1, "task_ran_twice", "task {i} was executed {c} times");
                        }
                        2 => {
                            check!(c == 0, "rejected_task_ran", "submit() returned Err for task {i} but it was executed {c} times");
                        }
                        _ => return Err(Fail::new("harness", format!("task {i} was never submitted"))),
                    }
                }
                let st = exec.stats();
                check!(st.total_executed == n_acc, "stats", "stats().total_executed = {} but {} accepted tasks ran", st.total_executed, n_acc);
                check!(exec.is_idle(), "not_idle_after_drain", "all tasks ran but is_idle() is false (active_tasks={}, queued={})", st.active_tasks, exec.total_queued());
                Ok(())
            })();
            drop(exec);
            if let Some(rt) = rt {
                rt.shutdown_background();
            }
            res
        });

        Scenario {
            threads: submitter_threads,
            external_threads: self.workers,
            identify: Some(Box::new(move |site, a, _b| if site.starts_with("ws.worker.") || site.starts_with("ws.find.") { Some(nsub + a) } else { None })),
            monitor: None,
            fingerprint: Some(fingerprint),
            after_spawn: Some(after_spawn),
            finish,
        }
    }
}

// ------------------------------------------------------------------------------------------------
// E1: WorkStealingQueue as a sequential object

#[derive(Clone, Debug)]
enum QOp {
    Push { prio: u8, stealable: bool },
    PopLocal,
    Steal,
    Balance,
}

struct IdTask {
    id: u64,
    prio: u8,
    stealable: bool,
    log: Arc<Mutex<Vec<u64>>>,
}
impl Task for IdTask {
    fn execute(self: Box<Self>) -> std::pin::Pin<Box<dyn std::future::Future<Output = zipora::error::Result<()>> + Send>> {
        self.log.lock().unwrap().push(self.id);
        Box::pin(async { Ok(()) })
    }
    fn priority(&self) -> u8 {
        self.prio
    }
    fn is_stealable(&self) -> bool {
        self.stealable
    }
}

struct QSt {
    q: WorkStealingQueue,
    log: Arc<Mutex<Vec<u64>>>,
    /// model: ids currently inside the queue (either deque), with their attributes
    inside: Vec<(u64, u8, bool)>,
    next_id: u64,
    cap: usize,
}

struct QueueSpec {
    cap: usize,
    dq: usize,
    dt: usize,
}

fn run_task_now(t: Box<dyn Task>) {
    // IdTask::execute logs its id synchronously; the returned future is trivial
    let _ = t.execute();
}

impl SeqSpec for QueueSpec {
    type Op = QOp;
    type St = QSt;
    fn name(&self) -> String {
        format!("WorkStealingQueue[capacity={}] sequential", self.cap)
    }
    fn depth(&self, tier: Tier) -> usize {
        tier.pick(self.dq, self.dt)
    }
    fn bound(&self, tier: Tier) -> String {
        format!("all histories of <= {} operations from {{push_local(priority 0/1, stealable t/f), pop_local, steal, balance}}; oracle: the multiset of tasks inside the queue is preserved by every operation (a task leaves only by being returned, exactly once), push is refused only at capacity, pop_local returns a highest-priority task, steal returns only stealable tasks, len() = model size", self.depth(tier))
    }
    fn init(&self, _s: &Path) -> Result<QSt, Fail> {
        Ok(QSt { q: WorkStealingQueue::new(0, self.cap), log: Arc::new(Mutex::new(Vec::new())), inside: Vec::new(), next_id: 0, cap: self.cap })
    }
    fn ops(&self, _st: &QSt) -> Vec<QOp> {
        vec![
            QOp::Push { prio: 0, stealable: true },
            QOp::Push { prio: 1, stealable: true },
            QOp::Push { prio: 0, stealable: false },
            QOp::PopLocal,
            QOp::Steal,
            QOp::Balance,
        ]
    }
    fn apply(&self, st: &mut QSt, op: &QOp) -> Result<(), Fail> {
        match *op {
            QOp::Push { prio, stealable } => {
                let id = st.next_id;
                st.next_id += 1;
                let r = st.q.push_local(Box::new(IdTask { id, prio, stealable, log: st.log.clone() }));
                match r {
                    Ok(()) => st.inside.push((id, prio, stealable)),
                    Err(_) => {
                        // refusing is allowed only when the local queue is at capacity; we cannot see the split between the
                        // two deques from outside, so only require that *something* is inside
                        check!(!st.inside.is_empty(), "push_refused_when_empty", "push_local refused a task although the queue holds no task");
                    }
                }
            }
            QOp::PopLocal | QOp::Steal => {
                let got = if matches!(op, QOp::PopLocal) { st.q.pop_local() } else { st.q.steal() };
                if let Some(t) = got {
                    let before = st.log.lock().unwrap().len();
                    run_task_now(t);
                    let log = st.log.lock().unwrap();
                    check!(log.len() == before + 1, "harness", "task did not log");
                    let id = *log.last().unwrap();
                    drop(log);
                    let pos = st.inside.iter().position(|x| x.0 == id);
                    check!(pos.is_some(), "task_returned_twice", "{:?} returned task {id}, which is not (or no longer) inside the queue", op);
                    let (_, _prio, stealable) = st.inside.remove(pos.unwrap());
                    if matches!(op, QOp::Steal) {
                        // tasks moved to the steal queue by balance() were stealable when moved; steal from the local queue checks the flag
                        check!(stealable, "stole_non_stealable", "steal() returned task {id}, which is not stealable");
                    }
                }
            }
            QOp::Balance => st.q.balance(),
        }
        Ok(())
    }
    fn observe(&self, st: &mut QSt, h: &mut DefaultHasher) -> Result<(), Fail> {
        st.inside.hash(h);
        let l = st.q.len();
        check!(l == st.inside.len(), "task_lost_or_duplicated", "len() = {l} but {} tasks were pushed and not yet returned: {:?}", st.inside.len(), st.inside);
        check!(st.q.is_empty() == st.inside.is_empty(), "is_empty", "is_empty() = {} but model holds {} tasks", st.q.is_empty(), st.inside.len());
        Ok(())
    }
    fn finish(&self, st: QSt) -> Result<(), Fail> {
        // drain: every task still inside must come out exactly once through pop_local + steal
        let QSt { q, log, mut inside, .. } = st;
        let mut guard = 0;
        loop {
            guard += 1;
            if guard > 100 {
                return Err(Fail::new("drain_unbounded", "draining the queue does not terminate"));
            }
            let t = match q.pop_local() {
                Some(t) => t,
                None => match q.steal() {
                    Some(t) => t,
                    None => break,
                },
            };
            run_task_now(t);
            let id = *log.lock().unwrap().last().unwrap();
            let pos = inside.iter().position(|x| x.0 == id);
            check!(pos.is_some(), "task_returned_twice", "drain returned task {id} which is not inside the queue");
            inside.remove(pos.unwrap());
        }
        check!(inside.is_empty(), "task_lost", "after draining with pop_local and steal, tasks {:?} never came out", inside);
        Ok(())
    }
}

fn main() {
    zverif::main_with("C18", |reg, tier| {
        let t = |p: u8, s: bool| TaskSpec { priority: p, stealable: s };
        let grid: Vec<(usize, usize, Vec<TaskSpec>)> = vec![
            (1, 2, vec![t(0, true)]),
            (1, 2, vec![t(0, true), t(0, true)]),
            (1, 4, vec![t(0, true), t(1, true), t(0, false)]),
            (1, 1, vec![t(0, true), t(0, true)]),
            (2, 2, vec![t(0, true), t(0, true)]),
            (2, 1, vec![t(0, true), t(1, false), t(0, true)]),
            (2, 4, vec![t(0, true), t(0, false), t(1, true)]),
        ];
        for (w, c, tasks) in grid {
            let desc: Vec<String> = tasks.iter().map(|x| format!("p{}{}", x.priority, if x.stealable { "s" } else { "n" })).collect();
            reg.add(Sched(ExecSpec {
                name: format!("WorkStealingExecutor[workers={w},capacity={c}] tasks [{}]", desc.join(",")),
                submitters: 1,
                workers: w,
                capacity: c,
                tasks,
                bound_quick: 1,
                bound_thorough: 2,
            }));
        }
        // two submitters racing for the last slot of a worker's local queue (probe and push are separate lock sections)
        for (w, c, n) in [(1usize, 1usize, 2usize), (1, 2, 3), (1, 2, 4), (2, 1, 4)] {
            reg.add(Sched(ExecSpec {
                name: format!("WorkStealingExecutor[workers={w},capacity={c}] {n} plain tasks from 2 submitters"),
                submitters: 2,
                workers: w,
                capacity: c,
                tasks: vec![t(0, true); n],
                bound_quick: 1,
                bound_thorough: 2,
            }));
        }
        // default-schedule grid (pre-emption bound 0): worker x capacity x task-count, incl. the counts around the
        // `total_executed % 100 == 0` balance trigger
        let counts_quick: &[usize] = &[0, 3, 6, 101, 102];
        let counts_thorough: &[usize] = &[0, 1, 2, 3, 4, 5, 6, 100, 101, 102, 201];
        for w in 1..=3usize {
            for c in [1usize, 2, 4, 256] {
                for &n in tier.pick(counts_quick, counts_thorough) {
                    if tier == Tier::Quick && !(w == 1 || c == 256) {
                        continue;
                    }
                    reg.add(Sched(ExecSpec {
                        name: format!("WorkStealingExecutor[workers={w},capacity={c}] {n} plain tasks, default schedule"),
                        submitters: 1,
                        workers: w,
                        capacity: c,
                        tasks: vec![t(0, true); n],
                        bound_quick: 0,
                        bound_thorough: 0,
                    }));
                }
            }
        }
        reg.add(Seq(QueueSpec { cap: 2, dq: 5, dt: 7 }));
        reg.add(Seq(QueueSpec { cap: 4, dq: 5, dt: 7 }));
        pipes::register(reg, tier);
    });
}
