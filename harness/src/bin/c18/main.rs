//! C18 — every submitted task runs exactly once; ordered pipelines keep their order.
//!
//! E3 subjects: the real `WorkStealingExecutor` on a real tokio runtime.  Logical threads are one
//! submitter (native thread) plus the worker loops (tokio tasks, identified by the worker id the
//! schedule points carry).  All interleavings of submit / find_task / balance up to the pre-emption
//! bound are executed; an execution ends when every live thread polls without changing the shared
//! state ("stuck" = quiescent), and then every accepted task must have run exactly once.
//! E1 subject: `WorkStealingQueue` as a sequential object (task multiset preserved).
//! E2 subjects: FiberPool parallel_map/for_each/reduce and Pipeline stages over all small inputs.

use std::collections::hash_map::DefaultHasher;
use std::hash::Hash;
use std::path::Path;
use std::sync::atomic::{AtomicUsize, Ordering};
use std::sync::{Arc, Mutex};
use zverif::sched::{self, Scenario, Sched, SchedSpec};
use zverif::seq::{Seq, SeqSpec};
use zverif::util::h64;
use zverif::{check, Fail, Tier};

use zipora::concurrency::work_stealing::{ClosureTask, Task, WorkStealingExecutor, WorkStealingQueue};

mod pipes;

// ------------------------------------------------------------------------------------------------
// E3: executor

#[derive(Clone, Copy, Debug)]
struct TaskSpec {
    priority: u8,
    stealable: bool,
}

struct ExecSpec {
    name: String,
    /// number of submitter threads (task i is submitted by thread i % submitters)
    submitters: usize,
    workers: usize,
    capacity: usize,
    tasks: Vec<TaskSpec>,
    bound_quick: usize,
    bound_thorough: usize,
    /// number of is_idle() / total_queued() observations made by an extra native thread (0 = no observer): whenever
    /// is_idle() answers true every task accepted so far must have run; the tasks of such a scenario have a schedule point
    /// in the synchronous part of `execute` (before the future is returned)
    observer_checks: usize,
}

struct Shared {
    rt: Option<tokio::runtime::Runtime>,
    exec: Option<Arc<WorkStealingExecutor>>,
}

impl SchedSpec for ExecSpec {
    fn name(&self) -> String {
        self.name.clone()
    }
    fn bound(&self, tier: Tier) -> usize {
        tier.pick(self.bound_quick, self.bound_thorough)
    }
    fn describe(&self, _tier: Tier) -> String {
        format!(
            "WorkStealingExecutor::new(workers={}, capacity={}) on a tokio multi-thread runtime; logical threads: {} submitter(s) + {} worker loops; tasks {:?}; schedule points at the top of each worker iteration, before pop_local/global/steal, before balance, at the idle branch (yield), and in submit before the capacity probe and before the push",
            self.workers, self.capacity, self.submitters, self.workers, self.tasks
        )
    }
    fn yield_sites(&self) -> Vec<&'static str> {
        vec!["ws.worker.idle"]
    }
    fn finish_sites(&self) -> Vec<&'static str> {
        vec!["ws.worker.exit"]
    }
    fn max_events(&self) -> usize {
        20_000
    }
    fn build(&self) -> Scenario {
        let n_tasks = self.tasks.len();
        let counters: Arc<Vec<AtomicUsize>> = Arc::new((0..n_tasks).map(|_| AtomicUsize::new(0)).collect());
        let accepted: Arc<Vec<AtomicUsize>> = Arc::new((0..n_tasks).map(|_| AtomicUsize::new(0)).collect()); // 0 = not yet, 1 = Ok, 2 = Err
        let shared = Arc::new(Mutex::new(Shared { rt: None, exec: None }));
        let submitted = Arc::new(AtomicUsize::new(0));

        // submitters
        let nsub = self.submitters.max(1);
        let observed = self.observer_checks > 0;
        let mut submitter_threads: Vec<Box<dyn FnOnce() + Send>> = Vec::new();
        for j in 0..nsub {
            let (sh, cn, ac, sub) = (shared.clone(), counters.clone(), accepted.clone(), submitted.clone());
            let tasks = self.tasks.clone();
            submitter_threads.push(Box::new(move || {
                let exec = sh.lock().unwrap().exec.clone().expect("executor created in after_spawn");
                for (i, t) in tasks.iter().enumerate() {
                    if i % nsub != j {
                        continue;
                    }
                    let cn2 = cn.clone();
                    let task = ClosureTask::new(move || {
                        let cn3 = cn2.clone();
                        if observed {
                            // the synchronous part of Task::execute: the task is off its queue and must count as active here
                            sched::point("h.task.sync", i, 0);
                        }
                        Box::pin(async move {
                            cn3[i].fetch_add(1, Ordering::SeqCst);
                            Ok(())
                        }) as std::pin::Pin<Box<dyn std::future::Future<Output = zipora::error::Result<()>> + Send>>
                    })
                    .with_priority(t.priority)
                    .with_stealable(t.stealable);
                    let r = exec.submit(Box::new(task) as Box<dyn Task>);
                    ac[i].store(if r.is_ok() { 1 } else { 2 }, Ordering::SeqCst);
                    sub.fetch_add(1, Ordering::SeqCst);
                }
            }));
        }

        if observed {
            let (sh, cn, ac) = (shared.clone(), counters.clone(), accepted.clone());
            let checks = self.observer_checks;
            submitter_threads.push(Box::new(move || {
                let exec = sh.lock().unwrap().exec.clone().expect("executor created in after_spawn");
                for k in 0..checks {
                    sched::point("h.observe", k, 0);
                    // tasks whose submit() had returned Ok before the question was asked
                    let before: Vec<usize> = (0..cn.len()).filter(|i| ac[*i].load(Ordering::SeqCst) == 1).collect();
                    if exec.is_idle() {
                        for i in before {
                            if cn[i].load(Ordering::SeqCst) == 0 {
                                // two ways to get here: the answer was put together from an active_tasks read and a later
                                // total_queued() read with the worker taking the task in between (the task IS counted as active by
                                // now: a stale read inside is_idle itself), or the task is off its queue and not counted at all
                                let active = exec.stats().active_tasks;
                                let class = if active > 0 { "observer_stale_active_read" } else { "observer_task_not_counted" };
                                sched::fail_now(
                                    Fail::new("idle_with_pending_task", format!("is_idle() answered true although task {i}, accepted by submit() before the call, has not run yet (total_queued() = {}, active_tasks = {active})", exec.total_queued()))
                                        .with_class(class),
                                );
                            }
                        }
                    }
                }
            }));
        }
        let nsub = submitter_threads.len();
        let workers = self.workers;
        let capacity = self.capacity;
        let sh2 = shared.clone();
        let after_spawn: Box<dyn FnOnce(&Arc<sched::Exec>)> = Box::new(move |_ex| {
            let rt = tokio::runtime::Builder::new_multi_thread().worker_threads(workers + 2).enable_all().build().expect("tokio runtime");
            let exec = {
                let _g = rt.enter();
                WorkStealingExecutor::new(workers, capacity).expect("executor")
            };
            let mut s = sh2.lock().unwrap();
            s.rt = Some(rt);
            s.exec = Some(exec);
        });

        let (sh3, cn3, sub3) = (shared.clone(), counters.clone(), submitted.clone());
        let fingerprint: Box<dyn Fn() -> u64 + Send + Sync> = Box::new(move || {
            let exec = sh3.lock().unwrap().exec.clone();
            let (queued, executed) = match exec {
                Some(e) => (e.total_queued(), e.stats().total_executed),
                None => (0, 0),
            };
            let c: Vec<usize> = cn3.iter().map(|x| x.load(Ordering::SeqCst)).collect();
            h64(&(c, queued, executed, sub3.load(Ordering::SeqCst)))
        });

        let (sh4, cn4, ac4) = (shared.clone(), counters.clone(), accepted.clone());
        let finish: Box<dyn FnOnce(&sched::ExecResult) -> Result<(), Fail>> = Box::new(move |r| {
            let (rt, exec) = {
                let mut s = sh4.lock().unwrap();
                (s.rt.take(), s.exec.take())
            };
            let res = (|| -> Result<(), Fail> {
                let exec = exec.as_ref().ok_or_else(|| Fail::new("harness", "no executor"))?;
                check!(r.stuck, "harness", "execution ended without reaching quiescence");
                let mut n_acc = 0u64;
                for i in 0..cn4.len() {
                    let c = cn4[i].load(Ordering::SeqCst);
                    match ac4[i].load(Ordering::SeqCst) {
                        1 => {
                            n_acc += 1;
                            if c == 0 {
                                let queued = exec.total_queued();
                                return Err(Fail::new(
                                    "task_never_run",
                                    format!("task {i} was accepted by submit() but never executed: the system is quiescent (every worker iteration is a no-op) with {queued} task(s) still queued"),
                                )
                                .with_class("accepted_task_parked"));
                            }
                            check!(c == 1, "task_ran_twice", "task {i} was executed {c} times");
                        }
                        2 => {
                            check!(c == 0, "rejected_task_ran", "submit() returned Err for task {i} but it was executed {c} times");
                        }
                        _ => return Err(Fail::new("harness", format!("task {i} was never submitted"))),
                    }
                }
                let st = exec.stats();
                check!(st.total_executed == n_acc, "stats", "stats().total_executed = {} but {} accepted tasks ran", st.total_executed, n_acc);
                check!(exec.is_idle(), "not_idle_after_drain", "all tasks ran but is_idle() is false (active_tasks={}, queued={})", st.active_tasks, exec.total_queued());
                Ok(())
            })();
            drop(exec);
            if let Some(rt) = rt {
                rt.shutdown_background();
            }
            res
        });

        Scenario {
            threads: submitter_threads,
            external_threads: self.workers,
            identify: Some(Box::new(move |site, a, _b| {
                // worker loops are tokio tasks: a `ws.worker.*` / `ws.find.*` point carries the worker id; the lock scopes
                // (`lock.acquire` / `lock.release`) that follow on the same OS thread before the next await belong to the same
                // worker loop (a task cannot migrate inside one poll)
                thread_local! {
                    static LAST_WORKER: std::cell::Cell<Option<usize>> = const { std::cell::Cell::new(None) };
                }
                if site.starts_with("ws.worker.") || site.starts_with("ws.find.") {
                    LAST_WORKER.with(|w| w.set(if site == "ws.worker.exit" { None } else { Some(nsub + a) }));
                    Some(nsub + a)
                } else if site.starts_with("lock.") || site.starts_with("h.task.") {
                    LAST_WORKER.with(|w| w.get())
                } else {
                    None
                }
            })),
            monitor: None,
            fingerprint: Some(fingerprint),
            after_spawn: Some(after_spawn),
            finish,
        }
    }
}

// ------------------------------------------------------------------------------------------------
// E1: WorkStealingQueue as a sequential object

#[derive(Clone, Debug)]
enum QOp {
    Push { prio: u8, stealable: bool },
    PopLocal,
    Steal,
    Balance,
}

struct IdTask {
    id: u64,
    prio: u8,
    stealable: bool,
    log: Arc<Mutex<Vec<u64>>>,
}
impl Task for IdTask {
    fn execute(self: Box<Self>) -> std::pin::Pin<Box<dyn std::future::Future<Output = zipora::error::Result<()>> + Send>> {
        self.log.lock().unwrap().push(self.id);
        Box::pin(async { Ok(()) })
    }
    fn priority(&self) -> u8 {
        self.prio
    }
    fn is_stealable(&self) -> bool {
        self.stealable
    }
}

struct QSt {
    q: WorkStealingQueue,
    log: Arc<Mutex<Vec<u64>>>,
    /// model: ids currently inside the queue (either deque), with their attributes
    inside: Vec<(u64, u8, bool)>,
    next_id: u64,
    cap: usize,
}

struct QueueSpec {
    cap: usize,
    dq: usize,
    dt: usize,
}

fn run_task_now(t: Box<dyn Task>) {
    // IdTask::execute logs its id synchronously; the returned future is trivial
    let _ = t.execute();
}

impl SeqSpec for QueueSpec {
    type Op = QOp;
    type St = QSt;
    fn name(&self) -> String {
        format!("WorkStealingQueue[capacity={}] sequential", self.cap)
    }
    fn depth(&self, tier: Tier) -> usize {
        tier.pick(self.dq, self.dt)
    }
    fn bound(&self, tier: Tier) -> String {
        format!("all histories of <= {} operations from {{push_local(priority 0/1, stealable t/f), pop_local, steal, balance}}; oracle: the multiset of tasks inside the queue is preserved by every operation (a task leaves only by being returned, exactly once), push is refused only at capacity, pop_local returns a highest-priority task, steal returns only stealable tasks, len() = model size", self.depth(tier))
    }
    fn init(&self, _s: &Path) -> Result<QSt, Fail> {
        Ok(QSt { q: WorkStealingQueue::new(0, self.cap), log: Arc::new(Mutex::new(Vec::new())), inside: Vec::new(), next_id: 0, cap: self.cap })
    }
    fn ops(&self, _st: &QSt) -> Vec<QOp> {
        vec![
            QOp::Push { prio: 0, stealable: true },
            QOp::Push { prio: 1, stealable: true },
            QOp::Push { prio: 0, stealable: false },
            QOp::PopLocal,
            QOp::Steal,
            QOp::Balance,
        ]
    }
    fn apply(&self, st: &mut QSt, op: &QOp) -> Result<(), Fail> {
        match *op {
            QOp::Push { prio, stealable } => {
                let id = st.next_id;
                st.next_id += 1;
                let r = st.q.push_local(Box::new(IdTask { id, prio, stealable, log: st.log.clone() }));
                match r {
                    Ok(()) => st.inside.push((id, prio, stealable)),
                    Err(_) => {
                        // refusing is allowed only when the local queue is at capacity; we cannot see the split between the
                        // two deques from outside, so only require that *something* is inside
                        check!(!st.inside.is_empty(), "push_refused_when_empty", "push_local refused a task although the queue holds no task");
                    }
                }
            }
            QOp::PopLocal | QOp::Steal => {
                let got = if matches!(op, QOp::PopLocal) { st.q.pop_local() } else { st.q.steal() };
                if let Some(t) = got {
                    let before = st.log.lock().unwrap().len();
                    run_task_now(t);
                    let log = st.log.lock().unwrap();
                    check!(log.len() == before + 1, "harness", "task did not log");
                    let id = *log.last().unwrap();
                    drop(log);
                    let pos = st.inside.iter().position(|x| x.0 == id);
                    check!(pos.is_some(), "task_returned_twice", "{:?} returned task {id}, which is not (or no longer) inside the queue", op);
                    let (_, _prio, stealable) = st.inside.remove(pos.unwrap());
                    if matches!(op, QOp::Steal) {
                        // tasks moved to the steal queue by balance() were stealable when moved; steal from the local queue checks the flag
                        check!(stealable, "stole_non_stealable", "steal() returned task {id}, which is not stealable");
                    }
                }
            }
            QOp::Balance => st.q.balance(),
        }
        Ok(())
    }
    fn observe(&self, st: &mut QSt, h: &mut DefaultHasher) -> Result<(), Fail> {
        st.inside.hash(h);
        let l = st.q.len();
        check!(l == st.inside.len(), "task_lost_or_duplicated", "len() = {l} but {} tasks were pushed and not yet returned: {:?}", st.inside.len(), st.inside);
        check!(st.q.is_empty() == st.inside.is_empty(), "is_empty", "is_empty() = {} but model holds {} tasks", st.q.is_empty(), st.inside.len());
        Ok(())
    }
    fn finish(&self, st: QSt) -> Result<(), Fail> {
        // drain: every task still inside must come out exactly once through pop_local + steal
        let QSt { q, log, mut inside, .. } = st;
        let mut guard = 0;
        loop {
            guard += 1;
            if guard > 100 {
                return Err(Fail::new("drain_unbounded", "draining the queue does not terminate"));
            }
            let t = match q.pop_local() {
                Some(t) => t,
                None => match q.steal() {
                    Some(t) => t,
                    None => break,
                },
            };
            run_task_now(t);
            let id = *log.lock().unwrap().last().unwrap();
            let pos = inside.iter().position(|x| x.0 == id);
            check!(pos.is_some(), "task_returned_twice", "drain returned task {id} which is not inside the queue");
            inside.remove(pos.unwrap());
        }
        check!(inside.is_empty(), "task_lost", "after draining with pop_local and steal, tasks {:?} never came out", inside);
        Ok(())
    }
}

// ------------------------------------------------------------------------------------------------
// E3: WorkStealingQueue under the controlled scheduler (native threads: owner, thief, observer)

#[derive(Clone, Copy, Debug)]
enum CQ {
    Push(u8, bool),
    PopLocal,
    Steal,
    Balance,
    Len,
}

struct ConcQueueSpec {
    name: &'static str,
    cap: usize,
    /// tasks pushed (priority, stealable) before the threads start
    prefill: Vec<(u8, bool)>,
    threads: Vec<Vec<CQ>>,
    bound_quick: usize,
    bound_thorough: usize,
}

impl SchedSpec for ConcQueueSpec {
    fn name(&self) -> String {
        self.name.to_string()
    }
    fn bound(&self, tier: Tier) -> usize {
        tier.pick(self.bound_quick, self.bound_thorough)
    }
    fn describe(&self, _tier: Tier) -> String {
        format!(
            "{} native threads on ONE WorkStealingQueue(capacity {}) pre-filled with {:?} (priority, stealable); per-thread programs {:?}; schedule points before every acquisition of the local / steal queue lock (scheduler-visible lock scopes) and before every harness action; oracle: no task handed out twice, every task is inside the queue or was handed out exactly once, len() never exceeds the tasks inside, no deadlock; drained at quiescence",
            self.threads.len(),
            self.cap,
            self.prefill,
            self.threads
        )
    }
    fn build(&self) -> Scenario {
        let q = Arc::new(WorkStealingQueue::new(0, self.cap));
        let log = Arc::new(Mutex::new(Vec::<u64>::new()));
        // id -> state: 0 = inside the queue, 1 = handed out
        let inside: Arc<Mutex<std::collections::BTreeMap<u64, (u8, bool, u8)>>> = Arc::new(Mutex::new(Default::default()));
        let next_id = Arc::new(AtomicUsize::new(0));
        for (prio, st) in &self.prefill {
            let id = next_id.fetch_add(1, Ordering::SeqCst) as u64;
            if q.push_local(Box::new(IdTask { id, prio: *prio, stealable: *st, log: log.clone() })).is_ok() {
                inside.lock().unwrap().insert(id, (*prio, *st, 0));
            }
        }
        let mut threads: Vec<Box<dyn FnOnce() + Send>> = Vec::new();
        for (tid, prog) in self.threads.iter().cloned().enumerate() {
            let (q, log, inside, next_id) = (q.clone(), log.clone(), inside.clone(), next_id.clone());
            threads.push(Box::new(move || {
                for (i, act) in prog.iter().enumerate() {
                    sched::point("h.step", tid, i);
                    match *act {
                        CQ::Push(prio, st) => {
                            let id = next_id.fetch_add(1, Ordering::SeqCst) as u64;
                            // registered before the call: from the moment push_local links it another thread may take it
                            inside.lock().unwrap().insert(id, (prio, st, 0));
                            if q.push_local(Box::new(IdTask { id, prio, stealable: st, log: log.clone() })).is_err() {
                                inside.lock().unwrap().remove(&id);
                            }
                        }
                        CQ::PopLocal | CQ::Steal => {
                            let got = if matches!(act, CQ::PopLocal) { q.pop_local() } else { q.steal() };
                            if let Some(t) = got {
                                let stealable = t.is_stealable();
                                // executing logs the id (the log mutex is harness state, no schedule point inside)
                                let id = {
                                    let _ = t.execute();
                                    *log.lock().unwrap().last().unwrap()
                                };
                                let mut m = inside.lock().unwrap();
                                match m.get_mut(&id) {
                                    Some(e) if e.2 == 0 => e.2 = 1,
                                    Some(_) => {
                                        drop(m);
                                        sched::fail_now(Fail::new("task_returned_twice", format!("thread {tid}: {:?} handed out task {id}, which another call had already handed out", act)).with_class("concurrent"));
                                    }
                                    None => {
                                        drop(m);
                                        sched::fail_now(Fail::new("task_returned_twice", format!("thread {tid}: {:?} handed out task {id}, which was never accepted", act)).with_class("concurrent"));
                                    }
                                }
                                if matches!(act, CQ::Steal) && !stealable {
                                    sched::fail_now(Fail::new("stole_non_stealable", format!("thread {tid}: steal() returned task {id}, which is not stealable")).with_class("concurrent"));
                                }
                            }
                        }
                        CQ::Balance => q.balance(),
                        CQ::Len => {
                            let l = q.len();
                            // tasks that are inside now or were inside at some moment of the call: an upper bound that holds for
                            // every linearisation is the number of tasks ever accepted; a lower bound is 0.  The sharp check
                            // (len == inside) is made at quiescence.
                            let ever = inside.lock().unwrap().len();
                            if l > ever {
                                sched::fail_now(Fail::new("task_lost_or_duplicated", format!("thread {tid}: len() = {l} but only {ever} tasks were ever accepted")).with_class("concurrent"));
                            }
                        }
                    }
                }
            }));
        }
        let (q_f, log_f, inside_f) = (q.clone(), log.clone(), inside.clone());
        Scenario {
            threads,
            external_threads: 0,
            identify: None,
            monitor: None,
            fingerprint: None,
            after_spawn: None,
            finish: Box::new(move |_r| {
                let mut m = inside_f.lock().unwrap();
                let still: usize = m.values().filter(|e| e.2 == 0).count();
                let l = q_f.len();
                check!(l == still, "task_lost_or_duplicated", "at quiescence len() = {l} but {still} accepted tasks were never handed out");
                let mut guard = 0;
                loop {
                    guard += 1;
                    if guard > 64 {
                        return Err(Fail::new("drain_unbounded", "draining the queue does not terminate"));
                    }
                    let t = match q_f.pop_local() {
                        Some(t) => t,
                        None => match q_f.steal() {
                            Some(t) => t,
                            None => break,
                        },
                    };
                    let _ = t.execute();
                    let id = *log_f.lock().unwrap().last().unwrap();
                    match m.get_mut(&id) {
                        Some(e) if e.2 == 0 => e.2 = 1,
                        _ => return Err(Fail::new("task_returned_twice", format!("drain at quiescence handed out task {id} a second time"))),
                    }
                }
                let lost: Vec<u64> = m.iter().filter(|(_, e)| e.2 == 0).map(|(k, _)| *k).collect();
                check!(lost.is_empty(), "task_lost", "after draining with pop_local and steal, tasks {:?} never came out", lost);
                Ok(())
            }),
        }
    }
}

// ------------------------------------------------------------------------------------------------
// auxiliary: free-running stress (SAMPLING — see zverif::stress)

fn executor_stress(workers: usize, capacity: usize, budget: std::time::Duration) -> Result<u64, Fail> {
    use std::sync::atomic::AtomicU32;
    let t_end = std::time::Instant::now() + budget;
    let mut rounds = 0u64;
    while std::time::Instant::now() < t_end {
        rounds += 1;
        let rt = tokio::runtime::Builder::new_multi_thread().worker_threads(workers + 1).enable_all().build().expect("tokio runtime");
        let exec = {
            let _g = rt.enter();
            WorkStealingExecutor::new(workers, capacity).expect("executor")
        };
        const N: usize = 120;
        let counters: Arc<Vec<AtomicU32>> = Arc::new((0..N).map(|_| AtomicU32::new(0)).collect());
        let accepted: Arc<Vec<AtomicU32>> = Arc::new((0..N).map(|_| AtomicU32::new(0)).collect());
        let submit_done = Arc::new(AtomicU32::new(0));
        for sub in 0..2usize {
            let (exec, counters, accepted, submit_done) = (exec.clone(), counters.clone(), accepted.clone(), submit_done.clone());
            // detached: a submit() that blocks for good must not take the check with it
            std::thread::spawn(move || {
                for i in (sub..N).step_by(2) {
                    let c = counters.clone();
                    let task = ClosureTask::new(move || {
                        let c = c.clone();
                        Box::pin(async move {
                            c[i].fetch_add(1, Ordering::SeqCst);
                            Ok(())
                        }) as std::pin::Pin<Box<dyn std::future::Future<Output = zipora::error::Result<()>> + Send>>
                    })
                    .with_priority((i % 3) as u8)
                    .with_stealable(i % 5 != 0);
                    let r = exec.submit(Box::new(task) as Box<dyn Task>);
                    accepted[i].store(if r.is_ok() { 1 } else { 2 }, Ordering::SeqCst);
                }
                submit_done.fetch_add(1, Ordering::SeqCst);
            });
        }
        let t_sub = std::time::Instant::now();
        while submit_done.load(Ordering::SeqCst) < 2 && t_sub.elapsed() < std::time::Duration::from_secs(10) {
            std::thread::sleep(std::time::Duration::from_millis(1));
        }
        if submit_done.load(Ordering::SeqCst) < 2 {
            // the runtime and its stuck threads are abandoned
            std::mem::forget(rt);
            return Err(Fail::new("deadlock", format!("submit() did not return within 10 s (workers={workers}, capacity={capacity}): a submitter is blocked inside the executor")).with_class("stress"));
        }
        // every accepted task must run: wait (bounded) until the counters say so
        let deadline = std::time::Instant::now() + std::time::Duration::from_secs(10);
        let all_ran = |counters: &Vec<AtomicU32>, accepted: &Vec<AtomicU32>| (0..N).all(|i| accepted[i].load(Ordering::SeqCst) != 1 || counters[i].load(Ordering::SeqCst) >= 1);
        while !all_ran(&counters, &accepted) && std::time::Instant::now() < deadline {
            std::thread::sleep(std::time::Duration::from_millis(2));
        }
        // a little longer: a task that runs twice needs time to show
        std::thread::sleep(std::time::Duration::from_millis(5));
        let mut res: Result<(), Fail> = Ok(());
        let mut n_acc = 0u64;
        for i in 0..N {
            let (a, c) = (accepted[i].load(Ordering::SeqCst), counters[i].load(Ordering::SeqCst));
            if a == 1 {
                n_acc += 1;
            }
            if a == 1 && c == 0 {
                res = Err(Fail::new("task_never_run", format!("task {i} was accepted by submit() but had not run 10 s after the last submit ({} queued, workers={workers}, capacity={capacity})", exec.total_queued())).with_class("stress"));
                break;
            }
            if c > 1 {
                res = Err(Fail::new("task_ran_twice", format!("task {i} was executed {c} times")).with_class("stress"));
                break;
            }
            if a == 2 && c != 0 {
                res = Err(Fail::new("rejected_task_ran", format!("submit() returned Err for task {i} but it was executed")).with_class("stress"));
                break;
            }
        }
        if res.is_ok() {
            // quiescent now: nothing queued, nothing active
            let st = exec.stats();
            if st.total_executed != n_acc {
                res = Err(Fail::new("stats", format!("stats().total_executed = {} but {} accepted tasks ran", st.total_executed, n_acc)).with_class("stress"));
            } else if !exec.is_idle() {
                res = Err(Fail::new("not_idle_after_drain", format!("all tasks ran but is_idle() is false (active_tasks={}, queued={})", st.active_tasks, exec.total_queued())).with_class("stress"));
            }
        }
        drop(exec);
        rt.shutdown_background();
        res?;
    }
    Ok(rounds)
}

fn queue_stress(budget: std::time::Duration) -> Result<u64, Fail> {
    use std::sync::atomic::{AtomicBool, AtomicU64};
    let q = Arc::new(WorkStealingQueue::new(0, 8));
    let log = Arc::new(Mutex::new(Vec::<u64>::new()));
    let stop = Arc::new(AtomicBool::new(false));
    let progress: Arc<Vec<AtomicU64>> = Arc::new((0..3).map(|_| AtomicU64::new(0)).collect());
    let taken = Arc::new(Mutex::new(std::collections::HashSet::<u64>::new()));
    let fail: Arc<Mutex<Option<Fail>>> = Arc::new(Mutex::new(None));
    let pushed = Arc::new(AtomicU64::new(0));
    for tid in 0..3usize {
        let (q, log, stop, progress, taken, fail, pushed) = (q.clone(), log.clone(), stop.clone(), progress.clone(), taken.clone(), fail.clone(), pushed.clone());
        // detached on purpose: a deadlocked thread can never be joined
        std::thread::spawn(move || {
            let mut n = 0u64;
            while !stop.load(Ordering::SeqCst) {
                n += 1;
                progress[tid].store(n, Ordering::SeqCst);
                let got = match tid {
                    0 => {
                        // owner: push, balance, pop_local
                        if n % 3 == 0 {
                            let id = (tid as u64) << 40 | n;
                            if q.push_local(Box::new(IdTask { id, prio: (n % 2) as u8, stealable: n % 7 != 0, log: log.clone() })).is_ok() {
                                pushed.fetch_add(1, Ordering::SeqCst);
                            }
                            None
                        } else if n % 3 == 1 {
                            q.balance();
                            None
                        } else {
                            q.pop_local()
                        }
                    }
                    1 => q.steal(),
                    _ => {
                        let _ = q.len();
                        let _ = q.is_empty();
                        None
                    }
                };
                if let Some(t) = got {
                    // IdTask::execute logs its id under the log mutex; read it back under the same critical section
                    let id = {
                        let _ = t.execute();
                        // (another thread may log in between: find OUR id by uniqueness instead)
                        0u64
                    };
                    let _ = id;
                }
            }
            // every logged id must be unique (a task handed out twice logs twice)
            if tid == 0 {
                let l = log.lock().unwrap();
                let mut seen = taken.lock().unwrap();
                for id in l.iter() {
                    if !seen.insert(*id) {
                        fail.lock().unwrap().get_or_insert(Fail::new("task_returned_twice", format!("task {id} was handed out twice")).with_class("stress"));
                    }
                }
            }
            progress[tid].store(u64::MAX, Ordering::SeqCst);
        });
    }
    // watchdog: every thread must keep making calls
    let t_end = std::time::Instant::now() + budget;
    let mut last: Vec<u64> = vec![0; 3];
    let mut last_change: Vec<std::time::Instant> = vec![std::time::Instant::now(); 3];
    while std::time::Instant::now() < t_end {
        std::thread::sleep(std::time::Duration::from_millis(20));
        let now: Vec<u64> = progress.iter().map(|p| p.load(Ordering::SeqCst)).collect();
        for i in 0..3 {
            // each thread on its own: its call counter must move at least once in 10 s
            if now[i] != last[i] {
                last_change[i] = std::time::Instant::now();
            }
        }
        last = now;
        if let Some(i) = (0..3).find(|i| last_change[*i].elapsed() > std::time::Duration::from_secs(10)) {
            stop.store(true, Ordering::SeqCst);
            return Err(Fail::new("deadlock", format!("owner / thief / observer on one WorkStealingQueue: thread {i} completed no call for 10 s (calls so far {:?})", last)).with_class("stress"));
        }
    }
    stop.store(true, Ordering::SeqCst);
    let t0 = std::time::Instant::now();
    while progress.iter().any(|p| p.load(Ordering::SeqCst) != u64::MAX) && t0.elapsed() < std::time::Duration::from_secs(5) {
        std::thread::sleep(std::time::Duration::from_millis(5));
    }
    if progress.iter().any(|p| p.load(Ordering::SeqCst) != u64::MAX) {
        return Err(Fail::new("deadlock", "a queue thread did not finish its last call within 5 s".to_string()).with_class("stress"));
    }
    if let Some(f) = fail.lock().unwrap().take() {
        return Err(f);
    }
    // nothing lost: what was pushed is either logged (handed out) or still inside
    let handed = log.lock().unwrap().len() as u64;
    let inside = q.len() as u64;
    let p = pushed.load(Ordering::SeqCst);
    if handed + inside != p {
        return Err(Fail::new("task_lost_or_duplicated", format!("{p} tasks were accepted, {handed} were handed out and {inside} are still inside")).with_class("stress"));
    }
    Ok(last.iter().filter(|x| **x != u64::MAX).sum())
}

fn main() {
    zverif::main_with("C18", |reg, tier| {
        let t = |p: u8, s: bool| TaskSpec { priority: p, stealable: s };
        let grid: Vec<(usize, usize, Vec<TaskSpec>)> = vec![
            (1, 2, vec![t(0, true)]),
            (1, 2, vec![t(0, true), t(0, true)]),
            (1, 4, vec![t(0, true), t(1, true), t(0, false)]),
            (1, 1, vec![t(0, true), t(0, true)]),
            (2, 2, vec![t(0, true), t(0, true)]),
            (2, 1, vec![t(0, true), t(1, false), t(0, true)]),
            (2, 4, vec![t(0, true), t(0, false), t(1, true)]),
        ];
        for (w, c, tasks) in grid {
            let desc: Vec<String> = tasks.iter().map(|x| format!("p{}{}", x.priority, if x.stealable { "s" } else { "n" })).collect();
            reg.add(Sched(ExecSpec {
                name: format!("WorkStealingExecutor[workers={w},capacity={c}] tasks [{}]", desc.join(",")),
                submitters: 1,
                workers: w,
                capacity: c,
                tasks,
                bound_quick: 1,
                bound_thorough: 2,
                observer_checks: 0,
            }));
        }
        // two submitters racing for the last slot of a worker's local queue (probe and push are separate lock sections)
        for (w, c, n) in [(1usize, 1usize, 2usize), (1, 2, 3), (1, 2, 4), (2, 1, 4)] {
            reg.add(Sched(ExecSpec {
                name: format!("WorkStealingExecutor[workers={w},capacity={c}] {n} plain tasks from 2 submitters"),
                submitters: 2,
                workers: w,
                capacity: c,
                tasks: vec![t(0, true); n],
                bound_quick: 1,
                bound_thorough: 2,
                observer_checks: 0,
            }));
        }
        // an observer asks is_idle() while tasks are queued / being executed (the only completion signal submit() offers)
        for (w, c, n) in [(1usize, 2usize, 1usize), (1, 1, 2), (2, 2, 2), (1, 1, 3)] {
            reg.add(Sched(ExecSpec {
                name: format!("WorkStealingExecutor[workers={w},capacity={c}] {n} plain task(s) + an is_idle() observer"),
                submitters: 1,
                workers: w,
                capacity: c,
                tasks: vec![t(0, true); n],
                bound_quick: 1,
                bound_thorough: 2,
                observer_checks: 2,
            }));
        }
        // default-schedule grid (pre-emption bound 0): worker x capacity x task-count, incl. the counts around the
        // `total_executed % 100 == 0` balance trigger
        let counts_quick: &[usize] = &[0, 3, 6, 101, 102];
        let counts_thorough: &[usize] = &[0, 1, 2, 3, 4, 5, 6, 100, 101, 102, 201];
        for w in 1..=3usize {
            for c in [1usize, 2, 4, 256] {
                for &n in tier.pick(counts_quick, counts_thorough) {
                    if tier == Tier::Quick && !(w == 1 || c == 256) {
                        continue;
                    }
                    reg.add(Sched(ExecSpec {
                        name: format!("WorkStealingExecutor[workers={w},capacity={c}] {n} plain tasks, default schedule"),
                        submitters: 1,
                        workers: w,
                        capacity: c,
                        tasks: vec![t(0, true); n],
                        bound_quick: 0,
                        bound_thorough: 0,
                        observer_checks: 0,
                    }));
                }
            }
        }
        reg.add(Seq(QueueSpec { cap: 2, dq: 5, dt: 7 }));
        // the queue itself under the controlled scheduler: owner (push / pop_local / balance), thief (steal), observer (len)
        {
            use CQ::*;
            reg.add(Sched(ConcQueueSpec {
                name: "WorkStealingQueue[capacity=4] Q1: owner [balance, pop_local] vs thief [steal, steal]",
                cap: 4,
                prefill: vec![(0, true), (1, true), (0, true)],
                threads: vec![vec![Balance, PopLocal], vec![Steal, Steal]],
                bound_quick: 2,
                bound_thorough: 4,
            }));
            reg.add(Sched(ConcQueueSpec {
                name: "WorkStealingQueue[capacity=4] Q2: owner [push, balance, pop_local], thief [steal], observer [len, len]",
                cap: 4,
                prefill: vec![(0, true), (0, false)],
                threads: vec![vec![Push(1, true), Balance, PopLocal], vec![Steal], vec![Len, Len]],
                bound_quick: 2,
                bound_thorough: 3,
            }));
            reg.add(Sched(ConcQueueSpec {
                name: "WorkStealingQueue[capacity=2] Q3: two pushers at capacity, thief, balance",
                cap: 2,
                prefill: vec![(0, true)],
                threads: vec![vec![Push(0, true), Balance], vec![Push(1, false), PopLocal], vec![Steal, Steal]],
                bound_quick: 2,
                bound_thorough: 3,
            }));
        }
        reg.add(Seq(QueueSpec { cap: 4, dq: 5, dt: 7 }));
        for (w, c) in [(1usize, 1usize), (3, 2)] {
            reg.add(zverif::stress::Stress(zverif::stress::StressSpec {
                name: format!("WorkStealingExecutor[workers={w},capacity={c}] free-running stress (sampling)"),
                describe: "rounds of 120 tasks (mixed priority / stealability) submitted by 2 uncontrolled threads to a fresh executor on a multi-thread tokio runtime: every accepted task must have run exactly once within 10 s of the last submit, rejected ones never, then total_executed and is_idle() must agree".into(),
                run: Box::new(move |d| executor_stress(w, c, d)),
                budget_quick_ms: 800,
                budget_thorough_ms: 10000,
            }));
        }
        reg.add(zverif::stress::Stress(zverif::stress::StressSpec {
            name: "WorkStealingQueue free-running stress (sampling)".into(),
            describe: "owner (push / balance / pop_local), thief (steal) and observer (len / is_empty) hammer one queue uncontrolled: every thread must keep completing calls (no deadlock), no task is handed out twice, accepted = handed out + still inside".into(),
            run: Box::new(queue_stress),
            budget_quick_ms: 800,
            budget_thorough_ms: 10000,
        }));
        pipes::register(reg, tier);
    });
}
