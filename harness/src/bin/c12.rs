//! C12 — suffix arrays order all suffixes; LCP, BWT and pattern search are exact (engine E2).
//!
//! Reference functions (all naive, all in this file): a suffix array is correct iff it is a permutation of
//! 0..n whose adjacent suffixes are strictly increasing (the sorted order is unique, so this is equality with
//! the naive `sort_by(|i,j| text[i..].cmp(&text[j..]))`); LCP by direct comparison of adjacent suffixes; BWT
//! `text[(sa[r] + n - 1) % n]` (the library's documented-by-code convention: cyclic predecessor, no sentinel);
//! pattern search = all positions found by a naive scan.
//!
//! LCP / BWT / search are judged only when the suffix array of the same case is correct (their stated input is
//! "the suffix array"); a wrong suffix array is reported once, under clause `suffix_array`
//! with class `<resolved algorithm>/<text class>`.
//!
//! All subjects share one case type (`SaCase { text, entry }`) and one `run` function that dispatches on `entry`,
//! so that a known finding with subject `SuffixArray/*` (one construction defect seen through several entry
//! points) can be replayed on any of them.

use serde::{de::DeserializeOwned, Deserialize, Serialize};
use std::cell::OnceCell;
use std::hash::Hash;
use zverif::enumr::{self, Enum, EnumSpec};
use zverif::util::{all_strings, brief, hex, unhex};
use zverif::{Outcome, Registry, Tier};

use zipora::algorithms::suffix_array::{
    EnhancedSuffixArray, LcpArray, SuffixArray, SuffixArrayAlgorithm, SuffixArrayBuilder, SuffixArrayConfig,
};
use zipora::algorithms::Algorithm;
use zipora::compression::dict_zip::{
    ConcurrentSuffixArrayDictionary, DfaCache, DfaCacheConfig, MatcherConfig, PatternMatcher, PatternMatcherBuilder, SuffixArrayDictionary, SuffixArrayDictionaryConfig,
};
use std::sync::Arc;
use zipora::compression::suffix_array::{SuffixArrayCompressor, SuffixArrayConfig as CompSaConfig};

// ------------------------------------------------------------------------------------------------
// generic closure-based spec (same shape as in c11.rs)

type Gen<C> = Box<dyn Fn(Tier, &mut dyn FnMut(C) -> bool) -> bool>;

struct Spec<C> {
    name: String,
    space: String,
    gen: Gen<C>,
    run: Box<dyn Fn(&C) -> Outcome>,
}

impl<C: Serialize + DeserializeOwned + Hash + Clone> EnumSpec for Spec<C> {
    type Case = C;
    fn name(&self) -> String {
        self.name.clone()
    }
    fn space(&self, tier: Tier) -> String {
        format!("[{}] {}", tier.name(), self.space)
    }
    fn cases(&self, tier: Tier, f: &mut dyn FnMut(C) -> bool) {
        (self.gen)(tier, f);
    }
    fn run(&self, c: &C) -> Outcome {
        (self.run)(c)
    }
}

fn add<C: Serialize + DeserializeOwned + Hash + Clone + 'static>(
    reg: &mut Registry,
    name: &str,
    space: &str,
    gen: impl Fn(Tier, &mut dyn FnMut(C) -> bool) -> bool + 'static,
    run: impl Fn(&C) -> Outcome + 'static,
) {
    reg.add(Enum(Spec { name: name.to_string(), space: space.to_string(), gen: Box::new(gen), run: Box::new(run) }));
}

// ------------------------------------------------------------------------------------------------
// texts

#[derive(Clone, Copy, Debug, PartialEq, Eq, Hash, Serialize, Deserialize)]
enum TShape {
    /// abab..
    AbRep,
    /// a^(n-1) b
    AnB,
    /// b a^(n-1)
    BAn,
    /// a^n
    AllA,
    /// Fibonacci word over {a,b}
    Fib,
    /// Thue-Morse word over {a,b}
    ThueMorse,
    /// Thue-Morse word over {0x00,0xFF}
    ThueMorse00FF,
    /// i mod 256
    Cyc256,
    /// 255 - (i mod 256)
    Rev256,
    /// xorshift bytes (deterministic)
    Noise256,
    // ---- coverage audit: alphabets between 5 and 255 symbols, texts with many distinct AND many equal LMS substrings
    /// xorshift bytes folded to 16 symbols 0x41..0x50: > 256 distinct LMS substrings with repeats from n = 1000 on
    Noise16,
    /// xorshift bytes folded to the 5 symbols {01,41,61,FE,FF}
    Noise5,
    /// 8 symbols a..h in runs of 16 (repetition ratio 15/16: Adaptive -> Larsson-Sadakane)
    Runs8,
    /// abab.. with every 16th byte replaced by c, d, e in turn (5 symbols, entropy < 2, no runs: Adaptive -> DC3)
    LowEnt5,
    /// 1 + i mod 255 (255 symbols, no 0x00)
    Cyc255From1,
    /// 255 - i mod 255 (255 symbols, no 0x00)
    Rev255To1,
    /// 1 + xorshift byte mod 255 (255 symbols, no 0x00)
    Noise255From1,
}

const ALL_TSHAPES: &[TShape] = &[
    TShape::AbRep,
    TShape::AnB,
    TShape::BAn,
    TShape::AllA,
    TShape::Fib,
    TShape::ThueMorse,
    TShape::ThueMorse00FF,
    TShape::Cyc256,
    TShape::Rev256,
    TShape::Noise256,
    TShape::Noise16,
    TShape::Noise5,
    TShape::Runs8,
    TShape::LowEnt5,
    TShape::Cyc255From1,
    TShape::Rev255To1,
    TShape::Noise255From1,
];

/// the xorshift byte stream of `Noise256` (seeded by the length)
fn noise(n: usize) -> impl Iterator<Item = u8> {
    let mut x: u64 = 0x9E37_79B9_7F4A_7C15 ^ ((n as u64) << 17);
    (0..n).map(move |_| {
        x ^= x << 13;
        x ^= x >> 7;
        x ^= x << 17;
        (x >> 24) as u8
    })
}

fn shaped_text(shape: TShape, n: usize) -> Vec<u8> {
    match shape {
        TShape::AbRep => (0..n).map(|i| if i % 2 == 0 { b'a' } else { b'b' }).collect(),
        TShape::AnB => (0..n).map(|i| if i + 1 == n { b'b' } else { b'a' }).collect(),
        TShape::BAn => (0..n).map(|i| if i == 0 { b'b' } else { b'a' }).collect(),
        TShape::AllA => vec![b'a'; n],
        TShape::Fib => {
            let (mut a, mut b) = (b"a".to_vec(), b"ab".to_vec());
            while b.len() < n {
                let mut c = b.clone();
                c.extend_from_slice(&a);
                a = b;
                b = c;
            }
            b.truncate(n);
            b
        }
        TShape::ThueMorse => (0..n).map(|i| if (i as u64).count_ones() % 2 == 0 { b'a' } else { b'b' }).collect(),
        TShape::ThueMorse00FF => (0..n).map(|i| if (i as u64).count_ones() % 2 == 0 { 0x00 } else { 0xFF }).collect(),
        TShape::Cyc256 => (0..n).map(|i| (i % 256) as u8).collect(),
        TShape::Rev256 => (0..n).map(|i| 255 - (i % 256) as u8).collect(),
        TShape::Noise256 => noise(n).collect(),
        TShape::Noise16 => noise(n).map(|b| 0x41 + (b & 15)).collect(),
        TShape::Noise5 => noise(n).map(|b| [0x01, 0x41, 0x61, 0xFE, 0xFF][(b % 5) as usize]).collect(),
        TShape::Runs8 => (0..n).map(|i| b'a' + ((i / 16) % 8) as u8).collect(),
        TShape::LowEnt5 => (0..n).map(|i| if i % 16 == 15 { b"cde"[(i / 16) % 3] } else if i % 2 == 0 { b'a' } else { b'b' }).collect(),
        TShape::Cyc255From1 => (0..n).map(|i| 1 + (i % 255) as u8).collect(),
        TShape::Rev255To1 => (0..n).map(|i| 255 - (i % 255) as u8).collect(),
        TShape::Noise255From1 => noise(n).map(|b| 1 + b % 255).collect(),
    }
}

/// enumeration alphabets; index = alphabet id (1..=4 plain, 5..=8 the sentinel-terminated family of the
/// compression builder: symbols > 0x00 so that a final 0x00 is a unique smallest sentinel)
const ALPHABETS: &[&[u8]] = &[
    &[],
    &[0x61],
    &[0x61, 0x62],
    &[0x00, 0x61, 0xFF],
    &[0x00, 0x61, 0x62, 0xFF],
    &[0x61],
    &[0x61, 0x62],
    &[0x01, 0x61, 0xFF],
    &[0x01, 0x61, 0x62, 0xFF],
    // coverage audit: five symbols with adjacent byte values at both ends of the byte range (id 9 plain, id 10 sentinel-free)
    &[0x00, 0x01, 0x61, 0xFE, 0xFF],
    &[0x01, 0x02, 0x61, 0xFE, 0xFF],
];
/// one byte that never occurs in texts over the alphabet
const FOREIGN: &[u8] = &[0x7A, 0x62, 0x63, 0x62, 0x63, 0x62, 0x63, 0x62, 0x63, 0x62, 0x62];

#[derive(Clone, Debug, PartialEq, Eq, Hash, Serialize, Deserialize)]
enum Text {
    /// text over ALPHABETS[alpha], hex encoded
    Seq { alpha: u8, hex: String },
    Grid { shape: TShape, n: u32 },
}

impl Text {
    fn bytes(&self) -> Vec<u8> {
        match self {
            Text::Seq { hex, .. } => unhex(hex).unwrap_or_default(),
            Text::Grid { shape, n } => shaped_text(*shape, *n as usize),
        }
    }
    /// (pattern alphabet, foreign byte)
    fn alphabet(&self, text: &[u8]) -> (Vec<u8>, u8) {
        match self {
            Text::Seq { alpha, .. } => (ALPHABETS[*alpha as usize].to_vec(), FOREIGN[*alpha as usize]),
            Text::Grid { .. } => {
                let mut a = text.to_vec();
                a.sort();
                a.dedup();
                let foreign = (0..=255u8).rev().find(|b| !a.contains(b));
                match foreign {
                    // alphabets with a free byte: the largest free byte that is smaller than the maximum, if any
                    Some(_) => {
                        let max = *a.last().unwrap_or(&0);
                        let inner = (0..max).rev().find(|b| !a.contains(b));
                        (a, inner.or(foreign).unwrap())
                    }
                    // all 256 bytes occur: there is no foreign byte; patterns are made absent by length instead
                    None => (a, 0x7A),
                }
            }
        }
    }
}

const S_LENS_QUICK: [usize; 5] = [0, 16, 13, 9, 7];
const S_LENS_THOROUGH: [usize; 5] = [0, 20, 15, 10, 8];
/// length bound of the five-symbol alphabet (ids 9 / 10)
const S5_LEN_QUICK: usize = 5;
const S5_LEN_THOROUGH: usize = 7;
const G_LENS: &[usize] = &[1, 2, 3, 63, 64, 65, 255, 256, 257, 1000, 4097];

/// S ∪ G.  `shift` selects the plain (0) or the sentinel-terminated (4) alphabet family; `s_cut` shortens the
/// small-scope lengths (for expensive subjects); grid lengths above `max_n(tier)` are dropped.
fn texts(tier: Tier, shift: u8, s_cut: usize, max_n: usize, f: &mut dyn FnMut(Text) -> bool) -> bool {
    let lens = tier.pick(S_LENS_QUICK, S_LENS_THOROUGH);
    let mut first = true;
    for k in 1..=4usize {
        let a = ALPHABETS[k + shift as usize];
        let max_len = lens[k].saturating_sub(s_cut);
        let ok = all_strings(a, max_len, &mut |s| {
            // the empty text and texts over a sub-alphabet already produced with a smaller alphabet are repeats
            if s.is_empty() {
                if !first {
                    return true;
                }
                first = false;
            } else if k > 1 && !uses_new_symbol(s, k, shift) {
                return true;
            }
            f(Text::Seq { alpha: (k as u8) + shift, hex: hex(s) })
        });
        if !ok {
            return false;
        }
    }
    // five-symbol alphabet: only texts that use one of its two new symbols (the others are texts over alphabet 3 resp. 7)
    {
        let id = if shift == 0 { 9u8 } else { 10u8 };
        let new: [u8; 2] = if shift == 0 { [0x01, 0xFE] } else { [0x02, 0xFE] };
        let max_len = tier.pick(S5_LEN_QUICK, S5_LEN_THOROUGH).saturating_sub(s_cut);
        let ok = all_strings(ALPHABETS[id as usize], max_len, &mut |s| {
            if !s.iter().any(|b| new.contains(b)) {
                return true;
            }
            f(Text::Seq { alpha: id, hex: hex(s) })
        });
        if !ok {
            return false;
        }
    }
    for &n in G_LENS {
        if n > max_n {
            continue;
        }
        for &shape in ALL_TSHAPES {
            if !f(Text::Grid { shape, n: n as u32 }) {
                return false;
            }
        }
    }
    true
}

/// Alphabet 2 ⊃ alphabet 1 and alphabet 4 ⊃ alphabet 3 ⊃ {0x61}: skip texts that a smaller alphabet already produced.
fn uses_new_symbol(s: &[u8], k: usize, shift: u8) -> bool {
    let low = if shift == 0 { 0x00 } else { 0x01 };
    match k {
        2 => s.contains(&0x62),
        3 => s.contains(&low) || s.contains(&0xFF),
        4 => s.contains(&0x62) && (s.contains(&low) || s.contains(&0xFF)),
        _ => true,
    }
}

const TEXT_SPACE: &str = "S = all strings over {61}, {61,62}, {00,61,FF}, {00,61,62,FF}, {00,01,61,FE,FF} up to length 16,13,9,7,5 (quick) / 20,15,10,8,7 (thorough), each text once; \
G = {(ab)^n, a^n b, b a^n, a^n, Fibonacci word, Thue-Morse over {a,b} and over {00,FF}, i mod 256, 255 - i mod 256, xorshift bytes, xorshift bytes folded to 16 and to 5 symbols, 8 symbols in runs of 16, \
abab.. with every 16th byte c/d/e, 1 + i mod 255, 255 - i mod 255, 1 + xorshift mod 255} x lengths {1,2,3,63,64,65,255,256,257,1000} (+4097 thorough)";

const PATTERN_SPACE: &str = "patterns per text: every string of length <= 3 over the text alphabet plus one foreign byte (5..7 text symbols: length <= 2 and the 3-grams at text positions 0..32 with their last byte replaced; more symbols: all 256 single bytes, the 2- and 3-grams at text positions 0..32 and the same with the last byte replaced), plus every suffix, every suffix + foreign byte, every suffix (>= 3 bytes) + the smallest absent byte, every prefix of length >= 4 and the same with its last byte replaced by the next alphabet symbol (n <= 257: all suffix starts / prefix ends; n <= 1000: every ceil(n/64)-th and the last 64; longer: every ceil(n/16)-th and the last 32), the middle third of the text and a near miss of it, and one pattern longer than the text";

fn grid_max(tier: Tier) -> usize {
    tier.pick(1000, 4097)
}

fn text_class(t: &[u8]) -> &'static str {
    let n = t.len();
    if n <= 1 {
        return "n<=1";
    }
    if n == 2 && t[0] == t[1] {
        // its own class: builders special-case two-byte texts
        return "n2_equal";
    }
    let nondec = t.windows(2).all(|w| w[0] <= w[1]);
    let noninc = t.windows(2).all(|w| w[0] >= w[1]);
    match (nondec, noninc) {
        (true, true) => "unary",
        (true, false) => "nondecreasing",
        (false, true) => "nonincreasing",
        (false, false) => "mixed",
    }
}

// ------------------------------------------------------------------------------------------------
// reference functions

fn naive_sa(t: &[u8]) -> Vec<usize> {
    let mut v: Vec<usize> = (0..t.len()).collect();
    v.sort_by(|&a, &b| t[a..].cmp(&t[b..]));
    v
}

fn lcp_len(a: &[u8], b: &[u8]) -> usize {
    a.iter().zip(b.iter()).take_while(|(x, y)| x == y).count()
}

fn naive_occurrences(t: &[u8], p: &[u8]) -> Vec<usize> {
    (0..t.len()).filter(|&i| t[i..].starts_with(p)).collect()
}

fn show_sa(sa: &[usize]) -> String {
    if sa.len() <= 24 {
        format!("{:?}", sa)
    } else {
        format!("[len {}] {:?}..", sa.len(), &sa[..16])
    }
}

/// The suffix-array oracle: "the unique permutation of 0..n that orders the text's suffixes lexicographically".
/// `Some((symptom, detail))` if `sa` is not that permutation.
fn judge_sa(t: &[u8], sa: &[usize]) -> Option<(&'static str, String)> {
    let n = t.len();
    let expected = || if n <= 64 { format!(", expected {:?}", naive_sa(t)) } else { String::new() };
    if sa.len() != n {
        return Some(("wrong_len", format!("text {}: suffix array has {} entries for {} suffixes", brief(t), sa.len(), n)));
    }
    let mut seen = vec![false; n];
    for &p in sa {
        if p >= n || seen[p] {
            return Some(("not_permutation", format!("text {}: {} is not a permutation of 0..{n} (entry {p} repeated or out of range){}", brief(t), show_sa(sa), expected())));
        }
        seen[p] = true;
    }
    for r in 1..n {
        if t[sa[r - 1]..] >= t[sa[r]..] {
            return Some((
                "wrong_order",
                format!("text {}: {} is not in suffix order at ranks {},{} (suffix {} >= suffix {}){}", brief(t), show_sa(sa), r - 1, r, sa[r - 1], sa[r], expected()),
            ));
        }
    }
    None
}

/// LCP oracle: lcp[0] = 0 and lcp[r] = |longest common prefix of the suffixes at ranks r-1 and r|.
fn judge_lcp(t: &[u8], sa: &[usize], lcp: &[usize]) -> Option<(String, String)> {
    let n = t.len();
    if lcp.len() != n {
        return Some(("lcp_len".into(), format!("text {}: LCP array has {} entries, suffix array {}", brief(t), lcp.len(), n)));
    }
    for r in 0..n {
        let exp = if r == 0 { 0 } else { lcp_len(&t[sa[r - 1]..], &t[sa[r]..]) };
        if lcp[r] != exp {
            return Some((
                format!("lcp_value/{}", if r == 0 { "rank0" } else if exp >= 256 { "lcp>=256" } else { "lcp<256" }),
                format!("text {}: lcp[{r}] = {}, direct comparison of suffixes {} and {} gives {exp}", brief(t), lcp[r], if r > 0 { sa[r - 1] } else { 0 }, sa[r]),
            ));
        }
    }
    None
}

fn patterns(t: &[u8], alpha: &[u8], foreign: u8) -> Vec<Vec<u8>> {
    let n = t.len();
    let mut out: Vec<Vec<u8>> = Vec::new();
    let mut sym = alpha.to_vec();
    if !sym.contains(&foreign) {
        sym.push(foreign);
    }
    // a second absent byte, the smallest one (the first foreign byte lies above or inside the alphabet): deep mismatches in
    // both directions.  None if every byte occurs.
    let low: Option<u8> = (0..=255u8).find(|b| !sym.contains(b));
    let grams = |out: &mut Vec<Vec<u8>>, from: usize| {
        for i in 0..n.min(32) {
            for l in from..=3 {
                if i + l <= n {
                    out.push(t[i..i + l].to_vec());
                    let mut q = t[i..i + l].to_vec();
                    q[l - 1] = q[l - 1].wrapping_add(1);
                    out.push(q);
                }
            }
        }
    };
    if sym.len() <= 5 {
        all_strings(&sym, 3, &mut |s| {
            out.push(s.to_vec());
            true
        });
    } else if sym.len() <= 8 {
        // 5..7 text symbols: every string of length <= 2, and the 3-grams of the text
        all_strings(&sym, 2, &mut |s| {
            out.push(s.to_vec());
            true
        });
        grams(&mut out, 3);
    } else {
        out.push(Vec::new());
        for b in 0..=255u8 {
            out.push(vec![b]);
        }
        grams(&mut out, 2);
    }
    let starts: Vec<usize> = if n <= 257 {
        (0..n).collect()
    } else {
        let (step, tail) = if n <= 1000 { (n.div_ceil(64), 64) } else { (n.div_ceil(16), 32) };
        let mut v: Vec<usize> = (0..n).step_by(step).collect();
        v.extend(n - tail..n);
        v.sort();
        v.dedup();
        v
    };
    for &j in &starts {
        out.push(t[j..].to_vec());
        let mut q = t[j..].to_vec();
        q.push(foreign);
        out.push(q);
        // (coverage audit) the same suffix followed by a byte smaller than every text byte it could be followed by
        if let Some(low) = low {
            if n - j >= 3 {
                let mut q = t[j..].to_vec();
                q.push(low);
                out.push(q);
            }
        }
    }
    // (coverage audit) prefixes of the text of length >= 4 (shorter ones are in the exhaustive part): present patterns that
    // end inside the text, and the same with the last byte replaced by the next alphabet symbol (a mismatch at depth >= 3
    // against an in-alphabet byte; present or absent, the naive scan decides)
    for &j in &starts {
        let k = n - j; // prefix length
        if k < 4 {
            continue;
        }
        out.push(t[..k].to_vec());
        let mut q = t[..k].to_vec();
        let at = alpha.iter().position(|&b| b == q[k - 1]).unwrap_or(0);
        q[k - 1] = alpha[(at + 1) % alpha.len()];
        out.push(q);
    }
    // the middle third of the text and a near miss of it
    if n >= 12 {
        let (a, b) = (n / 3, n - n / 3);
        out.push(t[a..b].to_vec());
        let mut q = t[a..b].to_vec();
        q[b - a - 1] = foreign;
        out.push(q);
    }
    // a pattern longer than the whole text
    let mut q = t.to_vec();
    q.extend_from_slice(t);
    q.push(foreign);
    out.push(q);
    out
}

fn pattern_class(t: &[u8], p: &[u8], count: usize) -> &'static str {
    if p.is_empty() {
        "empty_pattern"
    } else if p.len() > t.len() {
        "pattern_longer_than_text"
    } else if count == 0 {
        "absent"
    } else if count == 1 {
        "once"
    } else {
        "many"
    }
}

// ------------------------------------------------------------------------------------------------
// the case type shared by all subjects

#[derive(Clone, Copy, Debug, PartialEq, Eq, Hash, Serialize, Deserialize)]
enum Alg {
    SAIS,
    DivSufSort,
    DC3,
    LarssonSadakane,
    Adaptive,
}

impl Alg {
    fn real(self) -> SuffixArrayAlgorithm {
        match self {
            Alg::SAIS => SuffixArrayAlgorithm::SAIS,
            Alg::DivSufSort => SuffixArrayAlgorithm::DivSufSort,
            Alg::DC3 => SuffixArrayAlgorithm::DC3,
            Alg::LarssonSadakane => SuffixArrayAlgorithm::LarssonSadakane,
            Alg::Adaptive => SuffixArrayAlgorithm::Adaptive,
        }
    }
}

#[derive(Clone, Copy, Debug, PartialEq, Eq, Hash, Serialize, Deserialize)]
enum Entry {
    /// algorithms::suffix_array::SuffixArrayBuilder::build.  variant:
    ///   0 = defaults (sequential, optimize_small_alphabet = true, adaptive_threshold = 10_000)
    ///   1 = optimize_small_alphabet = false
    ///   2 = use_parallel = true, parallel_threshold = 0
    ///   3 = adaptive_threshold = 0 (the analysis always decides)    4 = adaptive_threshold = 8
    Builder { alg: Alg, variant: u8 },
    /// algorithms::suffix_array::EnhancedSuffixArray::with_lcp
    EnhancedLcp,
    /// algorithms::suffix_array::EnhancedSuffixArray::with_bwt
    EnhancedBwt,
    /// compression::suffix_array::SuffixArrayCompressor::build_suffix_array on text + 0x00 sentinel.
    /// preset: 0 = default, 1 = for_dictionary_compression (with LCP), 2 = for_realtime (no pool)
    /// (coverage audit) 3 = for_large_text, 4 = SuffixArrayCompressor::default() called through Algorithm::execute;
    /// presets 3 and 4 also build a second, shorter array with the same compressor while the first one is alive
    Compressor { preset: u8 },
    /// compression::dict_zip::SuffixArrayDictionary built over the text (min_pattern_length 1, min_frequency 1).
    /// sa: the suffix_array_config algorithm (Adaptive = the default)
    Dictionary { sa: Alg },
    // ---- coverage audit: the remaining entry points
    /// which: 0 = SuffixArray::new(text) (the library default configuration: Adaptive, use_parallel, parallel_threshold 100_000);
    /// 1 = SuffixArray::with_config(text, cfg(alg)); 2 = <SuffixArrayBuilder as Algorithm>::execute(&cfg(alg), text) on a builder
    /// that was constructed with a different configuration
    Ctor { alg: Alg, which: u8 },
    /// one SuffixArrayBuilder object builds five texts in a row (a 67-byte Thue-Morse word, the case text, its first half, the
    /// text doubled, the text again); the first array is searched after the last build
    BuilderReuse { alg: Alg },
    /// compression::dict_zip::PatternMatcher over a (correct) suffix array of the text.  cfg: 0 = with_config(min 1, max MAX,
    /// unlimited comparisons); 1 = PatternMatcher::new(sa, text, 2, 8); 2 = PatternMatcherBuilder defaults (4..=256, 100 comparisons);
    /// 3 = the matcher's DFA cache (DfaCache::build_from_suffix_array + find_longest_prefix) instead of the matcher
    Matcher { cfg: u8 },
    /// SuffixArrayDictionary with the library default configuration (min_pattern_length 4, max 256, min_frequency 4, memory pool)
    /// wrapped in ConcurrentSuffixArrayDictionary for the longest-match query
    DictionaryDefault { sa: Alg },
    /// SuffixArrayDictionary built with a QuickConfig preset (0 text, 1 binary, 2 log, 3 realtime; 4 = default with
    /// sample_ratio 0.5): all of them sample the training text (sample_ratio < 1) once it exceeds 10_000 bytes, so the
    /// dictionary text is a proper sub-text of the training text and every query is judged against `data()`
    DictionarySampled { preset: u8 },
}

#[derive(Clone, Debug, Hash, Serialize, Deserialize)]
struct SaCase {
    text: Text,
    entry: Entry,
}

fn sa_config(alg: Alg, variant: u8) -> SuffixArrayConfig {
    SuffixArrayConfig {
        algorithm: alg.real(),
        use_parallel: variant == 2,
        parallel_threshold: if variant == 2 { 0 } else { 100_000 },
        compute_lcp: false,
        optimize_small_alphabet: variant != 1,
        adaptive_threshold: match variant {
            3 => 0,
            4 => 8,
            _ => 10_000,
        },
    }
}

/// the algorithm a configuration resolves to for a text (`select_algorithm` is public)
fn resolved(cfg: &SuffixArrayConfig, t: &[u8]) -> String {
    format!("{:?}", SuffixArrayBuilder::new(cfg.clone()).select_algorithm(t))
}

fn sa_fail(alg: &str, t: &[u8], sym: &str, detail: String) -> Outcome {
    enumr::fail("suffix_array", format!("{alg}/{}", text_class(t)), format!("{sym}: {detail}"))
}

/// search clause for one (text, correct suffix array): `search(p)` must give the rank range of p.
fn judge_search(case_text: &Text, t: &[u8], sa: &SuffixArray) -> Option<Outcome> {
    let n = t.len();
    let (alpha, foreign) = case_text.alphabet(t);
    for p in patterns(t, &alpha, foreign) {
        let occ = naive_occurrences(t, &p);
        let (start, count) = sa.search(t, &p);
        let (lo, hi) = sa.search_range(t, &p);
        let pc = pattern_class(t, &p, occ.len());
        if hi < lo || hi - lo != count || (count > 0 && lo != start) {
            return Some(enumr::fail("search", format!("search_vs_search_range/{pc}"), format!("text {} pattern {}: search = ({start},{count}), search_range = ({lo},{hi})", brief(t), brief(&p))));
        }
        if count != occ.len() {
            return Some(enumr::fail("search", format!("count/{pc}"), format!("text {} pattern {}: search reports {count} occurrences, a naive scan finds {} at {:?}", brief(t), brief(&p), occ.len(), &occ[..occ.len().min(8)])));
        }
        if start + count > n {
            return Some(enumr::fail("search", format!("range_out_of_bounds/{pc}"), format!("text {} pattern {}: range ({start},{count}) exceeds {n} ranks", brief(t), brief(&p))));
        }
        let mut got: Vec<usize> = sa.as_slice()[start..start + count].to_vec();
        got.sort();
        if got != occ {
            return Some(enumr::fail("search", format!("positions/{pc}"), format!("text {} pattern {}: ranks {start}..{} hold positions {:?}, occurrences are {:?}", brief(t), brief(&p), start + count, &got[..got.len().min(8)], &occ[..occ.len().min(8)])));
        }
    }
    None
}

fn done(label: String, t: &[u8]) -> Outcome {
    let cls = format!("{label}/{}", text_class(t));
    if t.len() < 2 {
        Outcome::trivial(&cls)
    } else {
        Outcome::pass(&cls)
    }
}

fn run_builder(text: &Text, alg: Alg, variant: u8) -> Outcome {
    let t = text.bytes();
    let n = t.len();
    let cfg = sa_config(alg, variant);
    let ralg = resolved(&cfg, &t);
    let sa = match SuffixArrayBuilder::new(cfg).build(&t) {
        Ok(sa) => sa,
        // "for every text and every construction algorithm the suffix array is ...": refusing a valid text is a violation
        Err(e) => return sa_fail(&ralg, &t, "build_err", format!("build returned Err({e}) for text {}", brief(&t))),
    };
    if let Some((sym, detail)) = judge_sa(&t, sa.as_slice()) {
        return sa_fail(&ralg, &t, sym, detail);
    }
    if sa.text_len() != n {
        return enumr::fail("suffix_array", "text_len", format!("text_len() = {} for a text of {n} bytes", sa.text_len()));
    }
    for r in [0, n / 2, n.saturating_sub(1), n] {
        let exp = sa.as_slice().get(r).copied();
        if sa.suffix_at_rank(r) != exp {
            return enumr::fail("suffix_array", "suffix_at_rank", format!("suffix_at_rank({r}) = {:?}, as_slice()[{r}] = {:?}", sa.suffix_at_rank(r), exp));
        }
    }
    // (coverage audit) every rank, not four of them
    if n <= 4097 {
        if let Some(r) = (0..n).find(|&r| sa.suffix_at_rank(r) != Some(sa.as_slice()[r])) {
            return enumr::fail("suffix_array", "suffix_at_rank", format!("suffix_at_rank({r}) = {:?}, as_slice()[{r}] = {}", sa.suffix_at_rank(r), sa.as_slice()[r]));
        }
    }
    // LCP (Kasai) over this suffix array
    match LcpArray::new(&t, &sa) {
        Err(e) => return enumr::fail("lcp", "lcp_err", format!("LcpArray::new returned Err({e}) for text {}", brief(&t))),
        Ok(l) => {
            if let Some((class, detail)) = judge_lcp(&t, sa.as_slice(), l.as_slice()) {
                return enumr::fail("lcp", class, detail);
            }
            if n > 0 && (l.lcp_at(n - 1) != Some(l.as_slice()[n - 1]) || l.lcp_at(n).is_some()) {
                return enumr::fail("lcp", "lcp_at", format!("lcp_at({}) = {:?}, lcp_at({n}) = {:?}", n - 1, l.lcp_at(n - 1), l.lcp_at(n)));
            }
            if n <= 4097 {
                if let Some(r) = (0..n).find(|&r| l.lcp_at(r) != Some(l.as_slice()[r])) {
                    return enumr::fail("lcp", "lcp_at", format!("lcp_at({r}) = {:?}, as_slice()[{r}] = {}", l.lcp_at(r), l.as_slice()[r]));
                }
            }
        }
    }
    let with_search = variant == 0 || variant == 3;
    if with_search {
        if let Some(f) = judge_search(text, &t, &sa) {
            return f;
        }
    }
    // (evidence label only) what SA-IS had to do for a grid text: recursion levels and the size of the recursion alphabet
    let profile = if ralg == "SAIS" && matches!(text, Text::Grid { .. }) { lms_profile(&t) } else { String::new() };
    done(format!("builder/{ralg}/v{variant}{}{profile}", if with_search { "+search" } else { "" }), &t)
}

fn run_enhanced(text: &Text, bwt: bool) -> Outcome {
    let t = text.bytes();
    let n = t.len();
    let ralg = resolved(&SuffixArrayConfig::default(), &t);
    let esa = match if bwt { EnhancedSuffixArray::with_bwt(&t) } else { EnhancedSuffixArray::with_lcp(&t) } {
        Ok(e) => e,
        Err(e) => return sa_fail(&ralg, &t, "build_err", format!("constructor returned Err({e}) for text {}", brief(&t))),
    };
    let sa = esa.suffix_array().as_slice();
    if let Some((sym, detail)) = judge_sa(&t, sa) {
        return sa_fail(&ralg, &t, sym, detail);
    }
    if bwt {
        let Some(b) = esa.bwt() else {
            return enumr::fail("bwt", "missing", "with_bwt produced no BWT".to_string());
        };
        // the BWT induced by the suffix order, cyclic predecessor (the library has no sentinel)
        let exp: Vec<u8> = sa.iter().map(|&p| t[(p + n - 1) % n]).collect();
        if b != &exp[..] {
            return enumr::fail("bwt", text_class(&t), format!("text {}: bwt = {}, expected {}", brief(&t), brief(b), brief(&exp)));
        }
        if esa.lcp_array().is_some() {
            return enumr::fail("bwt", "unexpected_lcp", "with_bwt also carries an LCP array".to_string());
        }
    } else {
        let Some(l) = esa.lcp_array() else {
            return enumr::fail("lcp", "missing", "with_lcp produced no LCP array".to_string());
        };
        if let Some((class, detail)) = judge_lcp(&t, sa, l.as_slice()) {
            return enumr::fail("lcp", class, detail);
        }
    }
    done(format!("enhanced-{}/{ralg}", if bwt { "bwt" } else { "lcp" }), &t)
}

thread_local! {
    /// one compressor per preset (each owns a SecureMemoryPool)
    static COMPRESSORS: [OnceCell<Option<SuffixArrayCompressor>>; 5] = const { [OnceCell::new(), OnceCell::new(), OnceCell::new(), OnceCell::new(), OnceCell::new()] };
}

fn run_compressor(text: &Text, preset: u8) -> Outcome {
    // documented precondition: "should end with unique sentinel" -- append 0x00, smaller than every text byte
    let mut t = text.bytes();
    if t.contains(&0) {
        return Outcome::skip("text contains the sentinel byte");
    }
    t.push(0);
    let n = t.len();
    let ptext = Text::Seq { alpha: 0, hex: String::new() };
    let (mut alpha, foreign) = text.alphabet(&t[..n - 1]);
    alpha.retain(|&b| b != 0);
    alpha.insert(0, 0);
    let _ = ptext;
    COMPRESSORS.with(|cs| {
        let comp = cs[preset.min(4) as usize].get_or_init(|| {
            let cfg = match preset {
                1 => CompSaConfig::for_dictionary_compression(),
                2 => CompSaConfig::for_realtime(),
                3 => CompSaConfig::for_large_text(),
                4 => return Some(SuffixArrayCompressor::default()),
                _ => CompSaConfig::default(),
            };
            SuffixArrayCompressor::new(cfg).ok()
        });
        let Some(comp) = comp else {
            return Outcome::skip("SuffixArrayCompressor::new returned Err");
        };
        let built = if preset == 4 { Algorithm::execute(comp, &CompSaConfig::default(), t.clone()) } else { comp.build_suffix_array(&t) };
        let esa = match built {
            Ok(e) => e,
            Err(e) => return sa_fail("SAIS", &t, "build_err", format!("build_suffix_array returned Err({e}) for text {}", brief(&t))),
        };
        // presets 3, 4: the same compressor builds a second, shorter array while the first one is alive; the first one is
        // judged afterwards
        let _second = if preset >= 3 && n >= 2 {
            let mut h = t[..(n - 1) / 2].to_vec();
            h.push(0);
            match comp.build_suffix_array(&h) {
                Ok(e2) => {
                    let sa2: Vec<usize> = (0..e2.len()).map(|r| e2.suffix_at_rank(r).unwrap_or(usize::MAX)).collect();
                    if let Some((sym, detail)) = judge_sa(&h, &sa2) {
                        return sa_fail("SAIS", &h, sym, format!("(second build of one compressor) {detail}"));
                    }
                    Some(e2)
                }
                Err(e) => return sa_fail("SAIS", &h, "build_err", format!("second build_suffix_array of one compressor returned Err({e}) for text {}", brief(&h))),
            }
        } else {
            None
        };
        let sa: Vec<usize> = (0..esa.len()).map(|r| esa.suffix_at_rank(r).unwrap_or(usize::MAX)).collect();
        if let Some((sym, detail)) = judge_sa(&t, &sa) {
            // the array comes from the base SA-IS builder: same array = inherited defect, different array = the wrapper's own
            let base = SuffixArrayBuilder::new(sa_config(Alg::SAIS, 0)).build(&t).map(|b| b.as_slice().to_vec()).unwrap_or_default();
            if base != sa {
                return enumr::fail("suffix_array", format!("differs_from_base_builder/{}", text_class(&t)), format!("{sym}: {detail}; the base builder returned {}", show_sa(&base)));
            }
            return sa_fail("SAIS", &t, sym, detail);
        }
        if esa.text_len() != n || esa.is_empty() != (n == 0) || esa.suffix_at_rank(n).is_some() {
            return enumr::fail("suffix_array", "accessors", format!("text_len {} is_empty {} suffix_at_rank(n) {:?} for n = {n}", esa.text_len(), esa.is_empty(), esa.suffix_at_rank(n)));
        }
        if preset == 1 {
            let lcp: Vec<usize> = (0..n).map(|r| esa.lcp_at(r).unwrap_or(usize::MAX)).collect();
            if let Some((class, detail)) = judge_lcp(&t, &sa, &lcp) {
                return enumr::fail("lcp", class, detail);
            }
        } else if esa.lcp_at(0).is_some() {
            return enumr::fail("lcp", "unexpected_lcp", "LCP array present although compute_lcp is false".to_string());
        }
        for p in patterns(&t, &alpha, foreign) {
            if p.is_empty() {
                continue; // documented by the code: the empty pattern has no occurrences here
            }
            let occ = naive_occurrences(&t, &p);
            let pc = pattern_class(&t, &p, occ.len());
            let got = esa.find_pattern(&t, &p);
            if got != occ {
                return enumr::fail("search", format!("find_pattern/{pc}"), format!("text {} pattern {}: find_pattern = {:?}, occurrences are {:?}", brief(&t), brief(&p), &got[..got.len().min(8)], &occ[..occ.len().min(8)]));
            }
            let cnt = esa.count_pattern(&t, &p);
            let (lo, hi) = esa.find_pattern_range(&t, &p);
            if cnt != occ.len() || hi < lo || hi - lo != occ.len() {
                return enumr::fail("search", format!("count/{pc}"), format!("text {} pattern {}: count_pattern = {cnt}, find_pattern_range = ({lo},{hi}), occurrences {}", brief(&t), brief(&p), occ.len()));
            }
        }
        done(format!("compressor/preset{preset}"), &t)
    })
}

fn run_dictionary(text: &Text, alg: Alg) -> Outcome {
    let t = text.bytes();
    let n = t.len();
    let sa_cfg = sa_config(alg, 0);
    let ralg = resolved(&sa_cfg, &t);
    let cfg = SuffixArrayDictionaryConfig {
        min_frequency: 1,
        min_pattern_length: 1,
        max_pattern_length: usize::MAX / 2,
        use_memory_pool: false,
        suffix_array_config: sa_cfg,
        ..SuffixArrayDictionaryConfig::default()
    };
    let mut dict = match SuffixArrayDictionary::new(&t, cfg) {
        Ok(d) => d,
        // a dictionary constructor may refuse its training data (that is C02's business): precondition not met
        Err(e) => return Outcome::skip(&format!("dictionary refused: {}", zverif::core::truncate(&e.to_string(), 50))),
    };
    // the matcher's suffix array, observed through find_all_matches on every single byte in byte order
    let mut bytes = t.clone();
    bytes.sort();
    bytes.dedup();
    let mut sa: Vec<usize> = Vec::with_capacity(n);
    for &b in &bytes {
        match dict.find_all_matches(&[b], usize::MAX) {
            Ok(ms) => sa.extend(ms.iter().map(|m| m.dict_position)),
            Err(e) => return enumr::fail("search", "dict_find_all_err", format!("find_all_matches([{b:#x}]) returned Err({e})")),
        }
    }
    if let Some((sym, detail)) = judge_sa(&t, &sa) {
        return sa_fail(&ralg, &t, sym, format!("(array observed through find_all_matches on single bytes) {detail}"));
    }
    let (alpha, foreign) = text.alphabet(&t);
    for p in patterns(&t, &alpha, foreign) {
        if p.is_empty() {
            continue;
        }
        let occ = naive_occurrences(&t, &p);
        let pc = pattern_class(&t, &p, occ.len());
        match dict.find_all_matches(&p, usize::MAX) {
            Err(e) => return enumr::fail("search", "dict_find_all_err", format!("find_all_matches returned Err({e})")),
            Ok(ms) => {
                let mut got: Vec<usize> = ms.iter().map(|m| m.dict_position).collect();
                got.sort();
                if got != occ || ms.iter().any(|m| m.length != p.len()) {
                    return enumr::fail("search", format!("dict_find_all/{pc}"), format!("text {} pattern {}: find_all_matches positions {:?}, occurrences are {:?}", brief(&t), brief(&p), &got[..got.len().min(8)], &occ[..occ.len().min(8)]));
                }
            }
        }
        // longest prefix of p that occurs in the text, and how often it occurs
        // ("p[..k] occurs" is monotone in k: binary search instead of the former linear scan, same value)
        let depth = longest_prefix_depth(&t, &p, usize::MAX);
        let focc = naive_occurrences(&t, &p[..depth]);
        for (which, st) in [("dict_sa_match", dict.sa_match_continuation(0, n, 0, &p)), ("dict_da_match", dict.da_match_max_length(&p))] {
            if st.depth != depth || st.match_count() != focc.len() || st.hi > n {
                return enumr::fail(
                    "search",
                    format!("{which}/{pc}"),
                    format!("text {} input {}: range [{},{}) depth {}; the longest matching prefix has length {depth} and {} occurrences", brief(&t), brief(&p), st.lo, st.hi, st.depth, focc.len()),
                );
            }
            let mut got: Vec<usize> = sa[st.lo..st.hi].to_vec();
            got.sort();
            if got != focc {
                return enumr::fail("search", format!("{which}_positions/{pc}"), format!("text {} input {}: ranks [{},{}) hold {:?}, occurrences of the prefix are {:?}", brief(&t), brief(&p), st.lo, st.hi, &got[..got.len().min(8)], &focc[..focc.len().min(8)]));
            }
        }
        match dict.find_longest_match(&p, 0, usize::MAX) {
            Err(e) => return enumr::fail("search", "dict_longest_err", format!("find_longest_match returned Err({e})")),
            Ok(m) => {
                let ok = match &m {
                    None => depth == 0,
                    Some(m) => depth > 0 && m.length == depth && focc.contains(&m.dict_position),
                };
                if !ok {
                    return enumr::fail("search", format!("dict_longest/{pc}"), format!("text {} input {}: find_longest_match = {:?}; longest matching prefix has length {depth} at {:?}", brief(&t), brief(&p), m.map(|m| (m.dict_position, m.length)), &focc[..focc.len().min(8)]));
                }
            }
        }
        // ---- coverage audit: the same queries through their other parameters
        // (a) the longest match of p when p starts at position 1 of the input
        {
            let mut input = vec![foreign];
            input.extend_from_slice(&p);
            match dict.find_longest_match(&input, 1, usize::MAX) {
                Err(e) => return enumr::fail("search", "dict_longest_err", format!("find_longest_match(position 1) returned Err({e})")),
                Ok(m) => {
                    let ok = match &m {
                        None => depth == 0,
                        Some(m) => depth > 0 && m.length == depth && m.input_position == 1 && focc.contains(&m.dict_position),
                    };
                    if !ok {
                        return enumr::fail("search", format!("dict_longest_at_position/{pc}"), format!("text {} input {} position 1: find_longest_match = {:?}; longest matching prefix has length {depth} at {:?}", brief(&t), brief(&input), m.map(|m| (m.dict_position, m.length, m.input_position)), &focc[..focc.len().min(8)]));
                    }
                }
            }
        }
        // (b) a bounded number of matches: that many distinct real occurrences
        match dict.find_all_matches(&p, 1) {
            Err(e) => return enumr::fail("search", "dict_find_all_err", format!("find_all_matches(.., 1) returned Err({e})")),
            Ok(ms) => {
                if ms.len() != occ.len().min(1) || ms.iter().any(|m| !occ.contains(&m.dict_position)) {
                    return enumr::fail("search", format!("dict_find_all_limited/{pc}"), format!("text {} pattern {} max_matches 1: {:?}, occurrences are {:?}", brief(&t), brief(&p), ms.iter().map(|m| m.dict_position).collect::<Vec<_>>(), &occ[..occ.len().min(8)]));
                }
            }
        }
        // (c) a match continued from the state reached after the first byte / after the whole matching prefix
        let full = dict.sa_match_continuation(0, n, 0, &p);
        for cut in [1usize, depth] {
            if cut == 0 || cut > depth {
                continue;
            }
            let st = dict.sa_match_continuation(0, n, 0, &p[..cut]);
            let cont = dict.sa_match_continuation(st.lo, st.hi, st.depth, &p);
            if st.depth != cut || cont != full {
                return enumr::fail("search", format!("dict_sa_match_continued/{pc}"), format!("text {} input {}: from scratch [{},{}) depth {}; after {cut} bytes [{},{}) depth {}, continued [{},{}) depth {}", brief(&t), brief(&p), full.lo, full.hi, full.depth, st.lo, st.hi, st.depth, cont.lo, cont.hi, cont.depth));
            }
        }
        // (d) sa_equal_range on the range of the matching prefix: the ranks whose suffix continues with byte ch
        if p.len() <= 3 || depth == p.len() {
            let mut probes: Vec<u8> = alpha.iter().copied().take(3).collect();
            probes.extend(alpha.last().copied());
            probes.push(foreign);
            probes.extend(p.get(depth).copied());
            probes.sort();
            probes.dedup();
            for ch in probes {
                let mut q = p[..depth].to_vec();
                q.push(ch);
                let qocc = naive_occurrences(&t, &q);
                let (lo, hi) = dict.sa_equal_range(full.lo, full.hi, depth, ch);
                let mut got: Vec<usize> = if lo < hi && hi <= n { sa[lo..hi].to_vec() } else { Vec::new() };
                got.sort();
                if hi > n || got != qocc {
                    return enumr::fail("search", format!("dict_sa_equal_range/{}", pattern_class(&t, &q, qocc.len())), format!("text {} prefix {} byte {ch:#04x}: sa_equal_range([{},{}), {depth}) = [{lo},{hi}) holding {:?}; occurrences of the extended prefix are {:?}", brief(&t), brief(&p[..depth]), full.lo, full.hi, &got[..got.len().min(8)], &qocc[..qocc.len().min(8)]));
                }
            }
        }
    }
    // degenerate inputs: the empty input and positions at / past the end of the input have no match
    for (input, position) in [(&b""[..], 0usize), (&t[..], n), (&t[..], n + 1)] {
        match dict.find_longest_match(input, position, usize::MAX) {
            Ok(None) => {}
            other => return enumr::fail("search", "dict_longest_degenerate", format!("find_longest_match(input of {} bytes, position {position}) = {:?}, expected no match", input.len(), other.map(|m| m.map(|m| (m.dict_position, m.length))))),
        }
    }
    let st = dict.da_match_max_length(b"");
    if st.depth != 0 || st.match_count() != 0 {
        return enumr::fail("search", "dict_longest_degenerate", format!("da_match_max_length(empty input) = [{},{}) depth {}", st.lo, st.hi, st.depth));
    }
    if dict.dictionary_text() != &t[..] || dict.dictionary_size() != n {
        return enumr::fail("search", "dict_text", format!("dictionary_text()/dictionary_size() do not agree with the {n} training bytes"));
    }
    done(format!("dictionary/{ralg}"), &t)
}


// ------------------------------------------------------------------------------------------------
// coverage audit: further entry points

/// Harness-side description of the work SA-IS has for a text -- an evidence label only, never part of an oracle:
/// how many levels recurse (a level recurses when two LMS substrings are equal) and the largest number of distinct
/// LMS-substring names (= alphabet size of the next level) among the levels that recurse.
fn lms_profile(t: &[u8]) -> String {
    let mut cur: Vec<usize> = t.iter().map(|&b| b as usize).collect();
    let (mut depth, mut max_names) = (0usize, 0usize);
    loop {
        let n = cur.len();
        if n < 2 {
            break;
        }
        let mut is_s = vec![false; n];
        for i in (0..n - 1).rev() {
            is_s[i] = cur[i] < cur[i + 1] || (cur[i] == cur[i + 1] && is_s[i + 1]);
        }
        let lms: Vec<usize> = (1..n).filter(|&i| is_s[i] && !is_s[i - 1]).collect();
        if lms.is_empty() {
            break;
        }
        let last = lms.len() - 1;
        // substring k runs to the next LMS position inclusive; the last one ends with the (virtual, smallest) sentinel
        let key = |k: usize| (if k < last { &cur[lms[k]..=lms[k + 1]] } else { &cur[lms[k]..] }, k != last);
        let mut idx: Vec<usize> = (0..lms.len()).collect();
        idx.sort_by(|&a, &b| key(a).cmp(&key(b)));
        let mut name = vec![0usize; lms.len()];
        let mut names = 0usize;
        for w in 0..idx.len() {
            if w > 0 && key(idx[w - 1]) != key(idx[w]) {
                names += 1;
            }
            name[idx[w]] = names;
        }
        names += 1;
        if names == lms.len() {
            break;
        }
        depth += 1;
        max_names = max_names.max(names);
        cur = name;
    }
    let d = if depth >= 3 { "3+".to_string() } else { depth.to_string() };
    let a = if depth == 0 {
        "-"
    } else if max_names <= 256 {
        "<=256"
    } else if max_names <= 65536 {
        "257..65536"
    } else {
        ">65536"
    };
    format!("/sais-levels:{d},names:{a}")
}

/// length of the longest prefix of `p` (at most `cap` bytes) that occurs in `t`; "occurs" is monotone in the prefix length
fn longest_prefix_depth(t: &[u8], p: &[u8], cap: usize) -> usize {
    let (mut lo, mut hi) = (0usize, p.len().min(cap).min(t.len()));
    while lo < hi {
        let mid = lo + (hi - lo + 1) / 2;
        if (0..=t.len() - mid).any(|i| t[i..].starts_with(&p[..mid])) {
            lo = mid;
        } else {
            hi = mid - 1;
        }
    }
    lo
}

fn run_ctor(text: &Text, alg: Alg, which: u8) -> Outcome {
    let t = text.bytes();
    let cfg = if which == 0 { SuffixArrayConfig::default() } else { sa_config(alg, 0) };
    let ralg = resolved(&cfg, &t);
    let built = match which {
        0 => SuffixArray::new(&t),
        1 => SuffixArray::with_config(&t, &cfg),
        _ => {
            // `execute` documents "with the given configuration": the builder's own configuration is a different one
            let other = if alg == Alg::DC3 { Alg::SAIS } else { Alg::DC3 };
            let b = SuffixArrayBuilder::new(sa_config(other, 0));
            Algorithm::execute(&b, &cfg, t.clone())
        }
    };
    let sa = match built {
        Ok(sa) => sa,
        Err(e) => return sa_fail(&ralg, &t, "build_err", format!("constructor {which} returned Err({e}) for text {}", brief(&t))),
    };
    if let Some((sym, detail)) = judge_sa(&t, sa.as_slice()) {
        return sa_fail(&ralg, &t, sym, detail);
    }
    if sa.text_len() != t.len() {
        return enumr::fail("suffix_array", "text_len", format!("text_len() = {} for a text of {} bytes", sa.text_len(), t.len()));
    }
    if let Some(f) = judge_search(text, &t, &sa) {
        return f;
    }
    done(format!("ctor{which}/{ralg}"), &t)
}

fn run_builder_reuse(text: &Text, alg: Alg) -> Outcome {
    let t = text.bytes();
    let n = t.len();
    let cfg = sa_config(alg, 0);
    let builder = SuffixArrayBuilder::new(cfg.clone());
    let first = shaped_text(TShape::ThueMorse, 67);
    let mut doubled = t.clone();
    doubled.extend_from_slice(&t);
    let seq: [(&str, &[u8]); 5] = [("first", &first), ("text", &t), ("half", &t[..n / 2]), ("doubled", &doubled), ("again", &t)];
    let mut kept: Option<SuffixArray> = None;
    for (step, (what, x)) in seq.iter().enumerate() {
        let ralg = resolved(&cfg, x);
        let sa = match builder.build(x) {
            Ok(sa) => sa,
            Err(e) => return sa_fail(&ralg, x, "build_err", format!("build #{step} ({what}) of a reused builder returned Err({e}) for text {}", brief(x))),
        };
        if let Some((sym, detail)) = judge_sa(x, sa.as_slice()) {
            return sa_fail(&ralg, x, sym, format!("(build #{step}, {what}, of a reused builder) {detail}"));
        }
        if step == 0 {
            kept = Some(sa);
        }
    }
    // the first array is still the first text's array
    if let Some(sa) = kept {
        if let Some((sym, detail)) = judge_sa(&first, sa.as_slice()) {
            return sa_fail(&resolved(&cfg, &first), &first, sym, format!("(first array re-read after four more builds) {detail}"));
        }
        for p in [&first[5..9], &first[60..], &b"abz"[..]] {
            let occ = naive_occurrences(&first, p);
            let (start, count) = sa.search(&first, p);
            let mut got: Vec<usize> = sa.as_slice().get(start..start + count).map(|s| s.to_vec()).unwrap_or_default();
            got.sort();
            if got != occ {
                return enumr::fail("search", "positions/reused_builder", format!("first text, pattern {}: ranks {start}..{} hold {:?}, occurrences are {:?}", brief(p), start + count, got, occ));
            }
        }
    }
    done(format!("builder-reuse/{}", resolved(&cfg, &t)), &t)
}

fn run_matcher(text: &Text, cfg: u8) -> Outcome {
    let t = text.bytes();
    let n = t.len();
    // a comparison-sorted array: the matcher's stated input is a suffix array of the text
    let sa = match SuffixArray::with_config(&t, &sa_config(Alg::DivSufSort, 0)) {
        Ok(sa) => sa,
        Err(e) => return sa_fail("DivSufSort", &t, "build_err", format!("with_config returned Err({e}) for text {}", brief(&t))),
    };
    if let Some((sym, detail)) = judge_sa(&t, sa.as_slice()) {
        return sa_fail("DivSufSort", &t, sym, detail);
    }
    let sa = Arc::new(sa);
    let txt = Arc::new(t.clone());
    // (min length, max length, comparison budget per longest-match query)
    let (min, max, budget) = match cfg {
        0 => (1usize, usize::MAX, usize::MAX),
        1 => (2, 8, 100),
        _ => (4, 256, 100),
    };
    let mut m = match cfg {
        0 => PatternMatcher::with_config(
            Arc::clone(&sa),
            Arc::clone(&txt),
            MatcherConfig { min_match_length: 1, max_match_length: usize::MAX, max_sa_comparisons: usize::MAX, ..MatcherConfig::default() },
        ),
        1 => PatternMatcher::new(Arc::clone(&sa), Arc::clone(&txt), 2, 8),
        _ => PatternMatcherBuilder::new().build(Arc::clone(&sa), Arc::clone(&txt)),
    };
    let (alpha, foreign) = text.alphabet(&t);
    for p in patterns(&t, &alpha, foreign) {
        if p.is_empty() {
            continue;
        }
        let occ = naive_occurrences(&t, &p);
        let pc = pattern_class(&t, &p, occ.len());
        let in_limits = p.len() >= min && p.len() <= max;
        for k in [usize::MAX, 1, 2] {
            if k == 2 && p.len() > 4 {
                continue;
            }
            let ms = match m.find_all_matches(&p, k) {
                Ok(ms) => ms,
                Err(e) => return enumr::fail("search", "matcher_find_all_err", format!("find_all_matches returned Err({e})")),
            };
            if !in_limits {
                // outside the configured pattern lengths the matcher documents an empty answer
                if !ms.is_empty() {
                    return enumr::fail("search", format!("matcher_find_all_outside_limits/{pc}"), format!("text {} pattern {} (length limits {min}..={max}): {} matches", brief(&t), brief(&p), ms.len()));
                }
                continue;
            }
            let mut got: Vec<usize> = ms.iter().map(|x| x.dict_position).collect();
            got.sort();
            let distinct = got.windows(2).all(|w| w[0] != w[1]);
            let all_real = got.iter().all(|g| occ.contains(g));
            let complete = if k >= occ.len() { got == occ } else { got.len() == k };
            if !distinct || !all_real || !complete || ms.iter().any(|x| x.length != p.len()) {
                return enumr::fail(
                    "search",
                    format!("matcher_find_all{}/{pc}", if k == usize::MAX { "" } else { "_limited" }),
                    format!("text {} pattern {} max_matches {k}: positions {:?}, occurrences are {:?}", brief(&t), brief(&p), &got[..got.len().min(8)], &occ[..occ.len().min(8)]),
                );
            }
        }
        // longest match of p (optionally behind one foreign byte, optionally with a length bound)
        for (pos, max_length) in [(0usize, usize::MAX), (1, usize::MAX), (0, p.len() - 1), (0, 2)] {
            if p.len() > 16 && (pos, max_length) != (0, usize::MAX) && (pos, max_length) != (0, p.len() - 1) {
                continue;
            }
            let mut input = Vec::with_capacity(p.len() + 1);
            if pos == 1 {
                input.push(foreign);
            }
            input.extend_from_slice(&p);
            let span = max_length.min(p.len()).min(max); // the lengths the query may consider: min..=span
            let depth = longest_prefix_depth(&t, &p, span);
            let expect_len = if span < min || depth < min { None } else { Some(depth) };
            // the query tries lengths span, span-1, .. and gives up after `budget` of them: documented, not judged
            if expect_len.is_some() && span - depth >= budget {
                continue;
            }
            let got = match m.find_longest_match_suffix_array(&input, pos, max_length) {
                Ok(g) => g,
                Err(e) => return enumr::fail("search", "matcher_longest_err", format!("find_longest_match_suffix_array returned Err({e})")),
            };
            let ok = match (&got, expect_len) {
                (None, None) => true,
                (Some(g), Some(l)) => g.length == l && g.input_position == pos && g.dict_position + l <= n && t[g.dict_position..g.dict_position + l] == p[..l],
                _ => false,
            };
            if !ok {
                return enumr::fail(
                    "search",
                    format!("matcher_longest/{pc}"),
                    format!("text {} input {} position {pos} max_length {max_length} (limits {min}..={max}): got {:?}; the longest prefix that occurs within the limits has length {depth}", brief(&t), brief(&input), got.map(|g| (g.dict_position, g.length, g.input_position))),
                );
            }
        }
    }
    done(format!("matcher/cfg{cfg}"), &t)
}

/// The matcher's DFA cache (`DfaCache::build_from_suffix_array` with min_frequency 1, BFS depth 6) answers prefix queries with
/// a dictionary position and a frequency: the position must be an occurrence of the reported prefix of the input, the
/// frequency the number of its occurrences (= the size of its rank range).  Soundness only: which prefixes are cached is the
/// cache's own business.
fn run_dfa_cache(text: &Text) -> Outcome {
    let t = text.bytes();
    let n = t.len();
    let sa = match SuffixArray::with_config(&t, &sa_config(Alg::DivSufSort, 0)) {
        Ok(sa) => sa,
        Err(e) => return sa_fail("DivSufSort", &t, "build_err", format!("with_config returned Err({e}) for text {}", brief(&t))),
    };
    if let Some((sym, detail)) = judge_sa(&t, sa.as_slice()) {
        return sa_fail("DivSufSort", &t, sym, detail);
    }
    let mut cache = match DfaCache::build_from_suffix_array(&sa, &t, &DfaCacheConfig::default(), 1, 6) {
        Ok(c) => c,
        Err(e) => return Outcome::skip(&format!("cache refused: {}", zverif::core::truncate(&e.to_string(), 50))),
    };
    let (alpha, foreign) = text.alphabet(&t);
    let (mut answers, mut wrong_freq) = (0usize, None);
    for p in patterns(&t, &alpha, foreign) {
        for max_length in [usize::MAX, 3] {
            match cache.find_longest_prefix(&p, max_length) {
                Err(e) => return enumr::fail("search", "dfa_cache_err", format!("find_longest_prefix returned Err({e})")),
                Ok(None) => {}
                Ok(Some(cm)) => {
                    answers += 1;
                    let l = cm.length;
                    let real = l >= 1 && l <= p.len().min(max_length) && cm.dict_position + l <= n && t[cm.dict_position..cm.dict_position + l] == p[..l];
                    if !real {
                        return enumr::fail("search", "dfa_cache_position", format!("text {} input {} max_length {max_length}: cached prefix of length {l} at dictionary position {}, which is not an occurrence of that prefix", brief(&t), brief(&p), cm.dict_position));
                    }
                    let freq = naive_occurrences(&t, &p[..l]).len();
                    if cm.frequency as usize != freq && wrong_freq.is_none() {
                        wrong_freq = Some(format!("text {} input {} max_length {max_length}: cached prefix {} at {} reported with frequency {}; it occurs {freq} times", brief(&t), brief(&p), brief(&p[..l]), cm.dict_position, cm.frequency));
                    }
                }
            }
        }
    }
    // a wrong position is reported first (above); a wrong frequency once per text
    if let Some(detail) = wrong_freq {
        return enumr::fail("search", "dfa_cache_frequency", detail);
    }
    done(format!("dfa-cache/{}", if answers > 0 { "answers" } else { "no_cached_prefix" }), &t)
}

fn run_dictionary_default(text: &Text, alg: Alg) -> Outcome {
    let t = text.bytes();
    let n = t.len();
    let sa_cfg = sa_config(alg, 0);
    let ralg = resolved(&sa_cfg, &t);
    let cfg = SuffixArrayDictionaryConfig { suffix_array_config: sa_cfg, ..SuffixArrayDictionaryConfig::default() };
    let (min, max) = (cfg.min_pattern_length, cfg.max_pattern_length);
    let dict = match SuffixArrayDictionary::new(&t, cfg.clone()) {
        Ok(d) => d,
        Err(e) => return Outcome::skip(&format!("dictionary refused: {}", zverif::core::truncate(&e.to_string(), 50))),
    };
    let conc = match ConcurrentSuffixArrayDictionary::new(&t, cfg) {
        Ok(d) => d,
        Err(e) => return Outcome::skip(&format!("dictionary refused: {}", zverif::core::truncate(&e.to_string(), 50))),
    };
    if dict.dictionary_text() != &t[..] || dict.dictionary_size() != n || dict.data() != &t[..] {
        return enumr::fail("search", "dict_text", format!("dictionary_text()/data()/dictionary_size() do not give back the {n} training bytes"));
    }
    let (alpha, foreign) = text.alphabet(&t);
    for p in patterns(&t, &alpha, foreign) {
        if p.is_empty() {
            continue;
        }
        let occ = naive_occurrences(&t, &p);
        let pc = pattern_class(&t, &p, occ.len());
        let ms = match dict.find_all_matches(&p, usize::MAX) {
            Ok(ms) => ms,
            Err(e) => return enumr::fail("search", "dict_find_all_err", format!("find_all_matches returned Err({e})")),
        };
        let mut got: Vec<usize> = ms.iter().map(|m| m.dict_position).collect();
        got.sort();
        // outside min..=max pattern length the dictionary documents an empty answer; inside, all and only the occurrences
        let want: &[usize] = if p.len() >= min && p.len() <= max { &occ } else { &[] };
        if got != want {
            return enumr::fail("search", format!("dict_default_find_all/{pc}"), format!("text {} pattern {} (length limits {min}..={max}): positions {:?}, expected {:?} [{ralg}]", brief(&t), brief(&p), &got[..got.len().min(8)], &want[..want.len().min(8)]));
        }
        // longest match: None below the minimum length, otherwise the longest prefix of p that occurs
        let depth = longest_prefix_depth(&t, &p, usize::MAX);
        let lm = match conc.find_longest_match(&p, 0, usize::MAX) {
            Ok(m) => m,
            Err(e) => return enumr::fail("search", "dict_longest_err", format!("find_longest_match returned Err({e})")),
        };
        let ok = match &lm {
            None => depth < min,
            // (a prefix longer than max_pattern_length: the query does not apply the upper limit; any real occurrence passes)
            Some(m) => depth >= min && (m.length == depth || (depth > max && m.length >= max && m.length <= depth)) && m.dict_position + m.length <= n && t[m.dict_position..m.dict_position + m.length] == p[..m.length],
        };
        if !ok {
            return enumr::fail("search", format!("dict_default_longest/{pc}"), format!("text {} input {}: find_longest_match = {:?}; the longest prefix that occurs has length {depth} (minimum pattern length {min}) [{ralg}]", brief(&t), brief(&p), lm.map(|m| (m.dict_position, m.length))));
        }
    }
    done(format!("dictionary-default/{ralg}"), &t)
}

fn run_dictionary_sampled(text: &Text, preset: u8) -> Outcome {
    use zipora::compression::dict_zip::QuickConfig;
    let t = text.bytes();
    let cfg = match preset {
        0 => QuickConfig::text_compression(),
        1 => QuickConfig::binary_compression(),
        2 => QuickConfig::log_compression(),
        3 => QuickConfig::realtime_compression(),
        _ => SuffixArrayDictionaryConfig { sample_ratio: 0.5, ..SuffixArrayDictionaryConfig::default() },
    };
    let (min, max) = (cfg.min_pattern_length, cfg.max_pattern_length);
    let dict = match SuffixArrayDictionary::new(&t, cfg) {
        Ok(d) => d,
        Err(e) => return Outcome::skip(&format!("dictionary refused: {}", zverif::core::truncate(&e.to_string(), 50))),
    };
    let d: Vec<u8> = dict.data().to_vec();
    let n = d.len();
    if dict.dictionary_text() != &d[..] || dict.dictionary_size() != n || n > t.len() {
        return enumr::fail("search", "dict_text", format!("dictionary_text()/data()/dictionary_size() disagree ({} / {} / {} bytes, training text {} bytes)", dict.dictionary_text().len(), n, dict.dictionary_size(), t.len()));
    }
    let sampled = n < t.len();
    // probes: pieces of the dictionary text, pieces of the training text (which may have been sampled away), absent strings
    let mut probes: Vec<Vec<u8>> = Vec::new();
    for base in [&d, &t] {
        for at in [0usize, 1, base.len() / 3, base.len() / 2 + 7, base.len().saturating_sub(40)] {
            for len in [min, min + 1, 12, 33, max.min(70)] {
                if at + len <= base.len() {
                    probes.push(base[at..at + len].to_vec());
                }
            }
        }
    }
    probes.push(vec![0xF7; min + 2]);
    let mut absent_tail = d[..n.min(min + 3)].to_vec();
    absent_tail.push(0xF7);
    probes.push(absent_tail);
    for p in probes {
        let occ = naive_occurrences(&d, &p);
        let pc = pattern_class(&d, &p, occ.len());
        let ms = match dict.find_all_matches(&p, usize::MAX) {
            Ok(ms) => ms,
            Err(e) => return enumr::fail("search", "dict_find_all_err", format!("find_all_matches returned Err({e})")),
        };
        let mut got: Vec<usize> = ms.iter().map(|m| m.dict_position).collect();
        got.sort();
        let want: &[usize] = if p.len() >= min && p.len() <= max { &occ } else { &[] };
        if got != want {
            return enumr::fail("search", format!("dict_sampled_find_all/{pc}"), format!("dictionary text of {n} bytes (training {} bytes) pattern {} (length limits {min}..={max}): positions {:?}, expected {:?}", t.len(), brief(&p), &got[..got.len().min(8)], &want[..want.len().min(8)]));
        }
        let depth = longest_prefix_depth(&d, &p, usize::MAX);
        let st = dict.da_match_max_length(&p);
        if st.depth != depth.min(p.len()) && !(st.depth <= depth && st.depth >= max) {
            return enumr::fail("search", format!("dict_sampled_match_depth/{pc}"), format!("dictionary text of {n} bytes (training {} bytes) input {}: da_match_max_length depth {}, the longest prefix that occurs in data() has length {depth}", t.len(), brief(&p), st.depth));
        }
    }
    done(format!("dictionary-sampled/preset{preset}/{}", if sampled { "sampled" } else { "whole_text_kept" }), &d)
}

fn run_case(c: &SaCase) -> Outcome {
    match c.entry {
        Entry::DictionarySampled { preset } => run_dictionary_sampled(&c.text, preset),
        Entry::Builder { alg, variant } => run_builder(&c.text, alg, variant),
        Entry::EnhancedLcp => run_enhanced(&c.text, false),
        Entry::EnhancedBwt => run_enhanced(&c.text, true),
        Entry::Compressor { preset } => run_compressor(&c.text, preset),
        Entry::Dictionary { sa } => run_dictionary(&c.text, sa),
        Entry::Ctor { alg, which } => run_ctor(&c.text, alg, which),
        Entry::BuilderReuse { alg } => run_builder_reuse(&c.text, alg),
        Entry::Matcher { cfg: 3 } => run_dfa_cache(&c.text),
        Entry::Matcher { cfg } => run_matcher(&c.text, cfg),
        Entry::DictionaryDefault { sa } => run_dictionary_default(&c.text, sa),
    }
}

// ------------------------------------------------------------------------------------------------
// case generators

fn cheap_long(shape: TShape) -> bool {
    // the naive pattern scan is quadratic on texts whose suffixes share very long prefixes at most positions
    !matches!(shape, TShape::AbRep | TShape::AnB | TShape::BAn | TShape::AllA)
}

/// lengths around the default adaptive threshold (10_000), where the default configuration starts to analyse the
/// text; quick: 10_001 for the shapes with short common prefixes (+ 10_000 for one shape); thorough: 9_999, 10_000, 10_001 for all
fn beyond_threshold(tier: Tier, entry: Entry, f: &mut dyn FnMut(SaCase) -> bool) -> bool {
    for &shape in ALL_TSHAPES {
        if (tier == Tier::Thorough || cheap_long(shape)) && !f(SaCase { text: Text::Grid { shape, n: 10_001 }, entry }) {
            return false;
        }
    }
    for n in [9_999u32, 10_000] {
        for &shape in ALL_TSHAPES {
            let wanted = match tier {
                Tier::Thorough => true,
                _ => n == 10_000 && shape == TShape::Noise16,
            };
            if wanted && !f(SaCase { text: Text::Grid { shape, n }, entry }) {
                return false;
            }
        }
    }
    true
}

/// (coverage audit) long texts for the thresholds the grid does not reach: Adaptive's 50_000 (DivSufSort above it), the default
/// parallel threshold 100_000, more than 65_536 distinct LMS names at a recursing SA-IS level
fn long_texts(tier: Tier, alg: Alg, f: &mut dyn FnMut(SaCase) -> bool) -> bool {
    let mut cases: Vec<(TShape, u32, u8)> = Vec::new();
    match alg {
        Alg::Adaptive => {
            cases.extend([(TShape::Noise256, 50_000, 0), (TShape::Noise256, 50_001, 0)]);
            if tier == Tier::Thorough {
                cases.extend([(TShape::Noise16, 50_001, 0), (TShape::Runs8, 50_001, 0), (TShape::LowEnt5, 50_001, 0), (TShape::LowEnt5, 100_000, 0), (TShape::Noise5, 50_001, 0)]);
            }
        }
        Alg::SAIS => {
            cases.push((TShape::Noise16, 20_000, 0));
            if tier == Tier::Thorough {
                cases.extend([(TShape::Noise16, 65_537, 0), (TShape::Noise256, 262_145, 0), (TShape::Noise256, 262_145, 1), (TShape::Noise5, 100_001, 2)]);
            }
        }
        _ => {}
    }
    for (shape, n, variant) in cases {
        if !f(SaCase { text: Text::Grid { shape, n }, entry: Entry::Builder { alg, variant } }) {
            return false;
        }
    }
    true
}

fn builder_gen(alg: Alg) -> impl Fn(Tier, &mut dyn FnMut(SaCase) -> bool) -> bool {
    move |tier, f| {
        let variants: &[u8] = match alg {
            Alg::SAIS => &[0, 1, 2],
            Alg::Adaptive => &[0, 3, 4],
            _ => &[0, 2],
        };
        for &variant in variants {
            let entry = Entry::Builder { alg, variant };
            if !texts(tier, 0, 0, grid_max(tier), &mut |text| f(SaCase { text, entry })) {
                return false;
            }
            if alg == Alg::Adaptive && variant == 0 && !beyond_threshold(tier, entry, f) {
                return false;
            }
        }
        long_texts(tier, alg, f)
    }
}

fn enhanced_gen(tier: Tier, f: &mut dyn FnMut(SaCase) -> bool) -> bool {
    for entry in [Entry::EnhancedLcp, Entry::EnhancedBwt] {
        if !texts(tier, 0, 0, grid_max(tier), &mut |text| f(SaCase { text, entry })) {
            return false;
        }
        if !beyond_threshold(tier, entry, f) {
            return false;
        }
    }
    true
}

fn compressor_gen(tier: Tier, f: &mut dyn FnMut(SaCase) -> bool) -> bool {
    for preset in [0u8, 1, 2, 3, 4] {
        let entry = Entry::Compressor { preset };
        // texts over the sentinel-free alphabets (ids 5..8, 10); grid texts containing 0x00 are skipped by `run`
        // (presets 3, 4 differ from 0 in thresholds and entry point only: small scope shortened by 3)
        if !texts(tier, 4, if preset >= 3 { 3 } else { 0 }, grid_max(tier), &mut |text| f(SaCase { text, entry })) {
            return false;
        }
    }
    // (coverage audit) array lengths around 2^16 (width of the stored indices), the parallel thresholds 100_000 (default) and
    // 50_000 (for_large_text); text length + 1 sentinel = array length
    if tier == Tier::Thorough {
        for (n, preset) in [(65_534u32, 0u8), (65_535, 0), (65_536, 0), (65_535, 1), (65_536, 1), (65_536, 3), (49_998, 3), (49_999, 3), (99_998, 0), (99_999, 4)] {
            if !f(SaCase { text: Text::Grid { shape: TShape::Noise255From1, n }, entry: Entry::Compressor { preset } }) {
                return false;
            }
        }
    } else if !f(SaCase { text: Text::Grid { shape: TShape::Noise255From1, n: 65_536 }, entry: Entry::Compressor { preset: 1 } }) {
        return false;
    }
    true
}

fn dictionary_gen(tier: Tier, f: &mut dyn FnMut(SaCase) -> bool) -> bool {
    for sa in [Alg::Adaptive, Alg::DivSufSort] {
        let entry = Entry::Dictionary { sa };
        // every case builds a dictionary (DFA cache, matcher): small scope shortened by 2, grid up to 257
        if !texts(tier, 0, 2, 257, &mut |text| f(SaCase { text, entry })) {
            return false;
        }
    }
    true
}

fn ctor_gen(tier: Tier, f: &mut dyn FnMut(SaCase) -> bool) -> bool {
    for (alg, which) in [(Alg::Adaptive, 0u8), (Alg::SAIS, 1), (Alg::LarssonSadakane, 1), (Alg::SAIS, 2), (Alg::DC3, 2)] {
        let entry = Entry::Ctor { alg, which };
        if !texts(tier, 0, tier.pick(3, 2), grid_max(tier), &mut |text| f(SaCase { text, entry })) {
            return false;
        }
    }
    // SuffixArray::new around its thresholds: adaptive 10_000, DivSufSort above 50_000, parallel build from 100_000
    let lens: &[u32] = tier.pick(&[10_000, 50_001][..], &[9_999, 10_000, 10_001, 50_000, 50_001, 99_999, 100_000, 100_001][..]);
    for &n in lens {
        for shape in [TShape::Noise256, TShape::Noise16] {
            if !f(SaCase { text: Text::Grid { shape, n }, entry: Entry::Ctor { alg: Alg::Adaptive, which: 0 } }) {
                return false;
            }
        }
    }
    true
}

fn reuse_gen(tier: Tier, f: &mut dyn FnMut(SaCase) -> bool) -> bool {
    for alg in [Alg::SAIS, Alg::DivSufSort, Alg::DC3, Alg::LarssonSadakane, Alg::Adaptive] {
        let entry = Entry::BuilderReuse { alg };
        if !texts(tier, 0, 3, 257, &mut |text| f(SaCase { text, entry })) {
            return false;
        }
    }
    true
}

fn matcher_gen(tier: Tier, f: &mut dyn FnMut(SaCase) -> bool) -> bool {
    for cfg in [0u8, 1, 2, 3] {
        let entry = Entry::Matcher { cfg };
        if !texts(tier, 0, if cfg == 0 { tier.pick(3, 2) } else { 3 }, if cfg == 0 || cfg == 2 { 257 } else { 65 }, &mut |text| f(SaCase { text, entry })) {
            return false;
        }
    }
    true
}

/// lengths on both sides of the 10_000-byte sampling threshold of SuffixArrayDictionary::new, x every QuickConfig preset
fn dictionary_sampled_gen(tier: Tier, f: &mut dyn FnMut(SaCase) -> bool) -> bool {
    let shapes: &[TShape] = if tier == Tier::Quick { &[TShape::Noise16, TShape::LowEnt5] } else { &[TShape::Noise16, TShape::LowEnt5, TShape::Noise5, TShape::Runs8, TShape::Noise256] };
    for preset in 0..5u8 {
        for &shape in shapes {
            for n in [10_000u32, 10_001, 24_000] {
                if !f(SaCase { text: Text::Grid { shape, n }, entry: Entry::DictionarySampled { preset } }) {
                    return false;
                }
            }
        }
    }
    true
}

fn dictionary_default_gen(tier: Tier, f: &mut dyn FnMut(SaCase) -> bool) -> bool {
    for sa in [Alg::Adaptive, Alg::SAIS] {
        let entry = Entry::DictionaryDefault { sa };
        if !texts(tier, 0, 3, 257, &mut |text| f(SaCase { text, entry })) {
            return false;
        }
    }
    true
}

fn main() {
    zverif::main_with("C12", |reg, _tier| {
        // SA-IS first: findings with subject "SuffixArray/*" are replayed on the matching subjects in registration order, and every
        // subject runs any `SaCase` the same way
        for (alg, name) in [(Alg::SAIS, "SAIS"), (Alg::DivSufSort, "DivSufSort"), (Alg::DC3, "DC3"), (Alg::LarssonSadakane, "LarssonSadakane"), (Alg::Adaptive, "Adaptive")] {
            add(
                reg,
                &format!("SuffixArray/Builder[{name}]"),
                &format!("{TEXT_SPACE} x variant {{defaults; optimize_small_alphabet=false (SAIS); use_parallel with parallel_threshold 0; adaptive_threshold 0 / 8 (Adaptive; + length 10001 (thorough: 9999, 10000, 10001) with the default threshold; + xorshift texts of length 50000, 50001 (thorough: more shapes at 50001 / 100000)); SAIS + xorshift over 16 symbols at 20000 (thorough: 65537; xorshift over 256 symbols at 262145 = more than 65536 distinct LMS names at a recursing level)}}; as_slice/suffix_at_rank/text_len, LcpArray::new over the built array, and search/search_range with {PATTERN_SPACE} (search: variants 0 and 3)"),
                builder_gen(alg),
                run_case,
            );
        }
        add(reg, "SuffixArray/Enhanced{with_lcp,with_bwt}", &format!("{TEXT_SPACE} + length 10001 (beyond the default adaptive threshold); BWT convention: cyclic predecessor, no sentinel"), enhanced_gen, run_case);
        add(reg, "SuffixArray/compression::SuffixArrayCompressor", &format!("texts = (text over {{61}}, {{61,62}}, {{01,61,FF}}, {{01,61,62,FF}} or a grid text without 0x00) + sentinel 0x00; same length bounds as: {TEXT_SPACE}; x preset {{default, for_dictionary_compression (LCP), for_realtime, for_large_text, SuffixArrayCompressor::default() through Algorithm::execute (the last two: small scope 3 shorter, a second array built by the same compressor while the first is alive)}}; + xorshift texts over 255 symbols of length 65536 (thorough: 65534..65536, 49998, 49999, 99998, 99999: index width 2^16, parallel thresholds); suffix_at_rank, lcp_at, find_pattern / count_pattern / find_pattern_range with {PATTERN_SPACE}"), compressor_gen, run_case);
        add(reg, "SuffixArray/dict_zip::SuffixArrayDictionary", &format!("small-scope lengths 2 shorter than: {TEXT_SPACE}; grid lengths <= 257; x suffix_array_config algorithm {{Adaptive (default), DivSufSort}}; the matcher's array observed through find_all_matches on single bytes; find_all_matches (unbounded and max_matches 1), sa_match_continuation (from the root and continued from an inner state), sa_equal_range, da_match_max_length, find_longest_match (position 0 and 1) with {PATTERN_SPACE}"), dictionary_gen, run_case);
        add(reg, "SuffixArray/dict_zip::SuffixArrayDictionary[sampled training text]", "xorshift / low-entropy texts of 10000, 10001 and 24000 bytes (the constructor samples above 10000 bytes) x QuickConfig {text, binary, log, realtime}_compression and default+sample_ratio 0.5: data()/dictionary_text()/dictionary_size() agree; find_all_matches and da_match_max_length for pieces of the dictionary text, pieces of the training text and absent strings are judged against a naive scan of data()", dictionary_sampled_gen, run_case);
        // ---- coverage audit
        add(reg, "SuffixArray/constructors{new,with_config,Algorithm::execute}", &format!("small-scope lengths 3 (quick) / 2 (thorough) shorter than: {TEXT_SPACE}; x {{SuffixArray::new; with_config(SAIS | LarssonSadakane); <SuffixArrayBuilder as Algorithm>::execute(cfg SAIS | DC3) on a builder constructed with another algorithm}}; SuffixArray::new also at lengths 10000, 50001 (thorough: 9999..10001, 50000, 50001, 99999..100001) of xorshift texts over 256 and 16 symbols; array + search/search_range with {PATTERN_SPACE}"), ctor_gen, run_case);
        add(reg, "SuffixArray/Builder[one object, several texts]", &format!("small-scope lengths 3 shorter than: {TEXT_SPACE}; grid lengths <= 257; x algorithm {{SAIS, DivSufSort, DC3, LarssonSadakane, Adaptive}}; one SuffixArrayBuilder builds a 67-byte Thue-Morse word, the text, its first half, the text doubled, the text again; every array judged, the first array re-read and searched at the end"), reuse_gen, run_case);
        add(reg, "SuffixArray/dict_zip::PatternMatcher", &format!("small-scope lengths 3 (first configuration, thorough: 2) / 3 shorter than: {TEXT_SPACE}; grid lengths <= 257 (first and third configuration) / 65; x matcher configuration {{with_config(lengths 1..MAX, unlimited comparisons); PatternMatcher::new(2..=8); PatternMatcherBuilder defaults (4..=256); instead of the matcher its DFA cache: DfaCache::build_from_suffix_array(min_frequency 1, depth 6) + find_longest_prefix with max_length MAX / 3, soundness only (the position is an occurrence of the reported prefix, the frequency is its number of occurrences)}}; find_all_matches with max_matches MAX / 1 / 2, find_longest_match_suffix_array at input position 0 / 1 and max_length MAX / |p|-1 / 2 (queries that exhaust the documented comparison budget are not judged) with {PATTERN_SPACE}"), matcher_gen, run_case);
        add(reg, "SuffixArray/dict_zip::SuffixArrayDictionary[default config]", &format!("small-scope lengths 3 shorter than: {TEXT_SPACE}; grid lengths <= 257; SuffixArrayDictionaryConfig::default() (pattern lengths 4..=256, min_frequency 4, memory pool) x suffix_array_config algorithm {{Adaptive, SAIS}}; find_all_matches (empty outside the length limits, exact inside), ConcurrentSuffixArrayDictionary::find_longest_match with {PATTERN_SPACE}"), dictionary_default_gen, run_case);
    });
}
