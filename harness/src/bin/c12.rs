//! C12 — suffix arrays order all suffixes; LCP, BWT and pattern search are exact (engine E2).
//!
//! Reference functions (all naive, all in this file): a suffix array is correct iff it is a permutation of
//! 0..n whose adjacent suffixes are strictly increasing (the sorted order is unique, so this is equality with
//! the naive `sort_by(|i,j| text[i..].cmp(&text[j..]))`); LCP by direct comparison of adjacent suffixes; BWT
//! `text[(sa[r] + n - 1) % n]` (the library's documented-by-code convention: cyclic predecessor, no sentinel);
//! pattern search = all positions found by a naive scan.
//!
//! LCP / BWT / search are judged only when the suffix array of the same case is correct (their stated input is
//! "the suffix array"); a wrong suffix array is reported once, under clause `suffix_array`
//! with class `<resolved algorithm>/<text class>`.
//!
//! All subjects share one case type (`SaCase { text, entry }`) and one `run` function that dispatches on `entry`,
//! so that a known finding with subject `SuffixArray/*` (one construction defect seen through several entry
//! points) can be replayed on any of them.

use serde::{de::DeserializeOwned, Deserialize, Serialize};
use std::cell::OnceCell;
use std::hash::Hash;
use zverif::enumr::{self, Enum, EnumSpec};
use zverif::util::{all_strings, brief, hex, unhex};
use zverif::{Outcome, Registry, Tier};

use zipora::algorithms::suffix_array::{
    EnhancedSuffixArray, LcpArray, SuffixArray, SuffixArrayAlgorithm, SuffixArrayBuilder, SuffixArrayConfig,
};
use zipora::compression::dict_zip::{SuffixArrayDictionary, SuffixArrayDictionaryConfig};
use zipora::compression::suffix_array::{SuffixArrayCompressor, SuffixArrayConfig as CompSaConfig};

// ------------------------------------------------------------------------------------------------
// generic closure-based spec (same shape as in c11.rs)

type Gen<C> = Box<dyn Fn(Tier, &mut dyn FnMut(C) -> bool) -> bool>;

struct Spec<C> {
    name: String,
    space: String,
    gen: Gen<C>,
    run: Box<dyn Fn(&C) -> Outcome>,
}

impl<C: Serialize + DeserializeOwned + Hash + Clone> EnumSpec for Spec<C> {
    type Case = C;
    fn name(&self) -> String {
        self.name.clone()
    }
    fn space(&self, tier: Tier) -> String {
        format!("[{}] {}", tier.name(), self.space)
    }
    fn cases(&self, tier: Tier, f: &mut dyn FnMut(C) -> bool) {
        (self.gen)(tier, f);
    }
    fn run(&self, c: &C) -> Outcome {
        (self.run)(c)
    }
}

fn add<C: Serialize + DeserializeOwned + Hash + Clone + 'static>(
    reg: &mut Registry,
    name: &str,
    space: &str,
    gen: impl Fn(Tier, &mut dyn FnMut(C) -> bool) -> bool + 'static,
    run: impl Fn(&C) -> Outcome + 'static,
) {
    reg.add(Enum(Spec { name: name.to_string(), space: space.to_string(), gen: Box::new(gen), run: Box::new(run) }));
}

// ------------------------------------------------------------------------------------------------
// texts

#[derive(Clone, Copy, Debug, PartialEq, Eq, Hash, Serialize, Deserialize)]
enum TShape {
    /// abab..
    AbRep,
    /// a^(n-1) b
    AnB,
    /// b a^(n-1)
    BAn,
    /// a^n
    AllA,
    /// Fibonacci word over {a,b}
    Fib,
    /// Thue-Morse word over {a,b}
    ThueMorse,
    /// Thue-Morse word over {0x00,0xFF}
    ThueMorse00FF,
    /// i mod 256
    Cyc256,
    /// 255 - (i mod 256)
    Rev256,
    /// xorshift bytes (deterministic)
    Noise256,
}

const ALL_TSHAPES: &[TShape] = &[
    TShape::AbRep,
    TShape::AnB,
    TShape::BAn,
    TShape::AllA,
    TShape::Fib,
    TShape::ThueMorse,
    TShape::ThueMorse00FF,
    TShape::Cyc256,
    TShape::Rev256,
    TShape::Noise256,
];

fn shaped_text(shape: TShape, n: usize) -> Vec<u8> {
    match shape {
        TShape::AbRep => (0..n).map(|i| if i % 2 == 0 { b'a' } else { b'b' }).collect(),
        TShape::AnB => (0..n).map(|i| if i + 1 == n { b'b' } else { b'a' }).collect(),
        TShape::BAn => (0..n).map(|i| if i == 0 { b'b' } else { b'a' }).collect(),
        TShape::AllA => vec![b'a'; n],
        TShape::Fib => {
            let (mut a, mut b) = (b"a".to_vec(), b"ab".to_vec());
            while b.len() < n {
                let mut c = b.clone();
                c.extend_from_slice(&a);
                a = b;
                b = c;
            }
            b.truncate(n);
            b
        }
        TShape::ThueMorse => (0..n).map(|i| if (i as u64).count_ones() % 2 == 0 { b'a' } else { b'b' }).collect(),
        TShape::ThueMorse00FF => (0..n).map(|i| if (i as u64).count_ones() % 2 == 0 { 0x00 } else { 0xFF }).collect(),
        TShape::Cyc256 => (0..n).map(|i| (i % 256) as u8).collect(),
        TShape::Rev256 => (0..n).map(|i| 255 - (i % 256) as u8).collect(),
        TShape::Noise256 => {
            let mut x: u64 = 0x9E37_79B9_7F4A_7C15 ^ ((n as u64) << 17);
            (0..n)
                .map(|_| {
                    x ^= x << 13;
                    x ^= x >> 7;
                    x ^= x << 17;
                    (x >> 24) as u8
                })
                .collect()
        }
    }
}

/// enumeration alphabets; index = alphabet id (1..=4 plain, 5..=8 the sentinel-terminated family of the
/// compression builder: symbols > 0x00 so that a final 0x00 is a unique smallest sentinel)
const ALPHABETS: &[&[u8]] = &[
    &[],
    &[0x61],
    &[0x61, 0x62],
    &[0x00, 0x61, 0xFF],
    &[0x00, 0x61, 0x62, 0xFF],
    &[0x61],
    &[0x61, 0x62],
    &[0x01, 0x61, 0xFF],
    &[0x01, 0x61, 0x62, 0xFF],
];
/// one byte that never occurs in texts over the alphabet
const FOREIGN: &[u8] = &[0x7A, 0x62, 0x63, 0x62, 0x63, 0x62, 0x63, 0x62, 0x63];

#[derive(Clone, Debug, PartialEq, Eq, Hash, Serialize, Deserialize)]
enum Text {
    /// text over ALPHABETS[alpha], hex encoded
    Seq { alpha: u8, hex: String },
    Grid { shape: TShape, n: u32 },
}

impl Text {
    fn bytes(&self) -> Vec<u8> {
        match self {
            Text::Seq { hex, .. } => unhex(hex).unwrap_or_default(),
            Text::Grid { shape, n } => shaped_text(*shape, *n as usize),
        }
    }
    /// (pattern alphabet, foreign byte)
    fn alphabet(&self, text: &[u8]) -> (Vec<u8>, u8) {
        match self {
            Text::Seq { alpha, .. } => (ALPHABETS[*alpha as usize].to_vec(), FOREIGN[*alpha as usize]),
            Text::Grid { .. } => {
                let mut a = text.to_vec();
                a.sort();
                a.dedup();
                let foreign = (0..=255u8).rev().find(|b| !a.contains(b));
                match foreign {
                    // alphabets with a free byte: the largest free byte that is smaller than the maximum, if any
                    Some(_) => {
                        let max = *a.last().unwrap_or(&0);
                        let inner = (0..max).rev().find(|b| !a.contains(b));
                        (a, inner.or(foreign).unwrap())
                    }
                    // all 256 bytes occur: there is no foreign byte; patterns are made absent by length instead
                    None => (a, 0x7A),
                }
            }
        }
    }
}

const S_LENS_QUICK: [usize; 5] = [0, 16, 13, 9, 7];
const S_LENS_THOROUGH: [usize; 5] = [0, 20, 15, 10, 8];
const G_LENS: &[usize] = &[1, 2, 3, 63, 64, 65, 255, 256, 257, 1000, 4097];

/// S ∪ G.  `shift` selects the plain (0) or the sentinel-terminated (4) alphabet family; `s_cut` shortens the
/// small-scope lengths (for expensive subjects); grid lengths above `max_n(tier)` are dropped.
fn texts(tier: Tier, shift: u8, s_cut: usize, max_n: usize, f: &mut dyn FnMut(Text) -> bool) -> bool {
    let lens = tier.pick(S_LENS_QUICK, S_LENS_THOROUGH);
    let mut first = true;
    for k in 1..=4usize {
        let a = ALPHABETS[k + shift as usize];
        let max_len = lens[k].saturating_sub(s_cut);
        let ok = all_strings(a, max_len, &mut |s| {
            // the empty text and texts over a sub-alphabet already produced with a smaller alphabet are repeats
            if s.is_empty() {
                if !first {
                    return true;
                }
                first = false;
            } else if k > 1 && !uses_new_symbol(s, k, shift) {
                return true;
            }
            f(Text::Seq { alpha: (k as u8) + shift, hex: hex(s) })
        });
        if !ok {
            return false;
        }
    }
    for &n in G_LENS {
        if n > max_n {
            continue;
        }
        for &shape in ALL_TSHAPES {
            if !f(Text::Grid { shape, n: n as u32 }) {
                return false;
            }
        }
    }
    true
}

/// Alphabet 2 ⊃ alphabet 1 and alphabet 4 ⊃ alphabet 3 ⊃ {0x61}: skip texts that a smaller alphabet already produced.
fn uses_new_symbol(s: &[u8], k: usize, shift: u8) -> bool {
    let low = if shift == 0 { 0x00 } else { 0x01 };
    match k {
        2 => s.contains(&0x62),
        3 => s.contains(&low) || s.contains(&0xFF),
        4 => s.contains(&0x62) && (s.contains(&low) || s.contains(&0xFF)),
        _ => true,
    }
}

const TEXT_SPACE: &str = "S = all strings over {61}, {61,62}, {00,61,FF}, {00,61,62,FF} up to length 16,13,9,7 (quick) / 20,15,10,8 (thorough), each text once; \
G = {(ab)^n, a^n b, b a^n, a^n, Fibonacci word, Thue-Morse over {a,b} and over {00,FF}, i mod 256, 255 - i mod 256, xorshift bytes} x lengths {1,2,3,63,64,65,255,256,257,1000} (+4097 thorough)";

const PATTERN_SPACE: &str = "patterns per text: every string of length <= 3 over the text alphabet plus one foreign byte (alphabets > 5 symbols: all 256 single bytes, the 2- and 3-grams at text positions 0..32 and the same with the last byte replaced), plus every suffix and every suffix + foreign byte (n <= 257: all suffixes; n <= 1000: every ceil(n/64)-th and the last 64; longer: every ceil(n/16)-th and the last 32)";

fn grid_max(tier: Tier) -> usize {
    tier.pick(1000, 4097)
}

fn text_class(t: &[u8]) -> &'static str {
    let n = t.len();
    if n <= 1 {
        return "n<=1";
    }
    if n == 2 && t[0] == t[1] {
        // its own class: builders special-case two-byte texts
        return "n2_equal";
    }
    let nondec = t.windows(2).all(|w| w[0] <= w[1]);
    let noninc = t.windows(2).all(|w| w[0] >= w[1]);
    match (nondec, noninc) {
        (true, true) => "unary",
        (true, false) => "nondecreasing",
        (false, true) => "nonincreasing",
        (false, false) => "mixed",
    }
}

// ------------------------------------------------------------------------------------------------
// reference functions

fn naive_sa(t: &[u8]) -> Vec<usize> {
    let mut v: Vec<usize> = (0..t.len()).collect();
    v.sort_by(|&a, &b| t[a..].cmp(&t[b..]));
    v
}

fn lcp_len(a: &[u8], b: &[u8]) -> usize {
    a.iter().zip(b.iter()).take_while(|(x, y)| x == y).count()
}

fn naive_occurrences(t: &[u8], p: &[u8]) -> Vec<usize> {
    (0..t.len()).filter(|&i| t[i..].starts_with(p)).collect()
}

fn show_sa(sa: &[usize]) -> String {
    if sa.len() <= 24 {
        format!("{:?}", sa)
    } else {
        format!("[len {}] {:?}..", sa.len(), &sa[..16])
    }
}

/// The suffix-array oracle: "the unique permutation of 0..n that orders the text's suffixes lexicographically".
/// `Some((symptom, detail))` if `sa` is not that permutation.
fn judge_sa(t: &[u8], sa: &[usize]) -> Option<(&'static str, String)> {
    let n = t.len();
    let expected = || if n <= 64 { format!(", expected {:?}", naive_sa(t)) } else { String::new() };
    if sa.len() != n {
        return Some(("wrong_len", format!("text {}: suffix array has {} entries for {} suffixes", brief(t), sa.len(), n)));
    }
    let mut seen = vec![false; n];
    for &p in sa {
        if p >= n || seen[p] {
            return Some(("not_permutation", format!("text {}: {} is not a permutation of 0..{n} (entry {p} repeated or out of range){}", brief(t), show_sa(sa), expected())));
        }
        seen[p] = true;
    }
    for r in 1..n {
        if t[sa[r - 1]..] >= t[sa[r]..] {
            return Some((
                "wrong_order",
                format!("text {}: {} is not in suffix order at ranks {},{} (suffix {} >= suffix {}){}", brief(t), show_sa(sa), r - 1, r, sa[r - 1], sa[r], expected()),
            ));
        }
    }
    None
}

/// LCP oracle: lcp[0] = 0 and lcp[r] = |longest common prefix of the suffixes at ranks r-1 and r|.
fn judge_lcp(t: &[u8], sa: &[usize], lcp: &[usize]) -> Option<(String, String)> {
    let n = t.len();
    if lcp.len() != n {
        return Some(("lcp_len".into(), format!("text {}: LCP array has {} entries, suffix array {}", brief(t), lcp.len(), n)));
    }
    for r in 0..n {
        let exp = if r == 0 { 0 } else { lcp_len(&t[sa[r - 1]..], &t[sa[r]..]) };
        if lcp[r] != exp {
            return Some((
                format!("lcp_value/{}", if r == 0 { "rank0" } else if exp >= 256 { "lcp>=256" } else { "lcp<256" }),
                format!("text {}: lcp[{r}] = {}, direct comparison of suffixes {} and {} gives {exp}", brief(t), lcp[r], if r > 0 { sa[r - 1] } else { 0 }, sa[r]),
            ));
        }
    }
    None
}

fn patterns(t: &[u8], alpha: &[u8], foreign: u8) -> Vec<Vec<u8>> {
    let n = t.len();
    let mut out: Vec<Vec<u8>> = Vec::new();
    let mut sym = alpha.to_vec();
    if !sym.contains(&foreign) {
        sym.push(foreign);
    }
    if sym.len() <= 5 {
        all_strings(&sym, 3, &mut |s| {
            out.push(s.to_vec());
            true
        });
    } else {
        out.push(Vec::new());
        for b in 0..=255u8 {
            out.push(vec![b]);
        }
        for i in 0..n.min(32) {
            for l in 2..=3 {
                if i + l <= n {
                    out.push(t[i..i + l].to_vec());
                    let mut q = t[i..i + l].to_vec();
                    q[l - 1] = q[l - 1].wrapping_add(1);
                    out.push(q);
                }
            }
        }
    }
    let starts: Vec<usize> = if n <= 257 {
        (0..n).collect()
    } else {
        let (step, tail) = if n <= 1000 { (n.div_ceil(64), 64) } else { (n.div_ceil(16), 32) };
        let mut v: Vec<usize> = (0..n).step_by(step).collect();
        v.extend(n - tail..n);
        v.sort();
        v.dedup();
        v
    };
    for j in starts {
        out.push(t[j..].to_vec());
        let mut q = t[j..].to_vec();
        q.push(foreign);
        out.push(q);
    }
    // a pattern longer than the whole text
    let mut q = t.to_vec();
    q.extend_from_slice(t);
    q.push(foreign);
    out.push(q);
    out
}

fn pattern_class(t: &[u8], p: &[u8], count: usize) -> &'static str {
    if p.is_empty() {
        "empty_pattern"
    } else if p.len() > t.len() {
        "pattern_longer_than_text"
    } else if count == 0 {
        "absent"
    } else if count == 1 {
        "once"
    } else {
        "many"
    }
}

// ------------------------------------------------------------------------------------------------
// the case type shared by all subjects

#[derive(Clone, Copy, Debug, PartialEq, Eq, Hash, Serialize, Deserialize)]
enum Alg {
    SAIS,
    DivSufSort,
    DC3,
    LarssonSadakane,
    Adaptive,
}

impl Alg {
    fn real(self) -> SuffixArrayAlgorithm {
        match self {
            Alg::SAIS => SuffixArrayAlgorithm::SAIS,
            Alg::DivSufSort => SuffixArrayAlgorithm::DivSufSort,
            Alg::DC3 => SuffixArrayAlgorithm::DC3,
            Alg::LarssonSadakane => SuffixArrayAlgorithm::LarssonSadakane,
            Alg::Adaptive => SuffixArrayAlgorithm::Adaptive,
        }
    }
}

#[derive(Clone, Copy, Debug, PartialEq, Eq, Hash, Serialize, Deserialize)]
enum Entry {
    /// algorithms::suffix_array::SuffixArrayBuilder::build.  variant:
    ///   0 = defaults (sequential, optimize_small_alphabet = true, adaptive_threshold = 10_000)
    ///   1 = optimize_small_alphabet = false
    ///   2 = use_parallel = true, parallel_threshold = 0
    ///   3 = adaptive_threshold = 0 (the analysis always decides)    4 = adaptive_threshold = 8
    Builder { alg: Alg, variant: u8 },
    /// algorithms::suffix_array::EnhancedSuffixArray::with_lcp
    EnhancedLcp,
    /// algorithms::suffix_array::EnhancedSuffixArray::with_bwt
    EnhancedBwt,
    /// compression::suffix_array::SuffixArrayCompressor::build_suffix_array on text + 0x00 sentinel.
    /// preset: 0 = default, 1 = for_dictionary_compression (with LCP), 2 = for_realtime (no pool)
    Compressor { preset: u8 },
    /// compression::dict_zip::SuffixArrayDictionary built over the text (min_pattern_length 1, min_frequency 1).
    /// sa: the suffix_array_config algorithm (Adaptive = the default)
    Dictionary { sa: Alg },
}

#[derive(Clone, Debug, Hash, Serialize, Deserialize)]
struct SaCase {
    text: Text,
    entry: Entry,
}

fn sa_config(alg: Alg, variant: u8) -> SuffixArrayConfig {
    SuffixArrayConfig {
        algorithm: alg.real(),
        use_parallel: variant == 2,
        parallel_threshold: if variant == 2 { 0 } else { 100_000 },
        compute_lcp: false,
        optimize_small_alphabet: variant != 1,
        adaptive_threshold: match variant {
            3 => 0,
            4 => 8,
            _ => 10_000,
        },
    }
}

/// the algorithm a configuration resolves to for a text (`select_algorithm` is public)
fn resolved(cfg: &SuffixArrayConfig, t: &[u8]) -> String {
    format!("{:?}", SuffixArrayBuilder::new(cfg.clone()).select_algorithm(t))
}

fn sa_fail(alg: &str, t: &[u8], sym: &str, detail: String) -> Outcome {
    enumr::fail("suffix_array", format!("{alg}/{}", text_class(t)), format!("{sym}: {detail}"))
}

/// search clause for one (text, correct suffix array): `search(p)` must give the rank range of p.
fn judge_search(case_text: &Text, t: &[u8], sa: &SuffixArray) -> Option<Outcome> {
    let n = t.len();
    let (alpha, foreign) = case_text.alphabet(t);
    for p in patterns(t, &alpha, foreign) {
        let occ = naive_occurrences(t, &p);
        let (start, count) = sa.search(t, &p);
        let (lo, hi) = sa.search_range(t, &p);
        let pc = pattern_class(t, &p, occ.len());
        if hi < lo || hi - lo != count || (count > 0 && lo != start) {
            return Some(enumr::fail("search", format!("search_vs_search_range/{pc}"), format!("text {} pattern {}: search = ({start},{count}), search_range = ({lo},{hi})", brief(t), brief(&p))));
        }
        if count != occ.len() {
            return Some(enumr::fail("search", format!("count/{pc}"), format!("text {} pattern {}: search reports {count} occurrences, a naive scan finds {} at {:?}", brief(t), brief(&p), occ.len(), &occ[..occ.len().min(8)])));
        }
        if start + count > n {
            return Some(enumr::fail("search", format!("range_out_of_bounds/{pc}"), format!("text {} pattern {}: range ({start},{count}) exceeds {n} ranks", brief(t), brief(&p))));
        }
        let mut got: Vec<usize> = sa.as_slice()[start..start + count].to_vec();
        got.sort();
        if got != occ {
            return Some(enumr::fail("search", format!("positions/{pc}"), format!("text {} pattern {}: ranks {start}..{} hold positions {:?}, occurrences are {:?}", brief(t), brief(&p), start + count, &got[..got.len().min(8)], &occ[..occ.len().min(8)])));
        }
    }
    None
}

fn done(label: String, t: &[u8]) -> Outcome {
    let cls = format!("{label}/{}", text_class(t));
    if t.len() < 2 {
        Outcome::trivial(&cls)
    } else {
        Outcome::pass(&cls)
    }
}

fn run_builder(text: &Text, alg: Alg, variant: u8) -> Outcome {
    let t = text.bytes();
    let n = t.len();
    let cfg = sa_config(alg, variant);
    let ralg = resolved(&cfg, &t);
    let sa = match SuffixArrayBuilder::new(cfg).build(&t) {
        Ok(sa) => sa,
        // "for every text and every construction algorithm the suffix array is ...": refusing a valid text is a violation
        Err(e) => return sa_fail(&ralg, &t, "build_err", format!("build returned Err({e}) for text {}", brief(&t))),
    };
    if let Some((sym, detail)) = judge_sa(&t, sa.as_slice()) {
        return sa_fail(&ralg, &t, sym, detail);
    }
    if sa.text_len() != n {
        return enumr::fail("suffix_array", "text_len", format!("text_len() = {} for a text of {n} bytes", sa.text_len()));
    }
    for r in [0, n / 2, n.saturating_sub(1), n] {
        let exp = sa.as_slice().get(r).copied();
        if sa.suffix_at_rank(r) != exp {
            return enumr::fail("suffix_array", "suffix_at_rank", format!("suffix_at_rank({r}) = {:?}, as_slice()[{r}] = {:?}", sa.suffix_at_rank(r), exp));
        }
    }
    // LCP (Kasai) over this suffix array
    match LcpArray::new(&t, &sa) {
        Err(e) => return enumr::fail("lcp", "lcp_err", format!("LcpArray::new returned Err({e}) for text {}", brief(&t))),
        Ok(l) => {
            if let Some((class, detail)) = judge_lcp(&t, sa.as_slice(), l.as_slice()) {
                return enumr::fail("lcp", class, detail);
            }
            if n > 0 && (l.lcp_at(n - 1) != Some(l.as_slice()[n - 1]) || l.lcp_at(n).is_some()) {
                return enumr::fail("lcp", "lcp_at", format!("lcp_at({}) = {:?}, lcp_at({n}) = {:?}", n - 1, l.lcp_at(n - 1), l.lcp_at(n)));
            }
        }
    }
    let with_search = variant == 0 || variant == 3;
    if with_search {
        if let Some(f) = judge_search(text, &t, &sa) {
            return f;
        }
    }
    done(format!("builder/{ralg}/v{variant}{}", if with_search { "+search" } else { "" }), &t)
}

fn run_enhanced(text: &Text, bwt: bool) -> Outcome {
    let t = text.bytes();
    let n = t.len();
    let ralg = resolved(&SuffixArrayConfig::default(), &t);
    let esa = match if bwt { EnhancedSuffixArray::with_bwt(&t) } else { EnhancedSuffixArray::with_lcp(&t) } {
        Ok(e) => e,
        Err(e) => return sa_fail(&ralg, &t, "build_err", format!("constructor returned Err({e}) for text {}", brief(&t))),
    };
    let sa = esa.suffix_array().as_slice();
    if let Some((sym, detail)) = judge_sa(&t, sa) {
        return sa_fail(&ralg, &t, sym, detail);
    }
    if bwt {
        let Some(b) = esa.bwt() else {
            return enumr::fail("bwt", "missing", "with_bwt produced no BWT".to_string());
        };
        // the BWT induced by the suffix order, cyclic predecessor (the library has no sentinel)
        let exp: Vec<u8> = sa.iter().map(|&p| t[(p + n - 1) % n]).collect();
        if b != &exp[..] {
            return enumr::fail("bwt", text_class(&t), format!("text {}: bwt = {}, expected {}", brief(&t), brief(b), brief(&exp)));
        }
        if esa.lcp_array().is_some() {
            return enumr::fail("bwt", "unexpected_lcp", "with_bwt also carries an LCP array".to_string());
        }
    } else {
        let Some(l) = esa.lcp_array() else {
            return enumr::fail("lcp", "missing", "with_lcp produced no LCP array".to_string());
        };
        if let Some((class, detail)) = judge_lcp(&t, sa, l.as_slice()) {
            return enumr::fail("lcp", class, detail);
        }
    }
    done(format!("enhanced-{}/{ralg}", if bwt { "bwt" } else { "lcp" }), &t)
}

thread_local! {
    /// one compressor per preset (each owns a SecureMemoryPool)
    static COMPRESSORS: [OnceCell<Option<SuffixArrayCompressor>>; 3] = const { [OnceCell::new(), OnceCell::new(), OnceCell::new()] };
}

fn run_compressor(text: &Text, preset: u8) -> Outcome {
    // documented precondition: "should end with unique sentinel" -- append 0x00, smaller than every text byte
    let mut t = text.bytes();
    if t.contains(&0) {
        return Outcome::skip("text contains the sentinel byte");
    }
    t.push(0);
    let n = t.len();
    let ptext = Text::Seq { alpha: 0, hex: String::new() };
    let (mut alpha, foreign) = text.alphabet(&t[..n - 1]);
    alpha.retain(|&b| b != 0);
    alpha.insert(0, 0);
    let _ = ptext;
    COMPRESSORS.with(|cs| {
        let comp = cs[preset.min(2) as usize].get_or_init(|| {
            let cfg = match preset {
                1 => CompSaConfig::for_dictionary_compression(),
                2 => CompSaConfig::for_realtime(),
                _ => CompSaConfig::default(),
            };
            SuffixArrayCompressor::new(cfg).ok()
        });
        let Some(comp) = comp else {
            return Outcome::skip("SuffixArrayCompressor::new returned Err");
        };
        let esa = match comp.build_suffix_array(&t) {
            Ok(e) => e,
            Err(e) => return sa_fail("SAIS", &t, "build_err", format!("build_suffix_array returned Err({e}) for text {}", brief(&t))),
        };
        let sa: Vec<usize> = (0..esa.len()).map(|r| esa.suffix_at_rank(r).unwrap_or(usize::MAX)).collect();
        if let Some((sym, detail)) = judge_sa(&t, &sa) {
            // the array comes from the base SA-IS builder: same array = inherited defect, different array = the wrapper's own
            let base = SuffixArrayBuilder::new(sa_config(Alg::SAIS, 0)).build(&t).map(|b| b.as_slice().to_vec()).unwrap_or_default();
            if base != sa {
                return enumr::fail("suffix_array", format!("differs_from_base_builder/{}", text_class(&t)), format!("{sym}: {detail}; the base builder returned {}", show_sa(&base)));
            }
            return sa_fail("SAIS", &t, sym, detail);
        }
        if esa.text_len() != n || esa.is_empty() != (n == 0) || esa.suffix_at_rank(n).is_some() {
            return enumr::fail("suffix_array", "accessors", format!("text_len {} is_empty {} suffix_at_rank(n) {:?} for n = {n}", esa.text_len(), esa.is_empty(), esa.suffix_at_rank(n)));
        }
        if preset == 1 {
            let lcp: Vec<usize> = (0..n).map(|r| esa.lcp_at(r).unwrap_or(usize::MAX)).collect();
            if let Some((class, detail)) = judge_lcp(&t, &sa, &lcp) {
                return enumr::fail("lcp", class, detail);
            }
        } else if esa.lcp_at(0).is_some() {
            return enumr::fail("lcp", "unexpected_lcp", "LCP array present although compute_lcp is false".to_string());
        }
        for p in patterns(&t, &alpha, foreign) {
            if p.is_empty() {
                continue; // documented by the code: the empty pattern has no occurrences here
            }
            let occ = naive_occurrences(&t, &p);
            let pc = pattern_class(&t, &p, occ.len());
            let got = esa.find_pattern(&t, &p);
            if got != occ {
                return enumr::fail("search", format!("find_pattern/{pc}"), format!("text {} pattern {}: find_pattern = {:?}, occurrences are {:?}", brief(&t), brief(&p), &got[..got.len().min(8)], &occ[..occ.len().min(8)]));
            }
            let cnt = esa.count_pattern(&t, &p);
            let (lo, hi) = esa.find_pattern_range(&t, &p);
            if cnt != occ.len() || hi < lo || hi - lo != occ.len() {
                return enumr::fail("search", format!("count/{pc}"), format!("text {} pattern {}: count_pattern = {cnt}, find_pattern_range = ({lo},{hi}), occurrences {}", brief(&t), brief(&p), occ.len()));
            }
        }
        done(format!("compressor/preset{preset}"), &t)
    })
}

fn run_dictionary(text: &Text, alg: Alg) -> Outcome {
    let t = text.bytes();
    let n = t.len();
    let sa_cfg = sa_config(alg, 0);
    let ralg = resolved(&sa_cfg, &t);
    let cfg = SuffixArrayDictionaryConfig {
        min_frequency: 1,
        min_pattern_length: 1,
        max_pattern_length: usize::MAX / 2,
        use_memory_pool: false,
        suffix_array_config: sa_cfg,
        ..SuffixArrayDictionaryConfig::default()
    };
    let mut dict = match SuffixArrayDictionary::new(&t, cfg) {
        Ok(d) => d,
        // a dictionary constructor may refuse its training data (that is C02's business): precondition not met
        Err(e) => return Outcome::skip(&format!("dictionary refused: {}", zverif::core::truncate(&e.to_string(), 50))),
    };
    // the matcher's suffix array, observed through find_all_matches on every single byte in byte order
    let mut bytes = t.clone();
    bytes.sort();
    bytes.dedup();
    let mut sa: Vec<usize> = Vec::with_capacity(n);
    for &b in &bytes {
        match dict.find_all_matches(&[b], usize::MAX) {
            Ok(ms) => sa.extend(ms.iter().map(|m| m.dict_position)),
            Err(e) => return enumr::fail("search", "dict_find_all_err", format!("find_all_matches([{b:#x}]) returned Err({e})")),
        }
    }
    if let Some((sym, detail)) = judge_sa(&t, &sa) {
        return sa_fail(&ralg, &t, sym, format!("(array observed through find_all_matches on single bytes) {detail}"));
    }
    let (alpha, foreign) = text.alphabet(&t);
    for p in patterns(&t, &alpha, foreign) {
        if p.is_empty() {
            continue;
        }
        let occ = naive_occurrences(&t, &p);
        let pc = pattern_class(&t, &p, occ.len());
        match dict.find_all_matches(&p, usize::MAX) {
            Err(e) => return enumr::fail("search", "dict_find_all_err", format!("find_all_matches returned Err({e})")),
            Ok(ms) => {
                let mut got: Vec<usize> = ms.iter().map(|m| m.dict_position).collect();
                got.sort();
                if got != occ || ms.iter().any(|m| m.length != p.len()) {
                    return enumr::fail("search", format!("dict_find_all/{pc}"), format!("text {} pattern {}: find_all_matches positions {:?}, occurrences are {:?}", brief(&t), brief(&p), &got[..got.len().min(8)], &occ[..occ.len().min(8)]));
                }
            }
        }
        // longest prefix of p that occurs in the text, and how often it occurs
        let mut depth = 0;
        while depth < p.len() && !naive_occurrences(&t, &p[..depth + 1]).is_empty() {
            depth += 1;
        }
        let focc = naive_occurrences(&t, &p[..depth]);
        for (which, st) in [("dict_sa_match", dict.sa_match_continuation(0, n, 0, &p)), ("dict_da_match", dict.da_match_max_length(&p))] {
            if st.depth != depth || st.match_count() != focc.len() || st.hi > n {
                return enumr::fail(
                    "search",
                    format!("{which}/{pc}"),
                    format!("text {} input {}: range [{},{}) depth {}; the longest matching prefix has length {depth} and {} occurrences", brief(&t), brief(&p), st.lo, st.hi, st.depth, focc.len()),
                );
            }
            let mut got: Vec<usize> = sa[st.lo..st.hi].to_vec();
            got.sort();
            if got != focc {
                return enumr::fail("search", format!("{which}_positions/{pc}"), format!("text {} input {}: ranks [{},{}) hold {:?}, occurrences of the prefix are {:?}", brief(&t), brief(&p), st.lo, st.hi, &got[..got.len().min(8)], &focc[..focc.len().min(8)]));
            }
        }
        match dict.find_longest_match(&p, 0, usize::MAX) {
            Err(e) => return enumr::fail("search", "dict_longest_err", format!("find_longest_match returned Err({e})")),
            Ok(m) => {
                let ok = match &m {
                    None => depth == 0,
                    Some(m) => depth > 0 && m.length == depth && focc.contains(&m.dict_position),
                };
                if !ok {
                    return enumr::fail("search", format!("dict_longest/{pc}"), format!("text {} input {}: find_longest_match = {:?}; longest matching prefix has length {depth} at {:?}", brief(&t), brief(&p), m.map(|m| (m.dict_position, m.length)), &focc[..focc.len().min(8)]));
                }
            }
        }
    }
    done(format!("dictionary/{ralg}"), &t)
}

fn run_case(c: &SaCase) -> Outcome {
    match c.entry {
        Entry::Builder { alg, variant } => run_builder(&c.text, alg, variant),
        Entry::EnhancedLcp => run_enhanced(&c.text, false),
        Entry::EnhancedBwt => run_enhanced(&c.text, true),
        Entry::Compressor { preset } => run_compressor(&c.text, preset),
        Entry::Dictionary { sa } => run_dictionary(&c.text, sa),
    }
}

// ------------------------------------------------------------------------------------------------
// case generators

fn cheap_long(shape: TShape) -> bool {
    matches!(shape, TShape::Cyc256 | TShape::Rev256 | TShape::Noise256 | TShape::ThueMorse | TShape::ThueMorse00FF | TShape::Fib)
}

/// one length beyond the default adaptive threshold (10_000), where the default configuration starts to analyse the
/// text; quick: shapes with short common prefixes only
fn beyond_threshold(tier: Tier, entry: Entry, f: &mut dyn FnMut(SaCase) -> bool) -> bool {
    for &shape in ALL_TSHAPES {
        if (tier == Tier::Thorough || cheap_long(shape)) && !f(SaCase { text: Text::Grid { shape, n: 10_001 }, entry }) {
            return false;
        }
    }
    true
}

fn builder_gen(alg: Alg) -> impl Fn(Tier, &mut dyn FnMut(SaCase) -> bool) -> bool {
    move |tier, f| {
        let variants: &[u8] = match alg {
            Alg::SAIS => &[0, 1, 2],
            Alg::Adaptive => &[0, 3, 4],
            _ => &[0, 2],
        };
        for &variant in variants {
            let entry = Entry::Builder { alg, variant };
            if !texts(tier, 0, 0, grid_max(tier), &mut |text| f(SaCase { text, entry })) {
                return false;
            }
            if alg == Alg::Adaptive && variant == 0 && !beyond_threshold(tier, entry, f) {
                return false;
            }
        }
        true
    }
}

fn enhanced_gen(tier: Tier, f: &mut dyn FnMut(SaCase) -> bool) -> bool {
    for entry in [Entry::EnhancedLcp, Entry::EnhancedBwt] {
        if !texts(tier, 0, 0, grid_max(tier), &mut |text| f(SaCase { text, entry })) {
            return false;
        }
        if !beyond_threshold(tier, entry, f) {
            return false;
        }
    }
    true
}

fn compressor_gen(tier: Tier, f: &mut dyn FnMut(SaCase) -> bool) -> bool {
    for preset in [0u8, 1, 2] {
        let entry = Entry::Compressor { preset };
        // texts over the sentinel-free alphabets (ids 5..8); grid texts containing 0x00 are skipped by `run`
        if !texts(tier, 4, 0, grid_max(tier), &mut |text| f(SaCase { text, entry })) {
            return false;
        }
    }
    true
}

fn dictionary_gen(tier: Tier, f: &mut dyn FnMut(SaCase) -> bool) -> bool {
    for sa in [Alg::Adaptive, Alg::DivSufSort] {
        let entry = Entry::Dictionary { sa };
        // every case builds a dictionary (DFA cache, matcher): small scope shortened by 2, grid up to 257
        if !texts(tier, 0, 2, 257, &mut |text| f(SaCase { text, entry })) {
            return false;
        }
    }
    true
}

fn main() {
    zverif::main_with("C12", |reg, _tier| {
        // SA-IS first: findings with subject "SuffixArray/*" are replayed on the matching subjects in registration order, and every
        // subject runs any `SaCase` the same way
        for (alg, name) in [(Alg::SAIS, "SAIS"), (Alg::DivSufSort, "DivSufSort"), (Alg::DC3, "DC3"), (Alg::LarssonSadakane, "LarssonSadakane"), (Alg::Adaptive, "Adaptive")] {
            add(
                reg,
                &format!("SuffixArray/Builder[{name}]"),
                &format!("{TEXT_SPACE} x variant {{defaults; optimize_small_alphabet=false (SAIS); use_parallel with parallel_threshold 0; adaptive_threshold 0 / 8 (Adaptive; + length 10001 with the default threshold)}}; as_slice/suffix_at_rank/text_len, LcpArray::new over the built array, and search/search_range with {PATTERN_SPACE} (search: variants 0 and 3)"),
                builder_gen(alg),
                run_case,
            );
        }
        add(reg, "SuffixArray/Enhanced{with_lcp,with_bwt}", &format!("{TEXT_SPACE} + length 10001 (beyond the default adaptive threshold); BWT convention: cyclic predecessor, no sentinel"), enhanced_gen, run_case);
        add(reg, "SuffixArray/compression::SuffixArrayCompressor", &format!("texts = (text over {{61}}, {{61,62}}, {{01,61,FF}}, {{01,61,62,FF}} or a grid text without 0x00) + sentinel 0x00; same length bounds as: {TEXT_SPACE}; x preset {{default, for_dictionary_compression (LCP), for_realtime}}; suffix_at_rank, lcp_at, find_pattern / count_pattern / find_pattern_range with {PATTERN_SPACE}"), compressor_gen, run_case);
        add(reg, "SuffixArray/dict_zip::SuffixArrayDictionary", &format!("small-scope lengths 2 shorter than: {TEXT_SPACE}; grid lengths <= 257; x suffix_array_config algorithm {{Adaptive (default), DivSufSort}}; the matcher's array observed through find_all_matches on single bytes; find_all_matches, sa_match_continuation, da_match_max_length, find_longest_match with {PATTERN_SPACE}"), dictionary_gen, run_case);
    });
}
