//! endian conversion, ComplexSerialize, smart-pointer serialisation, versioning.

use crate::{bad, ensure, fam, grid_i64, grid_u64, must, text, BLOB_LENS, R};
use serde::{Deserialize, Serialize};
use std::collections::{BTreeMap, BTreeSet, HashMap, HashSet};
use std::fmt::Debug;
use std::rc::Rc;
use std::sync::Arc;
use zipora::io::endian::EndianConvert;
use zipora::io::smart_ptr::{DeserializationContext, SerializableType, SerializationContext, SmartPtrConfig, SmartPtrSerialize, SmartPtrSerializer};
use zipora::io::versioning::{Version, VersionConfig, VersionManager, VersionProxy, VersionedSerialize, VersionedSerializer};
use zipora::io::{ComplexSerialize, ComplexTypeConfig, ComplexTypeSerializer, DataInput, DataOutput, EndianIO, Endianness, NestedSerialize, SliceDataInput, VecDataOutput};
use zverif::util::brief;
use zverif::{Fail, Outcome, Registry, Tier};

// ---------------------------------------------------------------------------------------------
// endian

#[derive(Serialize, Deserialize, Hash, Clone, Debug)]
pub struct EndCase {
    ty: String,
    endian: u8,
    /// raw bit pattern (low bytes used)
    bits: u128,
    /// slice length for the bulk conversions
    n: usize,
}

const END_TYPES: &[&str] = &["u8", "i8", "u16", "i16", "u32", "i32", "u64", "i64", "u128", "i128", "usize", "isize", "f32", "f64"];

fn bit_patterns() -> Vec<u128> {
    let mut v: Vec<u128> = vec![
        0,
        1,
        0x80,
        0xFF,
        0x0102,
        0x8000,
        0x0102_0304,
        0x8000_0000,
        0x7FC0_0000,          // f32 quiet NaN
        0x0000_C07F,          // byte-swapped f32 NaN
        0x7F80_0001,          // f32 signalling NaN
        0x0102_0304_0506_0708,
        0x8000_0000_0000_0000,
        0x7FF0_0000_0000_0001, // f64 signalling NaN
        0x0100_0000_0000_F07F, // its byte swap
        0x0102_0304_0506_0708_090A_0B0C_0D0E_0F10,
        1u128 << 127,
        u128::MAX,
        u128::MAX >> 1,
    ];
    v.sort_unstable();
    v.dedup();
    v
}

fn gen_end(_t: Tier, f: &mut dyn FnMut(EndCase) -> bool) {
    for ty in END_TYPES {
        for endian in 0..3u8 {
            for &bits in &bit_patterns() {
                for n in [0usize, 1, 3, 4, 7, 8, 9, 16, 17] {
                    // the bulk length dimension only matters once per (type, endian) for most patterns
                    if n != 1 && bits != 0x0102_0304_0506_0708_090A_0B0C_0D0E_0F10 {
                        continue;
                    }
                    if !f(EndCase { ty: ty.to_string(), endian, bits, n }) {
                        return;
                    }
                }
            }
        }
    }
}

fn endianness(e: u8) -> Endianness {
    [Endianness::Little, Endianness::Big, Endianness::Native][e as usize]
}

macro_rules! endian_check {
    ($t:ty, $c:expr, $from_bits:expr, $to_bits:expr, $le:expr, $be:expr) => {{
        let c: &EndCase = $c;
        let e = endianness(c.endian);
        let v: $t = $from_bits(c.bits);
        let size = std::mem::size_of::<$t>();
        let io = EndianIO::<$t>::new(e);
        ensure!(io.endianness() == e && io.needs_conversion() == (e == Endianness::Big), "value", "needs_conversion", "endianness()/needs_conversion() inconsistent");
        // encode into the middle of a canary buffer (also: unaligned)
        let mut buf = vec![0xCCu8; size + 3];
        must(io.write_to_bytes(v, &mut buf[1..]), "encode_err", "write_to_bytes")?;
        ensure!(buf[0] == 0xCC && buf[size + 1..] == [0xCC, 0xCC], "consumed", "write_to_bytes/overrun", "wrote outside its {size} bytes: {}", brief(&buf));
        let want: Vec<u8> = match e { Endianness::Little => $le(v), Endianness::Big => $be(v), Endianness::Native => $le(v) };
        ensure!(buf[1..=size] == want[..], "bytes", format!("{}/{:?}", c.ty, e), "write_to_bytes stored {} want {}", brief(&buf[1..=size]), brief(&want));
        let d = must(io.read_from_bytes(&buf[1..]), "decode_err", "read_from_bytes")?;
        ensure!($to_bits(d) == $to_bits(v), "value", format!("{}/{:?}", c.ty, e), "read(write({:#x})) = {:#x}", $to_bits(v), $to_bits(d));
        // exactly size_of bytes are needed: one fewer is refused by both
        if size > 0 {
            ensure!(io.read_from_bytes(&buf[1..size]).is_err(), "consumed", "read_short", "read_from_bytes accepted {} of {size} bytes", size - 1);
            let mut short = vec![0u8; size - 1];
            ensure!(io.write_to_bytes(v, &mut short).is_err(), "consumed", "write_short", "write_to_bytes accepted a {}-byte buffer", size - 1);
        }
        // value-level conversions are mutually inverse
        ensure!($to_bits(v.to_endian(e).from_endian(e)) == $to_bits(v), "value", "to_from_endian", "from_endian(to_endian(v)) != v");
        ensure!($to_bits(v.to_le().from_le()) == $to_bits(v) && $to_bits(v.to_be().from_be()) == $to_bits(v), "value", "to_from_le_be", "le/be round trip");
        // bulk conversions
        let orig: Vec<$t> = (0..c.n).map(|i| $from_bits(c.bits.rotate_left(8 * i as u32) ^ (i as u128))).collect();
        let mut s = orig.clone();
        io.convert_slice_to_endian(&mut s);
        for (a, b) in s.iter().zip(orig.iter()) {
            ensure!($to_bits(*a) == $to_bits(b.to_endian(e)), "value", "convert_slice_to_endian", "bulk conversion differs from element conversion");
        }
        io.convert_slice_from_endian(&mut s);
        for (a, b) in s.iter().zip(orig.iter()) {
            ensure!($to_bits(*a) == $to_bits(*b), "value", "convert_slice_roundtrip", "from(to(slice)) != slice (n={})", c.n);
        }
        Ok(Outcome::pass(&format!("{}/{:?}", c.ty, e)))
    }};
}

macro_rules! int_endian {
    ($t:ty, $c:expr) => {
        endian_check!($t, $c, |b: u128| b as $t, |v: $t| v as u128, |v: $t| v.to_le_bytes().to_vec(), |v: $t| v.to_be_bytes().to_vec())
    };
}

fn run_end(c: &EndCase) -> R {
    match c.ty.as_str() {
        "u8" => int_endian!(u8, c),
        "i8" => int_endian!(i8, c),
        "u16" => {
            // SSE2 bulk variant: applying it twice is the identity (swap is an involution)
            let orig: Vec<u16> = (0..c.n).map(|i| (c.bits as u16).rotate_left(i as u32) ^ i as u16).collect();
            for from_little in [true, false] {
                let mut s = orig.clone();
                zipora::io::endian::simd::convert_u16_slice_simd(&mut s, from_little);
                zipora::io::endian::simd::convert_u16_slice_simd(&mut s, from_little);
                ensure!(s == orig, "value", "convert_u16_slice_simd/roundtrip", "applying the conversion twice is not the identity (n={})", c.n);
                // (coverage audit) whichever direction converts on this host: every element is converted the same way
                // (all unchanged or all byte-swapped), in the 8-element SSE2 chunks and in the scalar remainder alike
                let mut once = orig.clone();
                zipora::io::endian::simd::convert_u16_slice_simd(&mut once, from_little);
                let swapped: Vec<u16> = orig.iter().map(|v| v.swap_bytes()).collect();
                ensure!(once == orig || once == swapped, "value", "convert_u16_slice_simd/uniform", "n={}: {:x?} -> {:x?} is neither the identity nor the byte swap of every element", c.n, orig, once);
            }
            int_endian!(u16, c)
        }
        "i16" => int_endian!(i16, c),
        "u32" => {
            let orig: Vec<u32> = (0..c.n).map(|i| (c.bits as u32).rotate_left(i as u32) ^ i as u32).collect();
            for from_little in [true, false] {
                let mut s = orig.clone();
                zipora::io::endian::simd::convert_u32_slice_simd(&mut s, from_little);
                zipora::io::endian::simd::convert_u32_slice_simd(&mut s, from_little);
                ensure!(s == orig, "value", "convert_u32_slice_simd/roundtrip", "applying the conversion twice is not the identity (n={})", c.n);
                let mut once = orig.clone();
                zipora::io::endian::simd::convert_u32_slice_simd(&mut once, from_little);
                let swapped: Vec<u32> = orig.iter().map(|v| v.swap_bytes()).collect();
                ensure!(once == orig || once == swapped, "value", "convert_u32_slice_simd/uniform", "n={}: {:x?} -> {:x?} is neither the identity nor the byte swap of every element", c.n, orig, once);
            }
            int_endian!(u32, c)
        }
        "i32" => int_endian!(i32, c),
        "u64" => int_endian!(u64, c),
        "i64" => int_endian!(i64, c),
        "u128" => int_endian!(u128, c),
        "i128" => int_endian!(i128, c),
        "usize" => int_endian!(usize, c),
        "isize" => int_endian!(isize, c),
        "f32" => endian_check!(f32, c, |b: u128| f32::from_bits(b as u32), |v: f32| v.to_bits() as u128, |v: f32| v.to_bits().to_le_bytes().to_vec(), |v: f32| v.to_bits().to_be_bytes().to_vec()),
        "f64" => endian_check!(f64, c, |b: u128| f64::from_bits(b as u64), |v: f64| v.to_bits() as u128, |v: f64| v.to_bits().to_le_bytes().to_vec(), |v: f64| v.to_bits().to_be_bytes().to_vec()),
        other => panic!("type {other}"),
    }
}

// ---------------------------------------------------------------------------------------------
// ComplexSerialize

#[derive(Serialize, Deserialize, Hash, Clone, Debug)]
pub struct TyCase {
    ty: String,
    idx: usize,
}

fn strs() -> Vec<String> {
    let mut v: Vec<String> = BLOB_LENS.iter().map(|&n| text(n, 1)).collect();
    v.push("a\0b".to_string());
    v.push("é".to_string());
    // (appended: indices above are recorded in witnesses) lengths around the 64 KiB chunk of DataInput::read_vec
    v.push(text(65536, 1));
    v.push(text(65537, 1));
    v
}

fn configs() -> Vec<(&'static str, ComplexTypeConfig)> {
    vec![
        ("new", ComplexTypeConfig::new()),
        ("safe", ComplexTypeConfig::safe()),
        ("fast", ComplexTypeConfig::fast()),
        ("compact", ComplexTypeConfig::compact()),
        ("compatible", ComplexTypeConfig::compatible()),
    ]
}

/// All clauses for one value (and a second value of the same type for concatenation / batches).
fn check_complex<T: ComplexSerialize + PartialEq + Debug + Clone>(ty: &str, v: &T, w: &T) -> Result<usize, Fail> {
    // data only
    let mut o = VecDataOutput::new();
    must(v.serialize_data(&mut o), "encode_err", ty)?;
    let bytes = o.into_vec();
    let mut i = SliceDataInput::new(&bytes);
    let d = must(T::deserialize_with_version(&mut i, T::version()), "decode_err", ty)?;
    ensure!(&d == v, "value", ty, "deserialize(serialize({:?})) = {:?}", v, d);
    ensure!(i.pos() == bytes.len(), "consumed", ty, "consumed {} of {} bytes for {:?}", i.pos(), bytes.len(), v);
    // concatenation v ++ w
    let mut o = VecDataOutput::new();
    must(v.serialize_data(&mut o), "encode_err", ty)?;
    let cut = o.len();
    must(w.serialize_data(&mut o), "encode_err", ty)?;
    must(o.write_u8(0x5A), "encode_err", ty)?;
    let cat = o.into_vec();
    let mut i = SliceDataInput::new(&cat);
    let d1 = must(T::deserialize_with_version(&mut i, T::version()), "decode_err", ty)?;
    ensure!(&d1 == v && i.pos() == cut, "concat", ty, "first of two: got {:?} consuming {} (encoder wrote {cut})", d1, i.pos());
    let d2 = must(T::deserialize_with_version(&mut i, T::version()), "decode_err", ty)?;
    ensure!(&d2 == w && i.pos() == cat.len() - 1, "concat", ty, "second of two: got {:?}, position {} of {}", d2, i.pos(), cat.len() - 1);
    // with metadata
    let mut o = VecDataOutput::new();
    must(v.serialize_with_metadata(&mut o), "encode_err", ty)?;
    let mb = o.into_vec();
    let mut i = SliceDataInput::new(&mb);
    let d = must(T::deserialize_with_metadata(&mut i), "decode_err", ty)?;
    ensure!(&d == v && i.pos() == mb.len(), "value", format!("{ty}/metadata"), "metadata round trip: {:?}, consumed {} of {}", d, i.pos(), mb.len());
    // nested
    let mut o = VecDataOutput::new();
    must(v.serialize_nested(&mut o, 3), "encode_err", ty)?;
    let nb = o.into_vec();
    let mut i = SliceDataInput::new(&nb);
    let d = must(T::deserialize_nested(&mut i, 3), "decode_err", ty)?;
    ensure!(&d == v && i.pos() == nb.len(), "value", format!("{ty}/nested"), "nested round trip: {:?}", d);
    // the high-level serializer, every preset
    for (cn, cfg) in configs() {
        let s = ComplexTypeSerializer::new(cfg);
        let b = must(s.serialize_to_bytes(v), "encode_err", ty)?;
        let d: T = must(s.deserialize_from_bytes(&b), "decode_err", &format!("{ty}/serializer[{cn}]"))?;
        ensure!(&d == v, "value", format!("{ty}/serializer[{cn}]"), "serializer round trip: {:?}", d);
        let mut batches = vec![vec![], vec![v.clone()], vec![v.clone(), w.clone()], vec![w.clone(), v.clone(), w.clone()]];
        if bytes.len() <= 16 {
            // (coverage audit) more values than the 1024 deserialize_batch reserves up front (small values only)
            batches.push((0..1025).map(|i| if i % 2 == 0 { v.clone() } else { w.clone() }).collect());
        }
        for batch in batches {
            let b = must(s.serialize_batch(&batch), "encode_err", ty)?;
            let d: Vec<T> = must(s.deserialize_batch(&b), "decode_err", &format!("{ty}/batch[{cn}]"))?;
            ensure!(d == batch, "value", format!("{ty}/batch[{cn}]"), "batch of {} round trip: {:?}", batch.len(), d);
        }
    }
    Ok(bytes.len())
}

macro_rules! complex_types {
    ($( $name:literal => $t:ty : $vals:expr ),* $(,)?) => {
        fn complex_counts() -> Vec<(&'static str, usize)> {
            vec![ $( ($name, { let v: Vec<$t> = $vals; v.len() }) ),* ]
        }
        fn run_complex(c: &TyCase) -> R {
            match c.ty.as_str() {
                $( $name => {
                    let vals: Vec<$t> = $vals;
                    let v = &vals[c.idx];
                    let w = &vals[(c.idx + 1) % vals.len()];
                    let n = check_complex::<$t>($name, v, w)?;
                    Ok(if n == 0 { Outcome::trivial(concat!($name, "/0bytes")) } else { Outcome::pass($name) })
                } )*
                other => panic!("type {other}"),
            }
        }
    };
}

fn u32s() -> Vec<u32> {
    vec![0, 1, 0xFF, 0x100, 0x7FFF_FFFF, 0x8000_0000, u32::MAX]
}

complex_types! {
    "()" => () : vec![()],
    "(u8,)" => (u8,) : vec![(0,), (0x7F,), (0x80,), (0xFF,)],
    "(u32,String)" => (u32, String) : u32s().into_iter().zip(strs().into_iter().cycle()).collect(),
    "(i64,u64,bool)" => (i64, u64, bool) : grid_i64().into_iter().zip(grid_u64().into_iter().cycle()).enumerate().map(|(i, (a, b))| (a, b, i % 2 == 0)).collect(),
    "(i8,i16,i32)" => (i8, i16, i32) : vec![(0, 0, 0), (-1, -1, -1), (i8::MIN, i16::MIN, i32::MIN), (i8::MAX, i16::MAX, i32::MAX), (1, 256, 65536)],
    "tuple12" => (u8, u16, u32, u64, i8, i16, i32, i64, bool, String, Option<u8>, Vec<u16>) : vec![
        (0, 0, 0, 0, 0, 0, 0, 0, false, String::new(), None, vec![]),
        (255, 65535, u32::MAX, u64::MAX, -128, i16::MIN, i32::MIN, i64::MIN, true, text(128, 1), Some(255), vec![0, 0xFFFF, 0x8000]),
        (1, 2, 3, 4, 5, 6, 7, 8, true, "x".into(), Some(0), vec![9]),
    ],
    "[u32;0]" => [u32; 0] : vec![[]],
    "[u16;3]" => [u16; 3] : vec![[0, 0, 0], [1, 0x100, 0xFFFF], [0x8000, 0x7FFF, 2]],
    "[String;2]" => [String; 2] : vec![[String::new(), String::new()], [text(127, 1), text(128, 0)], ["a".into(), text(16384, 1)]],
    "Option<u32>" => Option<u32> : std::iter::once(None).chain(u32s().into_iter().map(Some)).collect(),
    "Option<String>" => Option<String> : std::iter::once(None).chain(strs().into_iter().map(Some)).collect(),
    "Option<Option<u8>>" => Option<Option<u8>> : vec![None, Some(None), Some(Some(0)), Some(Some(1)), Some(Some(255))],
    "Result<u32,String>" => Result<u32, String> : u32s().into_iter().map(Ok).chain(strs().into_iter().map(Err)).collect(),
    "Result<u8,u8>" => Result<u8, u8> : vec![Ok(0), Err(0), Ok(1), Err(1), Ok(255), Err(255)],
    "HashMap<u32,String>" => HashMap<u32, String> : vec![
        HashMap::new(),
        [(0u32, String::new())].into_iter().collect(),
        [(1u32, "a".to_string()), (u32::MAX, text(128, 1))].into_iter().collect(),
        (0u32..40).map(|i| (i * 0x0101_0101, text(i as usize, 0))).collect(),
        // (coverage audit, appended) more entries than the 1024 the deserialiser reserves up front
        (0u32..1025).map(|i| (i.wrapping_mul(0x9E37_79B9), text((i % 3) as usize, 0))).collect(),
    ],
    "HashSet<u64>" => HashSet<u64> : vec![HashSet::new(), [0u64].into_iter().collect(), grid_u64().into_iter().collect(), [u64::MAX, 1 << 63].into_iter().collect(), (0u64..1025).map(|i| i * i).collect(), (0u64..1024).collect()],
    "BTreeMap<String,u32>" => BTreeMap<String, u32> : vec![
        BTreeMap::new(),
        [(String::new(), 0u32)].into_iter().collect(),
        strs().into_iter().zip(u32s().into_iter().cycle()).collect(),
        (0u32..1025).map(|i| (format!("k{i:04}"), i)).collect(),
    ],
    "BTreeSet<i32>" => BTreeSet<i32> : vec![BTreeSet::new(), [0].into_iter().collect(), [i32::MIN, -1, 0, 1, i32::MAX].into_iter().collect(), (-512i32..513).collect(), (0i32..1024).collect()],
    "BTreeMap<u32,Vec<Option<String>>>" => BTreeMap<u32, Vec<Option<String>>> : vec![
        BTreeMap::new(),
        [(7u32, vec![])].into_iter().collect(),
        [(0u32, vec![None, Some(String::new()), Some(text(128, 1))]), (u32::MAX, vec![Some("z".to_string())])].into_iter().collect(),
    ],
    "Option<Vec<u64>>" => Option<Vec<u64>> : vec![None, Some(vec![]), Some(grid_u64()), Some(vec![u64::MAX; 3]), Some((0u64..1025).collect()), Some((0u64..1023).collect()), Some((0u64..1024).collect())],
}

fn gen_complex(_t: Tier, f: &mut dyn FnMut(TyCase) -> bool) {
    for (ty, n) in complex_counts() {
        for idx in 0..n {
            if !f(TyCase { ty: ty.to_string(), idx }) {
                return;
            }
        }
    }
}

// ---------------------------------------------------------------------------------------------
// smart pointers

#[derive(Serialize, Deserialize, Hash, Clone, Debug)]
pub struct PtrCase {
    ptr: String,
    ty: String,
    idx: usize,
    cfg: u8,
}

const PTRS: &[&str] = &["Box", "Option<Box>/Some", "Option<Box>/None", "Rc", "Arc", "Rc/shared-twice", "Arc/shared-twice", "Weak<Rc>/live", "Weak<Rc>/dangling", "Weak<Arc>/live", "Weak<Arc>/dangling", "Vec<Rc>", "Box<Box>", "Rc<Arc>", "Rc/temporaries-one-context", "Arc/temporaries-one-context", "Rc/context-cleared-and-reused", "Arc/context-cleared-and-reused"];

fn ptr_cfg(i: u8) -> SmartPtrConfig {
    match i {
        0 => SmartPtrConfig::new(),
        1 => SmartPtrConfig::performance_optimized(),
        2 => SmartPtrConfig::space_optimized(),
        _ => SmartPtrConfig::robust(),
    }
}

fn gen_ptr(_t: Tier, f: &mut dyn FnMut(PtrCase) -> bool) {
    for ptr in PTRS {
        for (ty, n) in [("u32", u32s().len()), ("String", strs().len()), ("i64", 9usize), ("Vec<u8>", 4usize)] {
            for idx in 0..n {
                for cfg in 0..4u8 {
                    if !f(PtrCase { ptr: ptr.to_string(), ty: ty.to_string(), idx, cfg }) {
                        return;
                    }
                }
            }
        }
    }
}

/// serialise with the high-level serializer + with an explicit context; decode from `bytes ++ 0x5A`;
/// `get` extracts the pointee (None = cannot be reached)
fn ptr_roundtrip<T, P>(label: &str, cfg: u8, p: &P, want: Option<&T>, get: impl Fn(&P) -> Option<T>) -> Result<usize, Fail>
where
    T: SerializableType + PartialEq + Debug + Clone,
    P: SmartPtrSerialize<T>,
{
    let s = SmartPtrSerializer::new(ptr_cfg(cfg));
    let bytes = must(s.serialize_to_bytes::<T, P>(p), "encode_err", label)?;
    // plain trait entry point produces the same bytes
    let mut o = VecDataOutput::new();
    must(SmartPtrSerialize::serialize(p, &mut o), "encode_err", label)?;
    ensure!(o.as_slice() == &bytes[..], "bytes", format!("{label}/serialize_vs_serializer"), "serialize() and SmartPtrSerializer produce different bytes: {} vs {}", brief(o.as_slice()), brief(&bytes));
    // decode alone
    let d: P = s.deserialize_from_bytes::<T, P>(&bytes).map_err(|e| bad("decode_err", label.to_string(), format!("decoding its own {} bytes {}: {e}", bytes.len(), brief(&bytes))))?;
    let got = get(&d);
    ensure!(got.as_ref() == want, "value", label.to_string(), "decoded pointee {:?}, original {:?}", got, want);
    // decode followed by another record: consumes exactly its own bytes
    let mut framed = bytes.clone();
    framed.extend_from_slice(&[0x5A, 0x00, 0x00, 0x00, 0x00, 0x00, 0x00, 0x00, 0x00]);
    let mut i = SliceDataInput::new(&framed);
    let mut ctx = DeserializationContext::new();
    let _d2: P = P::deserialize_with_context(&mut i, &mut ctx).map_err(|e| bad("decode_err", format!("{label}/framed"), format!("{e}")))?;
    ensure!(i.pos() == bytes.len(), "consumed", label.to_string(), "decoder consumed {} bytes, the encoder produced {}", i.pos(), bytes.len());
    Ok(bytes.len())
}

fn run_ptr_t<T: SerializableType + PartialEq + Debug + Clone + Send + Sync + 'static>(c: &PtrCase, v: T, w: T) -> R {
    let label = c.ptr.as_str();
    let n = match label {
        "Box" => ptr_roundtrip(label, c.cfg, &Box::new(v.clone()), Some(&v), |p: &Box<T>| Some((**p).clone()))?,
        "Option<Box>/Some" => ptr_roundtrip(label, c.cfg, &Some(Box::new(v.clone())), Some(&v), |p: &Option<Box<T>>| p.as_ref().map(|b| (**b).clone()))?,
        "Option<Box>/None" => ptr_roundtrip::<T, Option<Box<T>>>(label, c.cfg, &None, None, |p| p.as_ref().map(|b| (**b).clone()))?,
        "Rc" => ptr_roundtrip(label, c.cfg, &Rc::new(v.clone()), Some(&v), |p: &Rc<T>| Some((**p).clone()))?,
        "Arc" => ptr_roundtrip(label, c.cfg, &Arc::new(v.clone()), Some(&v), |p: &Arc<T>| Some((**p).clone()))?,
        "Weak<Rc>/live" => {
            let strong = Rc::new(v.clone());
            ptr_roundtrip(label, c.cfg, &Rc::downgrade(&strong), Some(&v), |p: &std::rc::Weak<T>| p.upgrade().map(|r| (*r).clone()))?
        }
        "Weak<Rc>/dangling" => {
            let weak = Rc::downgrade(&Rc::new(v.clone()));
            ptr_roundtrip::<T, std::rc::Weak<T>>(label, c.cfg, &weak, None, |p| p.upgrade().map(|r| (*r).clone()))?
        }
        "Weak<Arc>/live" => {
            let strong = Arc::new(v.clone());
            ptr_roundtrip(label, c.cfg, &Arc::downgrade(&strong), Some(&v), |p: &std::sync::Weak<T>| p.upgrade().map(|r| (*r).clone()))?
        }
        "Weak<Arc>/dangling" => {
            let weak = Arc::downgrade(&Arc::new(v.clone()));
            ptr_roundtrip::<T, std::sync::Weak<T>>(label, c.cfg, &weak, None, |p| p.upgrade().map(|r| (*r).clone()))?
        }
        "Rc/shared-twice" | "Arc/shared-twice" => {
            // the same object serialised twice with one context, then a different object; decoded with one context
            let mut o = VecDataOutput::new();
            let mut ctx = if c.cfg == 1 { SerializationContext::without_cycle_detection() } else { SerializationContext::new() };
            let mut cuts = Vec::new();
            if label.starts_with("Rc") {
                let a = Rc::new(v.clone());
                let b = Rc::new(w.clone());
                for p in [&a, &a.clone(), &b, &a] {
                    must(p.serialize_with_context(&mut o, &mut ctx), "encode_err", label)?;
                    cuts.push(o.len());
                }
                let bytes = o.into_vec();
                let mut i = SliceDataInput::new(&bytes);
                let mut dctx = DeserializationContext::new();
                for (k, want) in [&v, &v, &w, &v].into_iter().enumerate() {
                    let d = Rc::<T>::deserialize_with_context(&mut i, &mut dctx).map_err(|e| bad("decode_err", label.to_string(), format!("pointer {k}: {e}")))?;
                    ensure!(&*d == want, "value", label.to_string(), "pointer {k} decoded to {:?}, want {:?}", d, want);
                    ensure!(i.pos() == cuts[k], "consumed", label.to_string(), "after pointer {k} position {} but the encoder was at {}", i.pos(), cuts[k]);
                }
                bytes.len()
            } else {
                let a = Arc::new(v.clone());
                let b = Arc::new(w.clone());
                for p in [&a, &a.clone(), &b, &a] {
                    must(p.serialize_with_context(&mut o, &mut ctx), "encode_err", label)?;
                    cuts.push(o.len());
                }
                let bytes = o.into_vec();
                let mut i = SliceDataInput::new(&bytes);
                let mut dctx = DeserializationContext::new();
                for (k, want) in [&v, &v, &w, &v].into_iter().enumerate() {
                    let d = Arc::<T>::deserialize_with_context(&mut i, &mut dctx).map_err(|e| bad("decode_err", label.to_string(), format!("pointer {k}: {e}")))?;
                    ensure!(&*d == want, "value", label.to_string(), "pointer {k} decoded to {:?}, want {:?}", d, want);
                    ensure!(i.pos() == cuts[k], "consumed", label.to_string(), "after pointer {k} position {} but the encoder was at {}", i.pos(), cuts[k]);
                }
                bytes.len()
            }
        }
        "Rc/temporaries-one-context" | "Arc/temporaries-one-context" => {
            // (coverage audit) a stream of pointers written with one context where each pointer is a temporary that is
            // dropped before the next one is created (e.g. `Rc::new(item).serialize_with_context(..)` in a loop): the
            // allocator hands the same address to the next object
            let mut o = VecDataOutput::new();
            let mut ctx = if c.cfg == 1 { SerializationContext::without_cycle_detection() } else { SerializationContext::new() };
            let mut cuts = Vec::new();
            let mut same_address = false;
            let mut last_addr = 0usize;
            for x in [&v, &w, &v] {
                if label.starts_with("Rc") {
                    let p = Rc::new(x.clone());
                    same_address |= Rc::as_ptr(&p) as usize == last_addr;
                    last_addr = Rc::as_ptr(&p) as usize;
                    must(p.serialize_with_context(&mut o, &mut ctx), "encode_err", label)?;
                } else {
                    let p = Arc::new(x.clone());
                    same_address |= Arc::as_ptr(&p) as usize == last_addr;
                    last_addr = Arc::as_ptr(&p) as usize;
                    must(p.serialize_with_context(&mut o, &mut ctx), "encode_err", label)?;
                }
                cuts.push(o.len());
            }
            let bytes = o.into_vec();
            let mut i = SliceDataInput::new(&bytes);
            let class = format!("{label}/{}", if same_address && c.cfg != 1 { "address_reused" } else { "distinct_addresses_or_no_tracking" });
            if label.starts_with("Rc") {
                let mut dctx = DeserializationContext::new();
                for (k, want) in [&v, &w, &v].into_iter().enumerate() {
                    let d = Rc::<T>::deserialize_with_context(&mut i, &mut dctx).map_err(|e| bad("decode_err", class.clone(), format!("pointer {k}: {e}")))?;
                    ensure!(&*d == want, "value", class.clone(), "pointer {k} (a new object, written after the previous one was dropped) decoded to {:?}, the value written is {:?}", d, want);
                    ensure!(i.pos() == cuts[k], "consumed", class.clone(), "after pointer {k} position {} but the encoder was at {}", i.pos(), cuts[k]);
                }
            } else {
                let mut dctx = DeserializationContext::new();
                for (k, want) in [&v, &w, &v].into_iter().enumerate() {
                    let d = Arc::<T>::deserialize_with_context(&mut i, &mut dctx).map_err(|e| bad("decode_err", class.clone(), format!("pointer {k}: {e}")))?;
                    ensure!(&*d == want, "value", class.clone(), "pointer {k} (a new object, written after the previous one was dropped) decoded to {:?}, the value written is {:?}", d, want);
                    ensure!(i.pos() == cuts[k], "consumed", class.clone(), "after pointer {k} position {} but the encoder was at {}", i.pos(), cuts[k]);
                }
            }
            bytes.len()
        }
        "Rc/context-cleared-and-reused" | "Arc/context-cleared-and-reused" => {
            // (coverage audit) one SerializationContext / DeserializationContext pair used for two independent streams with
            // clear() in between: the second stream must be self-contained (no reference into the first one)
            let mut ctx = if c.cfg == 1 { SerializationContext::without_cycle_detection() } else { SerializationContext::new() };
            let mut streams: Vec<(Vec<u8>, Vec<usize>)> = Vec::new();
            if label.starts_with("Rc") {
                let (a, b) = (Rc::new(v.clone()), Rc::new(w.clone()));
                for order in [[&a, &b, &a], [&b, &a, &a]] {
                    let mut o = VecDataOutput::new();
                    let mut cuts = Vec::new();
                    for p in order {
                        must(p.serialize_with_context(&mut o, &mut ctx), "encode_err", label)?;
                        cuts.push(o.len());
                    }
                    streams.push((o.into_vec(), cuts));
                    ctx.clear();
                }
                let mut dctx = DeserializationContext::new();
                for (si, ((bytes, cuts), wants)) in streams.iter().zip([[&v, &w, &v], [&w, &v, &v]]).enumerate() {
                    let mut i = SliceDataInput::new(bytes);
                    for (k, want) in wants.into_iter().enumerate() {
                        let d = Rc::<T>::deserialize_with_context(&mut i, &mut dctx).map_err(|e| bad("decode_err", label.to_string(), format!("stream {si} pointer {k}: {e}")))?;
                        ensure!(&*d == want, "value", label.to_string(), "stream {si} pointer {k} decoded to {:?}, want {:?}", d, want);
                        ensure!(i.pos() == cuts[k], "consumed", label.to_string(), "stream {si}: after pointer {k} position {} but the encoder was at {}", i.pos(), cuts[k]);
                    }
                    dctx.clear();
                }
            } else {
                let (a, b) = (Arc::new(v.clone()), Arc::new(w.clone()));
                for order in [[&a, &b, &a], [&b, &a, &a]] {
                    let mut o = VecDataOutput::new();
                    let mut cuts = Vec::new();
                    for p in order {
                        must(p.serialize_with_context(&mut o, &mut ctx), "encode_err", label)?;
                        cuts.push(o.len());
                    }
                    streams.push((o.into_vec(), cuts));
                    ctx.clear();
                }
                let mut dctx = DeserializationContext::new();
                for (si, ((bytes, cuts), wants)) in streams.iter().zip([[&v, &w, &v], [&w, &v, &v]]).enumerate() {
                    let mut i = SliceDataInput::new(bytes);
                    for (k, want) in wants.into_iter().enumerate() {
                        let d = Arc::<T>::deserialize_with_context(&mut i, &mut dctx).map_err(|e| bad("decode_err", label.to_string(), format!("stream {si} pointer {k}: {e}")))?;
                        ensure!(&*d == want, "value", label.to_string(), "stream {si} pointer {k} decoded to {:?}, want {:?}", d, want);
                        ensure!(i.pos() == cuts[k], "consumed", label.to_string(), "stream {si}: after pointer {k} position {} but the encoder was at {}", i.pos(), cuts[k]);
                    }
                    dctx.clear();
                }
            }
            streams.iter().map(|s| s.0.len()).sum()
        }
        "Vec<Rc>" | "Box<Box>" | "Rc<Arc>" => {
            // SerializableType bridges, nested
            fn rt<X: SerializableType + PartialEq + Debug>(label: &str, x: &X) -> Result<usize, Fail> {
                let mut o = VecDataOutput::new();
                must(x.serialize(&mut o), "encode_err", label)?;
                let cut = o.len();
                must(o.write_u8(0x5A), "encode_err", label)?;
                let b = o.into_vec();
                let mut i = SliceDataInput::new(&b);
                let d = X::deserialize(&mut i).map_err(|e| bad("decode_err", label.to_string(), format!("{e}")))?;
                ensure!(&d == x, "value", label.to_string(), "decoded {:?}, original {:?}", d, x);
                ensure!(i.pos() == cut, "consumed", label.to_string(), "consumed {} of {cut}", i.pos());
                Ok(cut)
            }
            match label {
                "Vec<Rc>" => {
                    let shared = Rc::new(v.clone());
                    rt(label, &vec![shared.clone(), Rc::new(w.clone()), shared])?
                }
                "Box<Box>" => rt(label, &Box::new(Box::new(v.clone())))?,
                _ => rt(label, &Rc::new(Arc::new(v.clone())))?,
            }
        }
        other => panic!("ptr {other}"),
    };
    Ok(Outcome::pass(&format!("{}/{}/{}", c.ptr, c.ty, if n > 64 { "large" } else { "small" })))
}

fn run_ptr(c: &PtrCase) -> R {
    match c.ty.as_str() {
        "u32" => {
            let v = u32s();
            run_ptr_t(c, v[c.idx], v[(c.idx + 1) % v.len()])
        }
        "String" => {
            let v = strs();
            run_ptr_t(c, v[c.idx].clone(), v[(c.idx + 1) % v.len()].clone())
        }
        "i64" => {
            let v = [0i64, 1, -1, 255, -256, i64::MAX, i64::MIN, 1 << 32, -(1 << 32)];
            run_ptr_t(c, v[c.idx], v[(c.idx + 1) % v.len()])
        }
        "Vec<u8>" => {
            let v: Vec<Vec<u8>> = vec![vec![], vec![0], vec![0xFF; 128], (0..=255).collect()];
            run_ptr_t(c, v[c.idx].clone(), v[(c.idx + 1) % v.len()].clone())
        }
        other => panic!("type {other}"),
    }
}

// ---------------------------------------------------------------------------------------------
// versioning

#[derive(Serialize, Deserialize, Hash, Clone, Debug)]
pub enum VerCase {
    /// Version value round trip (major, minor, patch)
    Version(u16, u16, u16),
    /// versioned field: current version index, field min version index, reading version index (None = unset), value
    Field(usize, usize, Option<usize>, u32),
    /// proxy: current, min, max (None = open), value index into strs()
    Proxy(usize, usize, Option<usize>, usize),
    /// VersionedSerialize struct through the trait's own entry points: value a, value b
    Trait(u32, usize),
    /// VersionedSerialize struct through VersionedSerializer preset
    Serializer(u8, u32, usize),
}

fn vgrid() -> Vec<Version> {
    vec![Version::new(0, 9, 0), Version::new(1, 0, 0), Version::new(1, 1, 0), Version::new(1, 1, 1), Version::new(1, 2, 0), Version::new(2, 0, 0)]
}

fn gen_ver(_t: Tier, f: &mut dyn FnMut(VerCase) -> bool) {
    let parts = [0u16, 1, 2, 255, 256, 65535];
    for &a in &parts {
        for &b in &parts {
            for &c in &parts {
                if !f(VerCase::Version(a, b, c)) {
                    return;
                }
            }
        }
    }
    let n = vgrid().len();
    for cur in 0..n {
        for min in 0..n {
            for rd in std::iter::once(None).chain((0..n).map(Some)) {
                for v in [0u32, 1, u32::MAX] {
                    if !f(VerCase::Field(cur, min, rd, v)) {
                        return;
                    }
                }
            }
            for max in std::iter::once(None).chain((0..n).map(Some)) {
                for s in 0..strs().len() {
                    if !f(VerCase::Proxy(cur, min, max, s)) {
                        return;
                    }
                }
            }
        }
    }
    for a in u32s() {
        for s in 0..strs().len() {
            if !f(VerCase::Trait(a, s)) {
                return;
            }
            for cfg in 0..4u8 {
                if !f(VerCase::Serializer(cfg, a, s)) {
                    return;
                }
            }
        }
    }
}

/// A two-field record whose second field exists since 1.1.0 (the pattern of the module's own docs/tests).
#[derive(Debug, Clone, PartialEq)]
struct Rec {
    id: u32,
    note: String,
}

impl VersionedSerialize for Rec {
    fn current_version() -> Version {
        Version::new(1, 2, 0)
    }
    fn serialize_with_manager<O: DataOutput>(&self, m: &mut VersionManager, o: &mut O) -> zipora::Result<()> {
        m.register_field("note", Version::new(1, 1, 0));
        o.write_u32(self.id)?;
        m.serialize_field("note", &self.note, o)
    }
    fn deserialize_with_manager<I: DataInput>(m: &mut VersionManager, i: &mut I) -> zipora::Result<Self> {
        m.register_field("note", Version::new(1, 1, 0));
        let id = i.read_u32()?;
        let note: Option<String> = m.deserialize_field("note", i)?;
        Ok(Rec { id, note: note.unwrap_or_default() })
    }
}

fn run_ver(c: &VerCase) -> R {
    match c {
        VerCase::Version(a, b, p) => {
            let v = Version::new(*a, *b, *p);
            let class = if *a > 255 || *b > 255 { "major_or_minor>255" } else { "fits_packed_format" };
            // to_u32 / from_u32 are the documented packed format 0xMMmmpppp (8 bits for major and minor): the conversion is
            // only defined for versions that fit it; what the property states is the serialised round trip below
            if class == "fits_packed_format" {
                let back = Version::from_u32(v.to_u32());
                ensure!(back == v, "value", format!("version_packed/{class}"), "from_u32(to_u32({v})) = {back}");
            }
            let mut o = VecDataOutput::new();
            if class != "fits_packed_format" {
                // a version the format cannot represent may be refused by the encoder (then there is nothing to decode)
                if v.serialize(&mut o).is_err() {
                    return Ok(Outcome::skip("refused_unrepresentable_version"));
                }
                o = VecDataOutput::new();
            }
            must(v.serialize(&mut o), "encode_err", "version")?;
            must(Version::new(1, 2, 3).serialize(&mut o), "encode_err", "version")?;
            let bytes = o.into_vec();
            let mut i = SliceDataInput::new(&bytes);
            let d = must(Version::deserialize(&mut i), "decode_err", "version")?;
            ensure!(d == v, "value", format!("version/{class}"), "deserialize(serialize({v})) = {d}");
            ensure!(i.pos() == 4, "consumed", "version", "consumed {}", i.pos());
            let d2 = must(Version::deserialize(&mut i), "decode_err", "version")?;
            ensure!(d2 == Version::new(1, 2, 3) && i.pos() == 8, "concat", "version", "second version {d2}");
            Ok(Outcome::pass(class))
        }
        VerCase::Field(cur, min, rd, val) => {
            let g = vgrid();
            let mut m = VersionManager::new(g[*cur]);
            m.register_field("f", g[*min]);
            if let Some(r) = rd {
                m.set_reading_version(g[*r]);
            }
            let mut o = VecDataOutput::new();
            must(m.serialize_field("f", val, &mut o), "encode_err", "field")?;
            let cut = o.len();
            must(m.serialize_field("unregistered", &7u8, &mut o), "encode_err", "field")?;
            let bytes = o.into_vec();
            let written = g[*cur] >= g[*min];
            ensure!(cut == if written { 5 } else { 1 }, "bytes", "field/presence", "field min {} at current {}: wrote {cut} bytes", g[*min], g[*cur]);
            let mut i = SliceDataInput::new(&bytes);
            let d: Option<u32> = must(m.deserialize_field("f", &mut i), "decode_err", "field")?;
            let readable = m.reading_version() >= g[*min];
            let want = if written && readable { Some(*val) } else { None };
            ensure!(d == want, "value", "field", "cur {} min {} reading {}: decoded {:?} want {:?}", g[*cur], g[*min], m.reading_version(), d, want);
            ensure!(i.pos() == cut, "consumed", "field", "consumed {} of the field's {cut} bytes", i.pos());
            let d2: Option<u8> = must(m.deserialize_field("unregistered", &mut i), "decode_err", "field")?;
            ensure!(d2 == Some(7) && i.pos() == bytes.len(), "concat", "field", "following field decoded {:?}", d2);
            Ok(Outcome::pass(&format!("field/written={written}/readable={readable}")))
        }
        VerCase::Proxy(cur, min, max, s) => {
            let g = vgrid();
            let val = strs()[*s].clone();
            let m = VersionManager::new(g[*cur]);
            let proxy = match max {
                Some(mx) => VersionProxy::with_range(val.clone(), g[*min], g[*mx]),
                None => VersionProxy::new(val.clone(), g[*min]),
            };
            let inside = g[*cur] >= g[*min] && max.map_or(true, |mx| g[*cur] <= g[mx]);
            ensure!(proxy.should_serialize(&g[*cur]) == inside, "value", "proxy/should_serialize", "should_serialize({}) = {}", g[*cur], !inside);
            let mut o = VecDataOutput::new();
            must(m.serialize_proxy(&proxy, &mut o), "encode_err", "proxy")?;
            let cut = o.len();
            must(o.write_u8(1), "encode_err", "proxy")?;
            let bytes = o.into_vec();
            let mut i = SliceDataInput::new(&bytes);
            let d: Option<VersionProxy<String>> = must(m.deserialize_proxy(g[*min], &mut i), "decode_err", "proxy")?;
            let got = d.map(|p| p.into_data());
            let want = if inside { Some(val.clone()) } else { None };
            ensure!(got == want, "value", "proxy", "decoded {:?} want {:?}", got.as_ref().map(|s| s.len()), want.as_ref().map(|s| s.len()));
            ensure!(i.pos() == cut, "consumed", "proxy", "consumed {} of {cut}", i.pos());
            // VersionProxy as a plain SerializableType
            let mut o = VecDataOutput::new();
            must(proxy.serialize(&mut o), "encode_err", "proxy")?;
            let b = o.into_vec();
            let mut i = SliceDataInput::new(&b);
            let d = must(VersionProxy::<String>::deserialize(&mut i), "decode_err", "proxy")?;
            ensure!(d.data() == &val && i.pos() == b.len(), "value", "proxy/serializable_type", "plain proxy round trip");
            Ok(Outcome::pass(&format!("proxy/inside={inside}")))
        }
        VerCase::Trait(a, s) => {
            let rec = Rec { id: *a, note: strs()[*s].clone() };
            let mut o = VecDataOutput::new();
            must(rec.serialize_versioned(&mut o), "encode_err", "trait")?;
            let cut = o.len();
            must(o.write_u32(0xDEAD_BEEF), "encode_err", "trait")?;
            let bytes = o.into_vec();
            let mut i = SliceDataInput::new(&bytes);
            let d = Rec::deserialize_versioned(&mut i).map_err(|e| bad("decode_err", "serialize_versioned/deserialize_versioned", format!("deserialize_versioned on the bytes of serialize_versioned: {e}")))?;
            ensure!(d == rec, "value", "serialize_versioned/deserialize_versioned", "decoded {:?} (note {} bytes), original id {} note {} bytes", d.id, d.note.len(), rec.id, rec.note.len());
            ensure!(i.pos() == cut, "consumed", "serialize_versioned/deserialize_versioned", "consumed {} of {cut}", i.pos());
            Ok(Outcome::pass("trait"))
        }
        VerCase::Serializer(cfg, a, s) => {
            let rec = Rec { id: *a, note: strs()[*s].clone() };
            let ser = VersionedSerializer::new(match cfg {
                0 => VersionConfig::new(),
                1 => VersionConfig::strict(),
                2 => VersionConfig::flexible(),
                _ => VersionConfig::development(),
            });
            let bytes = must(ser.serialize_to_bytes(&rec), "encode_err", "serializer")?;
            let d: Rec = ser.deserialize_from_bytes(&bytes).map_err(|e| bad("decode_err", format!("serializer[{cfg}]"), format!("{e}")))?;
            ensure!(d == rec, "value", format!("serializer[{cfg}]"), "decoded id {} note {} bytes", d.id, d.note.len());
            Ok(Outcome::pass(&format!("serializer[{cfg}]")))
        }
    }
}

pub fn register(reg: &mut Registry) {
    reg.add(fam(
        "Endian",
        "14 primitive types x {Little,Big,Native} x 19 bit patterns (0,1,sign bits, distinct-byte words, quiet/signalling NaNs and their byte swaps, MAX) at an unaligned offset of a canary buffer; bulk slice conversions of length {0,1,3,4,7,8,9,16,17}; SSE2 bulk u16/u32 conversions applied twice",
        gen_end,
        run_end,
    ));
    reg.add(fam(
        "ComplexSerialize",
        "20 types (unit, tuples of arity 1,2,3,12, arrays [T;0],[u16;3],[String;2], Option, nested Option, Result, HashMap, HashSet, BTreeMap, BTreeSet, nested map of vec of option) x their value lists built from the integer grid and strings of byte length {0,1,127,128,16383,16384} (+NUL, 2-byte char); data-only, concatenation of two values, with metadata, nested, ComplexTypeSerializer x 5 presets incl. batches of 0..3; coverage audit: collections of 1023/1024/1025 elements and batches of 1025 values (the deserialisers reserve at most 1024 up front)",
        gen_complex,
        run_complex,
    ));
    reg.add(fam(
        "SmartPtr",
        "18 pointer shapes (Box, Option<Box> Some/None, Rc, Arc, same Rc/Arc serialised repeatedly with one context, three temporary Rc/Arc serialised one after the other with one context, one context pair cleared and reused for a second stream (coverage audit), Weak<Rc>/Weak<Arc> live and dangling, Vec<Rc>, Box<Box>, Rc<Arc>) x pointee types {u32 (7 values), String (8: byte length {0,1,127,128,16383,16384}, NUL, 2-byte), i64 (9), Vec<u8> (4)} x 4 SmartPtrConfig presets; decoded alone and followed by another record",
        gen_ptr,
        run_ptr,
    ));
    reg.add(fam(
        "Versioning",
        "Version::new over {0,1,2,255,256,65535}^3 (packed + serialised + concatenated); serialize_field/deserialize_field over 6 versions^2 x reading version {unset, 6} x 3 values; serialize_proxy/deserialize_proxy over 6^2 x max {open, 6} x 8 strings; a two-field VersionedSerialize record through serialize_versioned/deserialize_versioned and through VersionedSerializer x 4 presets, 7 ids x 8 strings",
        gen_ver,
        run_ver,
    ));
}
