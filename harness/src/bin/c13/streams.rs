//! RangeReader/RangeWriter/MultiRangeReader, StreamBufferedReader/Writer, zero_copy readers/writers,
//! VectoredIO: a wrapped reader yields exactly the inner bytes of its range, a wrapped writer stores
//! exactly the bytes written, in order.

use crate::{bad, ensure, fam, must, TmpFile, R};
use serde::{Deserialize, Serialize};
use std::fs::File;
use std::io::{BufRead, Cursor, IoSlice, IoSliceMut, Read, Seek, SeekFrom, Write};
use zipora::io::range_stream::MultiRangeReader;
use zipora::io::zero_copy::mmap::MmapZeroCopyReader;
use zipora::io::{
    DataInput, RangeReader, RangeWriter, StreamBufferConfig, StreamBufferedReader, StreamBufferedWriter, VectoredIO, ZeroCopyBuffer,
    ZeroCopyRead, ZeroCopyReader, ZeroCopyWrite, ZeroCopyWriter,
};
use zverif::util::{all_strings, brief};
use zverif::{Fail, Outcome, Registry, Tier};

fn source(n: usize) -> Vec<u8> {
    (0..n).map(|i| (i as u8).wrapping_mul(3).wrapping_add(1)).collect()
}

/// read until EOF with reads of `chunk` bytes (bounded number of calls)
fn drain<Rd: Read>(r: &mut Rd, chunk: usize, limit: usize) -> Result<Vec<u8>, String> {
    let mut out = Vec::new();
    let mut buf = vec![0u8; chunk.max(1)];
    for _ in 0..limit {
        match r.read(&mut buf) {
            Ok(0) => return Ok(out),
            Ok(n) => {
                if n > buf.len() {
                    return Err(format!("read returned {n} for a {}-byte buffer", buf.len()));
                }
                out.extend_from_slice(&buf[..n]);
            }
            Err(e) => return Err(format!("read error: {e}")),
        }
    }
    Err("no EOF after the call limit".into())
}

// ---------------------------------------------------------------------------------------------
// RangeReader

#[derive(Serialize, Deserialize, Hash, Clone, Debug)]
pub struct RrCase {
    ctor: String,
    off: u64,
    len: u64,
    /// 0 = read_to_end; otherwise cyclic read sizes
    pat: u8,
    /// optional seek before reading: (kind 0=Start,1=Current,2=End, amount)
    seek: Option<(u8, i64)>,
}

const FILE_LEN: usize = 12;
const RR_CTORS: &[&str] = &["new_and_seek(Cursor)", "range::reader(File)", "new(pre-positioned Cursor)", "with_range(pre-positioned Cursor)", "new(pre-positioned)+set_total_size"];

fn gen_rr(_t: Tier, f: &mut dyn FnMut(RrCase) -> bool) {
    for ctor in RR_CTORS {
        for off in 0..=(FILE_LEN as u64 + 1) {
            for len in 0..=(FILE_LEN as u64 + 1) {
                for pat in 0..4u8 {
                    if !f(RrCase { ctor: ctor.to_string(), off, len, pat, seek: None }) {
                        return;
                    }
                }
                if *ctor == "new_and_seek(Cursor)" || *ctor == "range::reader(File)" {
                    let mut seeks: Vec<(u8, i64)> = Vec::new();
                    for p in 0..=(len as i64 + 1) {
                        seeks.push((0, p));
                    }
                    for p in [-1i64, 0, 1, 2] {
                        seeks.push((1, p));
                        seeks.push((2, -p));
                    }
                    for s in seeks {
                        if !f(RrCase { ctor: ctor.to_string(), off, len, pat: 1, seek: Some(s) }) {
                            return;
                        }
                    }
                }
            }
        }
    }
}

fn read_pattern<Rd: Read>(r: &mut Rd, pat: u8) -> Result<Vec<u8>, String> {
    match pat {
        0 => {
            let mut v = Vec::new();
            r.read_to_end(&mut v).map_err(|e| e.to_string())?;
            Ok(v)
        }
        1 => drain(r, 1, 200),
        2 => drain(r, 5, 200),
        _ => {
            // cyclic 2,0,7
            let mut out = Vec::new();
            let sizes = [2usize, 7, 1, 13];
            for k in 0..200 {
                let mut b = vec![0u8; sizes[k % 4]];
                match r.read(&mut b) {
                    Ok(0) => return Ok(out),
                    Ok(n) => out.extend_from_slice(&b[..n]),
                    Err(e) => return Err(e.to_string()),
                }
            }
            Err("no EOF".into())
        }
    }
}

fn run_rr(c: &RrCase) -> R {
    let data = source(FILE_LEN);
    let n = FILE_LEN as u64;
    let lo = c.off.min(n) as usize;
    let hi = (c.off + c.len).min(n) as usize;
    let want_all = &data[lo..hi];
    let class = format!("{}/{}", c.ctor, if c.off + c.len > n { "range_past_eof" } else { "range_inside" });
    macro_rules! go {
        ($r:expr, $seekable:expr) => {{
            let mut r = $r;
            ensure!(r.start_position() == c.off && r.range_length() == c.len.min(r.end_position() - c.off) && r.current_position() == c.off, "range", format!("{class}/accessors"), "start {} len {} cur {}", r.start_position(), r.range_length(), r.current_position());
            let mut skip_front = 0usize;
            #[allow(unused_assignments)]
            if let Some((kind, amt)) = c.seek {
                if $seekable {
                    // position (relative to the range) after the seek, clamped to the range
                    let cur = 0i64;
                    let target = match kind { 0 => amt, 1 => cur + amt, _ => c.len as i64 + amt };
                    let clamped = target.clamp(0, c.len as i64) as u64;
                    skip_front = clamped as usize;
                }
            }
            Ok::<_, Fail>((r, skip_front))
        }};
    }
    // the seek variants only run for Seek-capable constructors; handled per constructor below
    let (got, rel_after_seek): (Result<Vec<u8>, String>, usize) = match c.ctor.as_str() {
        "new_and_seek(Cursor)" => {
            let (mut r, rel) = go!(must(RangeReader::new_and_seek(Cursor::new(data.clone()), c.off, c.len), "construct", &class)?, true)?;
            if let Some((kind, amt)) = c.seek {
                let sf = match kind { 0 => SeekFrom::Start(amt as u64), 1 => SeekFrom::Current(amt), _ => SeekFrom::End(amt) };
                let p = must(r.seek(sf), "read_err", &format!("{class}/seek"))?;
                ensure!(p == rel as u64, "range", format!("{class}/seek_position"), "seek({:?}) returned {p}, want {rel} (range-relative, clamped)", sf);
                ensure!(r.current_position() == c.off + rel as u64, "range", format!("{class}/seek_position"), "current_position() = {}", r.current_position());
            }
            (read_pattern(&mut r, c.pat), rel)
        }
        "range::reader(File)" => {
            let t = TmpFile::with_bytes("rr", &data);
            let (mut r, rel) = go!(must(zipora::io::range::reader(File::open(&t.0).expect("open"), c.off, c.len), "construct", &class)?, true)?;
            if let Some((kind, amt)) = c.seek {
                let sf = match kind { 0 => SeekFrom::Start(amt as u64), 1 => SeekFrom::Current(amt), _ => SeekFrom::End(amt) };
                let p = must(r.seek(sf), "read_err", &format!("{class}/seek"))?;
                ensure!(p == rel as u64, "range", format!("{class}/seek_position"), "seek({:?}) returned {p}, want {rel}", sf);
            }
            (read_pattern(&mut r, c.pat), rel)
        }
        "new(pre-positioned Cursor)" => {
            let mut cur = Cursor::new(data.clone());
            cur.set_position(c.off);
            let (mut r, _) = go!(RangeReader::new(cur, c.off, c.len), false)?;
            let g = read_pattern(&mut r, c.pat);
            if let Ok(ref v) = g {
                ensure!(r.current_position() == c.off + v.len() as u64, "range", format!("{class}/current_position"), "current_position() = {} after {} bytes from {}", r.current_position(), v.len(), c.off);
            }
            (g, 0)
        }
        "with_range(pre-positioned Cursor)" => {
            let mut cur = Cursor::new(data.clone());
            cur.set_position(c.off);
            let (mut r, _) = go!(RangeReader::with_range(cur, c.off, c.off + c.len), false)?;
            (read_pattern(&mut r, c.pat), 0)
        }
        _ => {
            let mut cur = Cursor::new(data.clone());
            cur.set_position(c.off);
            let mut r = RangeReader::new(cur, c.off, c.len);
            r.set_total_size(n);
            ensure!(r.end_position() == (c.off + c.len).min(n), "range", format!("{class}/set_total_size"), "end_position() = {}", r.end_position());
            let g = read_pattern(&mut r, c.pat);
            if g.is_ok() && c.off <= n {
                ensure!(r.is_at_end() && r.remaining() == 0, "range", format!("{class}/is_at_end"), "after reading everything remaining() = {}", r.remaining());
            }
            (g, 0)
        }
    };
    let got = got.map_err(|e| bad("read_err", class.clone(), e))?;
    let want = &want_all[rel_after_seek.min(want_all.len())..];
    ensure!(got == want, "range", class, "range (off {}, len {}) of {} yielded {} want {}", c.off, c.len, brief(&data), brief(&got), brief(want));
    Ok(if want.is_empty() { Outcome::trivial("empty") } else { Outcome::pass(if c.seek.is_some() { "seek" } else { "plain" }) })
}

/// The constructor as used in the type's own doc example: `RangeReader::new(Cursor::new(data), 7, 5) // "World"`.
fn run_rr_doc(c: &RrCase) -> R {
    let data = source(FILE_LEN);
    let n = FILE_LEN as u64;
    let mut r = RangeReader::new(Cursor::new(data.clone()), c.off, c.len);
    let got = read_pattern(&mut r, c.pat).map_err(|e| bad("read_err", "doc_example", e))?;
    let want = &data[c.off.min(n) as usize..(c.off + c.len).min(n) as usize];
    let class = if c.off > 0 { "start>0" } else { "start=0" };
    ensure!(got == want, "range", class, "RangeReader::new(fresh cursor, {}, {}) yielded {} — bytes {}..{} are {}", c.off, c.len, brief(&got), c.off, c.off + c.len, brief(want));
    Ok(if want.is_empty() { Outcome::trivial("empty") } else { Outcome::pass(class) })
}

/// RangeReader as DataInput: primitives at the range boundary
fn run_rr_di(c: &RrCase) -> R {
    let data = source(FILE_LEN);
    let n = FILE_LEN as u64;
    if c.off + c.len > n {
        return Ok(Outcome::skip("range past EOF: DataInput semantics undefined"));
    }
    let want = &data[c.off as usize..(c.off + c.len) as usize];
    let mut r = must(RangeReader::new_and_seek(Cursor::new(data.clone()), c.off, c.len), "construct", "di")?;
    let mut pos = 0usize;
    // pat selects the primitive width sequence
    let widths: &[usize] = match c.pat { 0 => &[1], 1 => &[2, 1], 2 => &[4, 2, 1], _ => &[8, 4, 2, 1] };
    let mut k = 0;
    loop {
        let w = widths[k % widths.len()];
        k += 1;
        let avail = want.len() - pos;
        let res: Result<u64, _> = match w {
            1 => r.read_u8().map(|v| v as u64),
            2 => r.read_u16().map(|v| v as u64),
            4 => r.read_u32().map(|v| v as u64),
            _ => r.read_u64(),
        };
        if w > avail {
            ensure!(res.is_err(), "range", "datainput/read_past_range_end", "a {w}-byte read succeeded with {avail} bytes left in the range");
            ensure!(DataInput::position(&r) == Some(pos as u64), "consumed", "datainput/refused_read_moved", "refused read moved position to {:?}", DataInput::position(&r));
            if w == 1 {
                break;
            }
            continue;
        }
        let v = must(res, "read_err", "datainput")?;
        let mut le = [0u8; 8];
        le[..w].copy_from_slice(&want[pos..pos + w]);
        ensure!(v == u64::from_le_bytes(le), "value", format!("datainput/u{}", w * 8), "read {v:#x} at range offset {pos}, want {:#x}", u64::from_le_bytes(le));
        pos += w;
        ensure!(DataInput::position(&r) == Some(pos as u64), "consumed", "datainput/position", "position() = {:?} want {pos}", DataInput::position(&r));
        ensure!(r.has_remaining() == Some(pos < want.len()), "consumed", "datainput/has_remaining", "has_remaining() = {:?} at {pos}/{}", r.has_remaining(), want.len());
        if k > 100 {
            break;
        }
    }
    ensure!(pos == want.len(), "range", "datainput/short", "stopped at {pos} of {}", want.len());
    Ok(if want.is_empty() { Outcome::trivial("empty") } else { Outcome::pass("datainput") })
}

// ---------------------------------------------------------------------------------------------
// (coverage audit) RangeReader / RangeWriter histories: read - seek - read on ONE object, reset, seek_in_range,
// DataInput calls interleaved with Read calls; writer: write - seek back - overwrite

#[derive(Serialize, Deserialize, Hash, Clone, Debug, PartialEq)]
pub enum RgOp {
    Read(usize),
    SeekStart(u64),
    SeekCur(i64),
    SeekEnd(i64),
    Reset,
    SeekInRange(u64),
    /// DataInput::read_u16
    U16,
    /// DataInput::skip
    Skip(usize),
    /// writer only
    Write(usize),
}

#[derive(Serialize, Deserialize, Hash, Clone, Debug)]
pub struct RgCase {
    ctor: String,
    off: u64,
    len: u64,
    ops: Vec<RgOp>,
}

fn gen_rgr(tier: Tier, f: &mut dyn FnMut(RgCase) -> bool) {
    let ops = vec![
        RgOp::Read(1),
        RgOp::Read(4),
        RgOp::SeekStart(0),
        RgOp::SeekStart(2),
        RgOp::SeekCur(-1),
        RgOp::SeekCur(2),
        RgOp::SeekEnd(-1),
        RgOp::SeekEnd(1),
        RgOp::Reset,
        RgOp::SeekInRange(1),
        RgOp::U16,
        RgOp::Skip(2),
    ];
    let depth = tier.pick(3, 4);
    for ctor in ["new_and_seek(Cursor)", "range::reader(File)"] {
        // inside the source, at its start, reaching past its end, empty
        for (off, len) in [(3u64, 6u64), (0, 12), (8, 9), (5, 0)] {
            if !all_strings(&ops, depth, &mut |o| f(RgCase { ctor: ctor.to_string(), off, len, ops: o.to_vec() })) {
                return;
            }
        }
    }
}

fn run_rgr_on<Rd: Read + Seek>(mut r: RangeReader<Rd>, c: &RgCase) -> R {
    let data = source(FILE_LEN);
    let n = FILE_LEN as u64;
    let end = c.off + c.len;
    // position relative to the range start, 0..=len
    let mut rel = 0u64;
    let past = if end > n { "range_past_eof" } else { "range_inside" };
    for (k, op) in c.ops.iter().enumerate() {
        let abs = c.off + rel;
        // bytes the source really has between the position and the range end
        let avail = &data[abs.min(n) as usize..end.min(n).max(abs.min(n)) as usize];
        match op {
            RgOp::Read(sz) => {
                let mut buf = vec![0xAAu8; *sz];
                let m = r.read(&mut buf).map_err(|e| bad("read_err", past, format!("op #{k} read({sz}) at range offset {rel}: {e}")))?;
                ensure!(m <= *sz && m <= avail.len() && buf[..m] == avail[..m], "range", format!("history/wrong_bytes/{past}"), "op #{k} read({sz}) at range offset {rel} of range ({}, {}) after {:?}: got {} want a prefix of {}", c.off, c.len, &c.ops[..k], brief(&buf[..m]), brief(avail));
                ensure!(m > 0 || avail.is_empty(), "range", format!("history/premature_eof/{past}"), "op #{k} read({sz}) at range offset {rel} returned 0 with {} bytes left in the range", avail.len());
                rel += m as u64;
            }
            RgOp::SeekStart(_) | RgOp::SeekCur(_) | RgOp::SeekEnd(_) => {
                let (sf, target) = match op {
                    RgOp::SeekStart(p) => (SeekFrom::Start(*p), *p as i64),
                    RgOp::SeekCur(d) => (SeekFrom::Current(*d), rel as i64 + d),
                    RgOp::SeekEnd(d) => (SeekFrom::End(*d), c.len as i64 + d),
                    _ => unreachable!(),
                };
                let want = target.clamp(0, c.len as i64) as u64;
                let p = r.seek(sf).map_err(|e| bad("read_err", past, format!("op #{k} seek({:?}): {e}", sf)))?;
                ensure!(p == want, "range", format!("history/seek_position/{past}"), "op #{k} seek({:?}) at range offset {rel} of a {}-byte range returned {p}, want {want} (range-relative, clamped) after {:?}", sf, c.len, &c.ops[..k]);
                rel = want;
            }
            RgOp::Reset => {
                r.reset().map_err(|e| bad("read_err", past, format!("op #{k} reset: {e}")))?;
                rel = 0;
            }
            RgOp::SeekInRange(p) => match r.seek_in_range(*p) {
                Ok(g) => {
                    ensure!(*p <= c.len && g == *p, "range", format!("history/seek_position/{past}"), "op #{k} seek_in_range({p}) in a {}-byte range returned {g}", c.len);
                    rel = *p;
                }
                // refused (the position is not inside the range): nothing moves
                Err(_) => ensure!(*p >= c.len, "read_err", past, "op #{k} seek_in_range({p}) refused in a {}-byte range", c.len),
            },
            RgOp::U16 => {
                let left = c.len - rel;
                match r.read_u16() {
                    Ok(g) => {
                        ensure!(left >= 2 && avail.len() >= 2 && g == u16::from_le_bytes([avail[0], avail[1]]), "range", format!("history/wrong_bytes/{past}"), "op #{k} read_u16 at range offset {rel} = {g:#x} with {} bytes available ({}) after {:?}", avail.len(), brief(avail), &c.ops[..k]);
                        rel += 2;
                    }
                    Err(e) => {
                        ensure!(avail.len() < 2, "read_err", past, "op #{k} read_u16 at range offset {rel} with {} bytes available: {e}", avail.len());
                        if left >= 2 {
                            // the range reaches past the end of the source: read_exact may have consumed the tail
                            return Ok(Outcome::pass("history/source_shorter_than_range"));
                        }
                    }
                }
            }
            RgOp::Skip(sz) => {
                let left = c.len - rel;
                match DataInput::skip(&mut r, *sz) {
                    Ok(()) => {
                        ensure!(left >= *sz as u64, "range", format!("history/skip_past_end/{past}"), "op #{k} skip({sz}) succeeded with {left} bytes left in the range");
                        rel += *sz as u64;
                    }
                    Err(e) => {
                        ensure!(avail.len() < *sz, "read_err", past, "op #{k} skip({sz}) at range offset {rel} with {} bytes available: {e}", avail.len());
                        if left >= *sz as u64 {
                            return Ok(Outcome::pass("history/source_shorter_than_range"));
                        }
                    }
                }
            }
            RgOp::Write(_) => {}
        }
        ensure!(r.current_position() == c.off + rel && DataInput::position(&r) == Some(rel) && r.remaining() == c.len - rel && r.is_at_end() == (rel == c.len), "range", format!("history/accessors/{past}"), "after op #{k} {:?}: current_position() = {}, position() = {:?}, remaining() = {} — the history {:?} leaves the reader at range offset {rel} of {}", op, r.current_position(), DataInput::position(&r), r.remaining(), &c.ops[..=k], c.len);
    }
    let abs = c.off + rel;
    let want = &data[abs.min(n) as usize..end.min(n).max(abs.min(n)) as usize];
    let got = drain(&mut r, 5, 200).map_err(|e| bad("read_err", past, e))?;
    ensure!(got == want, "range", format!("history/rest/{past}"), "after {:?} the rest of range ({}, {}) reads {} want {}", c.ops, c.off, c.len, brief(&got), brief(want));
    Ok(if c.ops.is_empty() { Outcome::trivial("empty-history") } else { Outcome::pass(&format!("history/{past}")) })
}

fn run_rgr(c: &RgCase) -> R {
    let data = source(FILE_LEN);
    match c.ctor.as_str() {
        "new_and_seek(Cursor)" => run_rgr_on(must(RangeReader::new_and_seek(Cursor::new(data), c.off, c.len), "construct", "history")?, c),
        _ => {
            let t = TmpFile::with_bytes("rgh", &data);
            run_rgr_on(must(zipora::io::range::reader(File::open(&t.0).expect("open"), c.off, c.len), "construct", "history")?, c)
        }
    }
}

fn gen_rgw(tier: Tier, f: &mut dyn FnMut(RgCase) -> bool) {
    let ops = vec![RgOp::Write(1), RgOp::Write(3), RgOp::Write(7), RgOp::SeekStart(0), RgOp::SeekStart(2), RgOp::SeekCur(-1), RgOp::SeekCur(2), RgOp::SeekEnd(-1), RgOp::SeekEnd(0)];
    let depth = tier.pick(4, 5);
    for ctor in ["range::writer", "new(pre-positioned)", "with_range(pre-positioned)"] {
        for (off, len) in [(3u64, 5u64), (0, 12), (10, 5)] {
            if !all_strings(&ops, depth, &mut |o| {
                // the constructors without Seek bounds are only exercised without seeks
                if ctor != "range::writer" && o.iter().any(|x| !matches!(x, RgOp::Write(_))) {
                    return true;
                }
                f(RgCase { ctor: ctor.to_string(), off, len, ops: o.to_vec() })
            }) {
                return;
            }
        }
    }
}

fn run_rgw(c: &RgCase) -> R {
    let base = Cursor::new(vec![0xEEu8; FILE_LEN]);
    let mut w = match c.ctor.as_str() {
        "range::writer" => must(zipora::io::range::writer(base, c.off, c.len), "construct", "range_writer")?,
        "new(pre-positioned)" => {
            let mut b = base;
            b.set_position(c.off);
            RangeWriter::new(b, c.off, c.len)
        }
        _ => {
            let mut b = base;
            b.set_position(c.off);
            RangeWriter::with_range(b, c.off, c.off + c.len)
        }
    };
    ensure!(w.start_position() == c.off && w.end_position() == c.off + c.len && w.range_length() == c.len, "range", "writer/accessors", "start {} end {} len {}", w.start_position(), w.end_position(), w.range_length());
    let mut model = vec![0xEEu8; FILE_LEN];
    let mut rel = 0u64;
    let mut total = 0u64;
    let mut next = 1u8;
    for (k, op) in c.ops.iter().enumerate() {
        match op {
            RgOp::Write(sz) => {
                let chunk: Vec<u8> = (0..*sz).map(|i| next.wrapping_add(i as u8)).collect();
                let m = must(w.write(&chunk), "write_err", "range_writer")?;
                let room = (c.len - rel) as usize;
                ensure!(m == (*sz).min(room), "range", "writer/history/accepted", "op #{k} write({sz}) at range offset {rel} of {} accepted {m} bytes, want {} (history {:?})", c.len, (*sz).min(room), &c.ops[..k]);
                if m > 0 {
                    let a = (c.off + rel) as usize;
                    if model.len() < a + m {
                        model.resize(a + m, 0);
                    }
                    model[a..a + m].copy_from_slice(&chunk[..m]);
                }
                rel += m as u64;
                total += m as u64;
                next = next.wrapping_add(m as u8);
            }
            RgOp::SeekStart(_) | RgOp::SeekCur(_) | RgOp::SeekEnd(_) => {
                let (sf, target) = match op {
                    RgOp::SeekStart(p) => (SeekFrom::Start(*p), *p as i64),
                    RgOp::SeekCur(d) => (SeekFrom::Current(*d), rel as i64 + d),
                    RgOp::SeekEnd(d) => (SeekFrom::End(*d), c.len as i64 + d),
                    _ => unreachable!(),
                };
                let want = target.clamp(0, c.len as i64) as u64;
                let p = must(w.seek(sf), "write_err", "range_writer/seek")?;
                ensure!(p == want, "range", "writer/history/seek_position", "op #{k} seek({:?}) at range offset {rel} of a {}-byte range returned {p}, want {want} (history {:?})", sf, c.len, &c.ops[..k]);
                rel = want;
            }
            _ => {}
        }
        ensure!(w.bytes_written() == total && w.current_position() == c.off + rel && w.remaining() == c.len - rel && w.is_at_end() == (rel == c.len), "range", "writer/history/counters", "after op #{k} {:?}: bytes_written {} current {} remaining {} — want {total}, {}, {}", op, w.bytes_written(), w.current_position(), w.remaining(), c.off + rel, c.len - rel);
    }
    must(w.flush(), "write_err", "range_writer")?;
    let inner = w.into_inner().into_inner();
    ensure!(inner == model, "range", "writer/history/content", "history {:?} on range ({}, {}): inner holds {} want {}", c.ops, c.off, c.len, brief(&inner), brief(&model));
    Ok(if total == 0 { Outcome::trivial("nothing") } else { Outcome::pass(&format!("{}/{}", c.ctor, if c.ops.iter().any(|o| !matches!(o, RgOp::Write(_))) { "seek" } else { "plain" })) })
}

// ---------------------------------------------------------------------------------------------
// MultiRangeReader

#[derive(Serialize, Deserialize, Hash, Clone, Debug)]
pub struct MrCase {
    ranges: Vec<(u64, u64)>,
    chunk: usize,
    /// (coverage audit) 0 = all ranges given to the constructor; 1 = the last range is added with add_range() after
    /// one read; 2 = after one read next_range() is called: the rest of the first range is skipped
    #[serde(default)]
    late: u8,
}

fn gen_mr(tier: Tier, f: &mut dyn FnMut(MrCase) -> bool) {
    let pts: &[u64] = if tier == Tier::Quick { &[0, 1, 5, 11, 12, 14] } else { &[0, 1, 2, 5, 7, 11, 12, 13, 14] };
    let mut rs: Vec<(u64, u64)> = Vec::new();
    for &a in pts {
        for &b in pts {
            if a <= b {
                rs.push((a, b));
            }
        }
    }
    all_strings(&rs, 2, &mut |l| {
        for chunk in [1usize, 3, 64] {
            if !f(MrCase { ranges: l.to_vec(), chunk, late: 0 }) {
                return false;
            }
            if l.len() == 2 && chunk != 64 {
                for late in [1u8, 2] {
                    if !f(MrCase { ranges: l.to_vec(), chunk, late }) {
                        return false;
                    }
                }
            }
        }
        true
    });
}

fn run_mr(c: &MrCase) -> R {
    let data = source(FILE_LEN);
    let n = FILE_LEN as u64;
    let mut want = Vec::new();
    for &(s, e) in &c.ranges {
        want.extend_from_slice(&data[s.min(n) as usize..e.min(n) as usize]);
    }
    let past = c.ranges.iter().any(|&(_, e)| e > n);
    let class = if past { "some_range_past_eof" } else { "ranges_inside" };
    if c.late > 0 {
        return run_mr_late(c, &data, class);
    }
    let mut r = MultiRangeReader::new(Cursor::new(data.clone()), c.ranges.clone());
    if !past {
        ensure!(r.total_length() == want.len() as u64, "range", "multi/total_length", "total_length() = {}", r.total_length());
    }
    let got = drain(&mut r, c.chunk, 400).map_err(|e| bad("read_err", class, e))?;
    ensure!(got == want, "range", format!("multi/{class}"), "ranges {:?} yielded {} want {}", c.ranges, brief(&got), brief(&want));
    Ok(if want.is_empty() { Outcome::trivial("empty") } else { Outcome::pass(class) })
}

fn run_mr_late(c: &MrCase, data: &[u8], class: &str) -> R {
    let n = FILE_LEN as u64;
    let (r0, r1) = (c.ranges[0], c.ranges[1]);
    let seg = |r: (u64, u64)| data[r.0.min(n) as usize..r.1.min(n).max(r.0.min(n)) as usize].to_vec();
    let mut rd = if c.late == 1 { MultiRangeReader::new(Cursor::new(data.to_vec()), vec![r0]) } else { MultiRangeReader::new(Cursor::new(data.to_vec()), vec![r0, r1]) };
    ensure!(rd.current_range() == Some(r0), "range", "multi/current_range", "current_range() = {:?} before the first read", rd.current_range());
    let mut buf = vec![0u8; c.chunk];
    let m = rd.read(&mut buf).map_err(|e| bad("read_err", class, e.to_string()))?;
    let first = seg(r0);
    let mut want: Vec<u8>;
    if c.late == 1 {
        ensure!(buf[..m] == first[..m.min(first.len())] && m <= first.len(), "range", format!("multi/late/{class}"), "first read of range {:?} returned {}", r0, brief(&buf[..m]));
        rd.add_range(r1.0, r1.1);
        want = first[m..].to_vec();
        want.extend(seg(r1));
    } else {
        // with both ranges known a read may already have moved on to the second range when the first is empty
        if first.is_empty() {
            let second = seg(r1);
            ensure!(m <= second.len() && buf[..m] == second[..m], "range", format!("multi/late/{class}"), "first read returned {}", brief(&buf[..m]));
            want = second[m..].to_vec();
            // next_range() has nothing further to move to
            let moved = rd.next_range();
            ensure!(!moved, "range", "multi/next_range", "next_range() = true although the reader is in its last range");
        } else {
            ensure!(m <= first.len() && buf[..m] == first[..m], "range", format!("multi/late/{class}"), "first read of range {:?} returned {}", r0, brief(&buf[..m]));
            let moved = rd.next_range();
            ensure!(moved && rd.current_range() == Some(r1), "range", "multi/next_range", "next_range() = {moved}, current_range() = {:?}", rd.current_range());
            want = seg(r1);
        }
    }
    let rest = drain(&mut rd, c.chunk, 400).map_err(|e| bad("read_err", class, e))?;
    ensure!(rest == want, "range", format!("multi/late/{class}"), "ranges {:?} (late = {}): after the first read of {m} bytes the rest reads {} want {}", c.ranges, c.late, brief(&rest), brief(&want));
    Ok(Outcome::pass(&format!("late{}/{class}", c.late)))
}

// ---------------------------------------------------------------------------------------------
// RangeWriter

#[derive(Serialize, Deserialize, Hash, Clone, Debug)]
pub struct RwCase {
    off: u64,
    len: u64,
    dlen: usize,
    chunk: usize,
}

fn gen_rw(_t: Tier, f: &mut dyn FnMut(RwCase) -> bool) {
    for off in 0..=(FILE_LEN as u64 + 1) {
        for len in 0..=(FILE_LEN as u64 + 1) {
            for dlen in [0usize, 1, 5, 12, 20] {
                for chunk in [1usize, 3, 100] {
                    if !f(RwCase { off, len, dlen, chunk }) {
                        return;
                    }
                }
            }
        }
    }
}

fn run_rw(c: &RwCase) -> R {
    let payload = source(c.dlen);
    let mut w = must(zipora::io::range::writer(Cursor::new(vec![0xEEu8; FILE_LEN]), c.off, c.len), "construct", "range_writer")?;
    let mut rest = &payload[..];
    let mut accepted = 0usize;
    for _ in 0..100 {
        if rest.is_empty() {
            break;
        }
        let k = rest.len().min(c.chunk);
        let nw = must(w.write(&rest[..k]), "write_err", "range_writer")?;
        ensure!(nw <= k, "range", "writer/return>len", "write returned {nw} for {k} bytes");
        if nw == 0 {
            break;
        }
        accepted += nw;
        rest = &rest[nw..];
    }
    let want_acc = c.dlen.min(c.len as usize);
    ensure!(accepted == want_acc, "range", "writer/accepted", "range of {} accepted {accepted} of {} bytes, want {want_acc}", c.len, c.dlen);
    ensure!(w.bytes_written() == accepted as u64 && w.current_position() == c.off + accepted as u64 && w.remaining() == c.len - accepted as u64, "range", "writer/counters", "bytes_written {} current {} remaining {}", w.bytes_written(), w.current_position(), w.remaining());
    must(w.flush(), "write_err", "range_writer")?;
    let inner = w.into_inner().into_inner();
    let mut model = vec![0xEEu8; FILE_LEN];
    if accepted > 0 {
        let end = c.off as usize + accepted;
        if model.len() < end {
            model.resize(end, 0);
        }
        if (c.off as usize) > FILE_LEN {
            for b in &mut model[FILE_LEN..c.off as usize] {
                *b = 0;
            }
        }
        model[c.off as usize..end].copy_from_slice(&payload[..accepted]);
    }
    ensure!(inner == model, "range", "writer/content", "inner holds {} want {}", brief(&inner), brief(&model));
    Ok(if accepted == 0 { Outcome::trivial("nothing") } else { Outcome::pass(if c.dlen as u64 > c.len { "clamped" } else { "fits" }) })
}

// ---------------------------------------------------------------------------------------------
// StreamBufferedReader

fn sb_cfg(name: &str, b: usize) -> StreamBufferConfig {
    let mut c = StreamBufferConfig {
        initial_capacity: b,
        max_capacity: 1 << 20,
        growth_factor: 1.618,
        page_alignment: 1,
        use_secure_pool: false,
        bulk_read_threshold: usize::MAX,
        enable_readahead: true,
        readahead_multiplier: 2,
    };
    match name.split("/inner<=").next().unwrap() {
        "readahead" => {}
        "no-readahead" => c.enable_readahead = false,
        "bulk>=B" => c.bulk_read_threshold = b,
        "fixed-capacity" => c.max_capacity = b,
        other => panic!("cfg {other}"),
    }
    c
}
const SB_CFGS: &[&str] = &["readahead", "no-readahead", "bulk>=B", "fixed-capacity", "readahead/inner<=1", "no-readahead/inner<=3", "bulk>=B/inner<=1"];

/// the inner stream of the buffered readers: a Cursor, or (coverage audit) a stream that hands out at most `k` bytes
/// per `read` call, which `Read` allows and pipes / sockets / decompressors do
pub enum Inner {
    Full(Cursor<Vec<u8>>),
    Short { data: Vec<u8>, pos: usize, k: usize },
}
impl Inner {
    fn for_cfg(name: &str, data: Vec<u8>) -> Inner {
        match name.split_once("/inner<=") {
            Some((_, k)) => Inner::Short { data, pos: 0, k: k.parse().expect("k") },
            None => Inner::Full(Cursor::new(data)),
        }
    }
}
impl Read for Inner {
    fn read(&mut self, buf: &mut [u8]) -> std::io::Result<usize> {
        match self {
            Inner::Full(c) => c.read(buf),
            Inner::Short { data, pos, k } => {
                let n = buf.len().min(*k).min(data.len() - *pos);
                buf[..n].copy_from_slice(&data[*pos..*pos + n]);
                *pos += n;
                Ok(n)
            }
        }
    }
}
impl Seek for Inner {
    fn seek(&mut self, to: SeekFrom) -> std::io::Result<u64> {
        match self {
            Inner::Full(c) => c.seek(to),
            Inner::Short { data, pos, .. } => {
                let t = match to {
                    SeekFrom::Start(p) => p as i64,
                    SeekFrom::Current(d) => *pos as i64 + d,
                    SeekFrom::End(d) => data.len() as i64 + d,
                };
                if t < 0 {
                    return Err(std::io::Error::new(std::io::ErrorKind::InvalidInput, "negative position"));
                }
                *pos = (t as usize).min(data.len());
                Ok(t as u64)
            }
        }
    }
}

#[derive(Serialize, Deserialize, Hash, Clone, Debug)]
pub struct SrCase {
    cfg: String,
    b: usize,
    n: usize,
    sizes: Vec<usize>,
}

fn read_sizes(b: usize) -> Vec<usize> {
    let mut v = vec![0usize, 1, 2, 7, b.saturating_sub(1), b, b + 1];
    v.sort_unstable();
    v.dedup();
    v
}

fn gen_sr(tier: Tier, f: &mut dyn FnMut(SrCase) -> bool) {
    let ns: Vec<usize> = if tier == Tier::Quick { vec![0, 1, 2, 3, 7, 8, 9, 16, 17, 40] } else { (0..=40).collect() };
    for cfg in SB_CFGS {
        for b in [1usize, 2, 8] {
            for &n in &ns {
                if !all_strings(&read_sizes(b), tier.pick(4, 5), &mut |s| f(SrCase { cfg: cfg.to_string(), b, n, sizes: s.to_vec() })) {
                    return;
                }
            }
        }
    }
}

fn run_sr(c: &SrCase) -> R {
    let src = source(c.n);
    let mut r = must(StreamBufferedReader::with_config(Inner::for_cfg(&c.cfg, src.clone()), sb_cfg(&c.cfg, c.b)), "construct", "reader")?;
    ensure!(r.capacity() == c.b, "buffered", "capacity", "capacity() = {} for initial_capacity {}", r.capacity(), c.b);
    let mut pos = 0usize;
    for (k, &sz) in c.sizes.iter().enumerate() {
        let mut buf = vec![0xAAu8; sz];
        let m = r.read(&mut buf).map_err(|e| bad("read_err", format!("{}/read", c.cfg), format!("read #{k} of {sz} bytes at {pos}/{}: {e}", c.n)))?;
        ensure!(m <= sz, "buffered", "read/return>len", "read returned {m} for {sz}");
        ensure!(buf[..m] == src[pos..(pos + m).min(c.n)], "buffered", format!("{}/wrong_bytes", c.cfg), "read #{k} ({sz}) at {pos}: got {} want {}", brief(&buf[..m]), brief(&src[pos..(pos + m).min(c.n)]));
        ensure!(m > 0 || sz == 0 || pos == c.n, "buffered", format!("{}/premature_eof", c.cfg), "read #{k} of {sz} at {pos}/{} returned 0", c.n);
        pos += m;
    }
    let rest = drain(&mut r, c.b + 1, 400).map_err(|e| bad("read_err", format!("{}/drain", c.cfg), e))?;
    ensure!(rest == src[pos..], "buffered", format!("{}/rest", c.cfg), "after reads {:?} the rest is {} want {}", c.sizes, brief(&rest), brief(&src[pos..]));
    ensure!(r.total_read() == c.n as u64, "buffered", "total_read", "total_read() = {} of {}", r.total_read(), c.n);
    Ok(if c.n == 0 { Outcome::trivial("empty-source") } else { Outcome::pass(&format!("{}/B{}", c.cfg, c.b)) })
}

#[derive(Serialize, Deserialize, Hash, Clone, Debug, PartialEq)]
pub enum ROp {
    Read(usize),
    Simd(usize),
    Byte,
    Slice(usize),
    FillConsume(usize),
    SeekCur(i64),
    SeekStart(u64),
    // (coverage audit, appended)
    SeekEnd(i64),
    /// read_bulk(k bytes)
    Bulk(usize),
    /// ensure_buffered(k)
    Ensure(usize),
}

#[derive(Serialize, Deserialize, Hash, Clone, Debug)]
pub struct SmCase {
    cfg: String,
    b: usize,
    n: usize,
    ops: Vec<ROp>,
}

fn gen_sm(tier: Tier, f: &mut dyn FnMut(SmCase) -> bool) {
    let ns: &[usize] = if tier == Tier::Quick { &[0, 5, 40] } else { &[0, 1, 5, 9, 40] };
    for cfg in ["readahead", "no-readahead", "fixed-capacity"] {
        for b in [1usize, 2, 8] {
            let ops = vec![ROp::Read(1), ROp::Read(b + 1), ROp::Simd(3), ROp::Byte, ROp::Slice(2), ROp::FillConsume(1), ROp::FillConsume(0), ROp::SeekCur(0), ROp::SeekCur(1), ROp::SeekStart(1), ROp::SeekCur(-1), ROp::SeekEnd(-2), ROp::Bulk(b + 1), ROp::Ensure(b + 1)];
            let depth = if tier == Tier::Quick { 3 } else { 4 };
            for &n in ns {
                if !all_strings(&ops, depth, &mut |s| f(SmCase { cfg: cfg.to_string(), b, n, ops: s.to_vec() })) {
                    return;
                }
            }
        }
    }
}

fn run_sm(c: &SmCase) -> R {
    let src = source(c.n);
    let mut r = must(StreamBufferedReader::with_config(Cursor::new(src.clone()), sb_cfg(&c.cfg, c.b)), "construct", "reader")?;
    let mut pos = 0usize; // logical position of the next unread byte
    let used_fill = c.ops.iter().any(|o| matches!(o, ROp::FillConsume(_) | ROp::Slice(_)));
    let ctx = if used_fill { "after_fill_or_slice" } else { "reads_only" };
    for (k, op) in c.ops.iter().enumerate() {
        let at = pos.min(c.n);
        match op {
            ROp::Read(sz) | ROp::Simd(sz) => {
                let mut buf = vec![0xAAu8; *sz];
                let res = if matches!(op, ROp::Read(_)) { r.read(&mut buf).map_err(|e| e.to_string()) } else { r.read_simd_optimized(&mut buf).map_err(|e| e.to_string()) };
                let m = res.map_err(|e| bad("read_err", format!("{}/{ctx}", c.cfg), format!("op #{k} {:?} at {pos}/{}: {e}", op, c.n)))?;
                ensure!(m <= *sz && buf[..m] == src[at..(at + m).min(c.n)], "buffered", format!("wrong_bytes/{ctx}"), "op #{k} {:?} at {pos}: got {} want {}", op, brief(&buf[..m]), brief(&src[at..(at + m).min(c.n)]));
                ensure!(m > 0 || *sz == 0 || pos >= c.n, "buffered", format!("premature_eof/{ctx}"), "op #{k} {:?} at {pos}/{} returned 0", op, c.n);
                pos += m;
            }
            ROp::Byte => match r.read_byte_fast() {
                Ok(b) => {
                    ensure!(pos < c.n && b == src[pos], "buffered", format!("wrong_bytes/{ctx}"), "op #{k} read_byte_fast at {pos}/{} = {b:#x}", c.n);
                    pos += 1;
                }
                Err(e) => ensure!(pos >= c.n, "read_err", format!("{}/{ctx}", c.cfg), "op #{k} read_byte_fast at {pos}/{}: {e}", c.n),
            },
            ROp::Slice(sz) => match r.read_slice(*sz) {
                Ok(Some(s)) => {
                    ensure!(s.len() == *sz && at + sz <= c.n && s == &src[at..at + sz], "buffered", format!("wrong_bytes/{ctx}"), "op #{k} read_slice({sz}) at {pos}: {}", brief(s));
                    pos += sz;
                }
                Ok(None) => {}
                Err(_) => {} // refused (request exceeds a fixed capacity): nothing may have been consumed
            },
            ROp::FillConsume(amt) => {
                let s = r.fill_buf().map_err(|e| bad("read_err", format!("{}/{ctx}", c.cfg), format!("op #{k} fill_buf at {pos}: {e}")))?;
                ensure!(s.len() <= c.n - at && s == &src[at..at + s.len()], "buffered", format!("wrong_bytes/{ctx}"), "op #{k} fill_buf at {pos}: {}", brief(s));
                ensure!(!s.is_empty() || pos >= c.n, "buffered", format!("premature_eof/{ctx}"), "op #{k} fill_buf at {pos}/{} is empty", c.n);
                let take = (*amt).min(s.len());
                r.consume(take);
                pos += take;
            }
            ROp::SeekCur(d) => {
                let want = pos as i64 + d;
                match r.seek(SeekFrom::Current(*d)) {
                    Ok(p) => {
                        ensure!(p as i64 == want, "seek_position", "current", "op #{k} seek(Current({d})) at logical position {pos} returned {p}, want {want} (ops {:?})", c.ops);
                        pos = want as usize;
                    }
                    Err(e) => {
                        // a position before the start is refused by the inner stream; nothing can be said about the position afterwards
                        ensure!(want < 0, "read_err", "seek", "op #{k} seek(Current({d})) at logical position {pos}: {e}");
                        return Ok(Outcome::pass("seek_before_start_refused"));
                    }
                }
            }
            ROp::SeekStart(p0) => {
                let p = r.seek(SeekFrom::Start(*p0)).map_err(|e| bad("read_err", "seek", e.to_string()))?;
                ensure!(p == *p0, "seek_position", "start", "seek(Start({p0})) returned {p}");
                pos = *p0 as usize;
            }
            ROp::SeekEnd(d) => {
                let want = c.n as i64 + d;
                match r.seek(SeekFrom::End(*d)) {
                    Ok(p) => {
                        ensure!(want >= 0 && p as i64 == want, "seek_position", "end", "op #{k} seek(End({d})) on {} bytes returned {p}, want {want}", c.n);
                        pos = want as usize;
                    }
                    // a position before the start is refused by the inner stream; nothing can be said about the position afterwards
                    Err(_) => {
                        ensure!(want < 0, "read_err", "seek", "op #{k} seek(End({d})) on {} bytes failed", c.n);
                        return Ok(Outcome::pass("seek_before_start_refused"));
                    }
                }
            }
            ROp::Bulk(sz) => {
                let mut buf = vec![0xAAu8; *sz];
                let m = r.read_bulk(&mut buf).map_err(|e| bad("read_err", format!("{}/{ctx}", c.cfg), format!("op #{k} {:?} at {pos}/{}: {e}", op, c.n)))?;
                ensure!(m <= *sz && buf[..m] == src[at..(at + m).min(c.n)], "buffered", format!("wrong_bytes/{ctx}"), "op #{k} {:?} at {pos}: got {} want {}", op, brief(&buf[..m]), brief(&src[at..(at + m).min(c.n)]));
                ensure!(m > 0 || *sz == 0 || pos >= c.n, "buffered", format!("premature_eof/{ctx}"), "op #{k} {:?} at {pos}/{} returned 0", op, c.n);
                pos += m;
            }
            ROp::Ensure(sz) => {
                // Err = the request exceeds a buffer that cannot grow: refused, nothing consumed
                if let Ok(avail) = r.ensure_buffered(*sz) {
                    ensure!(avail <= c.n - at && avail == r.buffer_usage(), "buffered", format!("ensure_buffered/{ctx}"), "op #{k} ensure_buffered({sz}) at {pos}/{} = {avail}, buffer_usage() = {}", c.n, r.buffer_usage());
                }
            }
        }
        if pos <= c.n {
            ensure!(r.buffer_usage() <= c.n - pos && r.has_data_in_buffer() == (r.buffer_usage() > 0), "buffered", format!("buffer_usage/{ctx}"), "after op #{k} {:?} at {pos}/{}: buffer_usage() = {}", op, c.n, r.buffer_usage());
        }
    }
    let rest = drain(&mut r, 3, 400).map_err(|e| bad("read_err", format!("{}/{ctx}", c.cfg), e))?;
    let at = pos.min(c.n);
    ensure!(rest == src[at..], "buffered", format!("rest/{ctx}"), "after {:?} the rest is {} want {}", c.ops, brief(&rest), brief(&src[at..]));
    Ok(if c.n == 0 { Outcome::trivial("empty-source") } else { Outcome::pass(&format!("{}/{ctx}", c.cfg)) })
}

/// (coverage audit) read_simd_optimized / read / read_bulk with transfer sizes around the copy kernels' widths
/// (8, 16, 32, 64 bytes, 4 KiB) through buffers that are smaller than, equal to and larger than the transfers
#[derive(Serialize, Deserialize, Hash, Clone, Debug)]
pub struct SsCase {
    b: usize,
    n: usize,
    /// 0 = read_simd_optimized, 1 = Read::read, 2 = read_bulk with the bulk threshold at 64
    api: u8,
    sizes: Vec<usize>,
}

fn gen_ss(tier: Tier, f: &mut dyn FnMut(SsCase) -> bool) {
    let pats: &[&[usize]] = &[
        &[1, 2, 3, 4, 5, 6, 7],
        &[8, 9, 15, 16, 17],
        &[31, 32, 33],
        &[63, 64, 65],
        &[127, 128, 129, 1],
        &[255, 256, 257],
        &[4095, 4096, 4097],
        &[9, 65, 3, 4097, 17, 33],
        &[70_000],
    ];
    let ns: &[usize] = if tier == Tier::Quick { &[300, 20_000] } else { &[0, 1, 63, 300, 5000, 20_000, 150_000] };
    for &b in &[8usize, 64, 100, 4096, 65536] {
        for &n in ns {
            for api in 0..3u8 {
                for p in pats {
                    if !f(SsCase { b, n, api, sizes: p.to_vec() }) {
                        return;
                    }
                }
            }
        }
    }
}

fn run_ss(c: &SsCase) -> R {
    let src = big_source(c.n);
    let mut cfg = sb_cfg("readahead", c.b);
    if c.api == 2 {
        cfg.bulk_read_threshold = 64;
    }
    let mut r = must(StreamBufferedReader::with_config(Cursor::new(src.clone()), cfg), "construct", "reader")?;
    let api = ["read_simd_optimized", "read", "read_bulk"][c.api as usize];
    let mut pos = 0usize;
    let mut k = 0usize;
    loop {
        let sz = c.sizes[k % c.sizes.len()];
        // canaries around the destination: a copy kernel must not write outside buf[..returned]
        let mut buf = vec![0xA5u8; sz + 16];
        let res = match c.api {
            0 => r.read_simd_optimized(&mut buf[8..8 + sz]).map_err(|e| e.to_string()),
            1 => r.read(&mut buf[8..8 + sz]).map_err(|e| e.to_string()),
            _ => r.read_bulk(&mut buf[8..8 + sz]).map_err(|e| e.to_string()),
        };
        let m = res.map_err(|e| bad("read_err", api, format!("{api} #{k} of {sz} bytes at {pos}/{}: {e}", c.n)))?;
        ensure!(m <= sz, "buffered", format!("{api}/return>len"), "{api} returned {m} for {sz}");
        let class = format!("{api}/wrong_bytes/len{}", if sz < 16 { "<16" } else if sz < 64 { "<64" } else if sz <= 4096 { "<=4096" } else { ">4096" });
        ensure!(buf[8..8 + m] == src[pos..pos + m], "buffered", class, "{api} #{k} ({sz} bytes, buffer {}) at {pos}: got {} want {}", c.b, brief(&buf[8..8 + m]), brief(&src[pos..pos + m]));
        ensure!(buf[..8] == [0xA5; 8] && buf[8 + m..].iter().all(|&x| x == 0xA5), "buffered", format!("{api}/wrote_outside"), "{api} #{k} ({sz} bytes) at {pos}: bytes outside the {m} returned were modified");
        if m == 0 {
            ensure!(pos == c.n, "buffered", format!("{api}/premature_eof"), "{api} #{k} of {sz} at {pos}/{} returned 0", c.n);
            break;
        }
        pos += m;
        k += 1;
        ensure!(k < 1_000_000, "buffered", "no_eof", "no EOF");
    }
    ensure!(r.total_read() == c.n as u64, "buffered", "total_read", "total_read() = {} of {}", r.total_read(), c.n);
    Ok(if c.n == 0 { Outcome::trivial("empty") } else { Outcome::pass(&format!("{api}/B{}", c.b)) })
}

/// the library's own presets with sources straddling their thresholds
#[derive(Serialize, Deserialize, Hash, Clone, Debug)]
pub struct SpCase {
    preset: String,
    n: usize,
    sizes: Vec<usize>,
    writer: bool,
}

fn gen_sp(tier: Tier, f: &mut dyn FnMut(SpCase) -> bool) {
    let ns: &[usize] = if tier == Tier::Quick { &[0, 1, 8191, 8193, 65537, 200_000] } else { &[0, 1, 2047, 2048, 4095, 4096, 8191, 8192, 8193, 16384, 65535, 65536, 65537, 131_073, 200_000, 600_000] };
    let pats: &[&[usize]] = &[&[1], &[4095], &[8192], &[8193, 1], &[65536], &[65537], &[1, 70_000], &[2047, 2048, 2049], &[16383, 16384, 1]];
    for preset in ["default", "performance_optimized", "memory_efficient", "low_latency"] {
        for &n in ns {
            for p in pats {
                for writer in [false, true] {
                    if !f(SpCase { preset: preset.to_string(), n, sizes: p.to_vec(), writer }) {
                        return;
                    }
                }
            }
        }
    }
}

fn big_source(n: usize) -> Vec<u8> {
    (0..n).map(|i| ((i * 7 + i / 255) % 251) as u8).collect()
}

fn run_sp(c: &SpCase) -> R {
    let src = big_source(c.n);
    let cfg = match c.preset.as_str() {
        "default" => StreamBufferConfig::default(),
        "performance_optimized" => StreamBufferConfig::performance_optimized(),
        "memory_efficient" => StreamBufferConfig::memory_efficient(),
        _ => StreamBufferConfig::low_latency(),
    };
    if c.writer {
        let mut w = must(StreamBufferedWriter::with_config(Vec::new(), cfg), "construct", "writer")?;
        let mut pos = 0;
        let mut k = 0;
        while pos < c.n && k < 1_000_000 {
            let sz = c.sizes[k % c.sizes.len()].min(c.n - pos);
            let m = must(w.write(&src[pos..pos + sz]), "write_err", &c.preset)?;
            ensure!(m <= sz && (m > 0 || sz == 0), "buffered", "write/return", "write of {sz} returned {m}");
            pos += m;
            k += 1;
        }
        ensure!(w.total_written() + w.buffer_usage() as u64 == c.n as u64, "buffered", "writer/counters", "total_written {} + buffered {} != {}", w.total_written(), w.buffer_usage(), c.n);
        let got = must(w.into_inner(), "write_err", &c.preset)?;
        ensure!(got == src, "buffered", format!("writer/{}", c.preset), "writer stored {} want {}", brief(&got), brief(&src));
    } else {
        let mut r = must(StreamBufferedReader::with_config(Cursor::new(src.clone()), cfg), "construct", "reader")?;
        let mut out = Vec::with_capacity(c.n);
        let mut k = 0;
        loop {
            let sz = c.sizes[k % c.sizes.len()];
            let mut buf = vec![0u8; sz];
            let m = r.read(&mut buf).map_err(|e| bad("read_err", c.preset.clone(), e.to_string()))?;
            if m == 0 {
                break;
            }
            out.extend_from_slice(&buf[..m]);
            k += 1;
            ensure!(k < 2_000_000, "buffered", "reader/no_eof", "no EOF");
        }
        ensure!(out == src, "buffered", format!("reader/{}", c.preset), "reader yielded {} ({} bytes) want {} bytes", brief(&out), out.len(), c.n);
    }
    Ok(if c.n == 0 { Outcome::trivial("empty") } else { Outcome::pass(&format!("{}/{}", c.preset, if c.writer { "w" } else { "r" })) })
}

// ---------------------------------------------------------------------------------------------
// StreamBufferedWriter (small buffers)

#[derive(Serialize, Deserialize, Hash, Clone, Debug, PartialEq)]
pub enum WOp {
    Write(usize),
    Byte,
    Flush,
    SeekCur0,
    ZcWrite(usize),
    /// (coverage audit) seek(Start(p)): later writes overwrite / extend from there
    SeekStart(u64),
    /// seek(End(0))
    SeekEnd0,
}

#[derive(Serialize, Deserialize, Hash, Clone, Debug)]
pub struct SwCase {
    cfg: String,
    b: usize,
    ops: Vec<WOp>,
}

fn gen_sw(_t: Tier, f: &mut dyn FnMut(SwCase) -> bool) {
    for cfg in ["readahead", "bulk>=B"] {
        for b in [1usize, 2, 8] {
            let mut ops: Vec<WOp> = read_sizes(b).into_iter().map(WOp::Write).collect();
            ops.extend([WOp::Byte, WOp::Flush, WOp::SeekCur0, WOp::SeekStart(1), WOp::SeekEnd0]);
            if !all_strings(&ops, 4, &mut |s| f(SwCase { cfg: cfg.to_string(), b, ops: s.to_vec() })) {
                return;
            }
        }
    }
}

fn run_sw(c: &SwCase) -> R {
    let mut w = must(StreamBufferedWriter::with_config(Cursor::new(Vec::new()), sb_cfg(&c.cfg, c.b)), "construct", "writer")?;
    // the stream the inner Cursor<Vec> must end up with: bytes + write position (a seek beyond the end zero-fills on the next write)
    let mut model: Vec<u8> = Vec::new();
    let mut at = 0usize;
    let mut written = 0u64;
    let mut next = 1u8;
    fn put(model: &mut Vec<u8>, at: &mut usize, bytes: &[u8]) {
        if bytes.is_empty() {
            return;
        }
        if model.len() < *at + bytes.len() {
            model.resize(*at + bytes.len(), 0);
        }
        model[*at..*at + bytes.len()].copy_from_slice(bytes);
        *at += bytes.len();
    }
    for (k, op) in c.ops.iter().enumerate() {
        match op {
            WOp::Write(sz) => {
                let chunk: Vec<u8> = (0..*sz).map(|i| next.wrapping_add(i as u8)).collect();
                let m = must(w.write(&chunk), "write_err", &c.cfg)?;
                ensure!(m <= *sz && (m > 0 || *sz == 0), "buffered", "write/return", "op #{k} write({sz}) returned {m}");
                put(&mut model, &mut at, &chunk[..m]);
                written += m as u64;
                next = next.wrapping_add(m as u8);
            }
            WOp::Byte => {
                must(w.write_byte_fast(next), "write_err", &c.cfg)?;
                put(&mut model, &mut at, &[next]);
                written += 1;
                next = next.wrapping_add(1);
            }
            WOp::Flush => {
                must(w.flush(), "write_err", &c.cfg)?;
                ensure!(w.get_ref().get_ref() == &model, "buffered", "writer/flush", "after flush the inner writer holds {} want {}", brief(w.get_ref().get_ref()), brief(&model));
            }
            WOp::SeekCur0 => {
                let p = must(w.seek(SeekFrom::Current(0)), "write_err", &c.cfg)?;
                ensure!(p == at as u64, "seek_position", "writer/current", "seek(Current(0)) = {p}, the stream position is {at}");
            }
            WOp::SeekStart(p0) => {
                let p = must(w.seek(SeekFrom::Start(*p0)), "write_err", &c.cfg)?;
                ensure!(p == *p0, "seek_position", "writer/start", "seek(Start({p0})) = {p}");
                at = *p0 as usize;
            }
            WOp::SeekEnd0 => {
                let p = must(w.seek(SeekFrom::End(0)), "write_err", &c.cfg)?;
                ensure!(p == model.len() as u64, "seek_position", "writer/end", "seek(End(0)) = {p} after {} bytes (ops {:?})", model.len(), c.ops);
                at = model.len();
            }
            WOp::ZcWrite(_) => {}
        }
        ensure!(w.total_written() + w.buffer_usage() as u64 == written, "buffered", "writer/counters", "total_written {} + buffered {} != {} bytes accepted", w.total_written(), w.buffer_usage(), written);
    }
    let got = must(w.into_inner(), "write_err", &c.cfg)?.into_inner();
    let seeks = c.ops.iter().any(|o| matches!(o, WOp::SeekStart(_) | WOp::SeekEnd0));
    ensure!(got == model, "buffered", format!("writer/{}{}", c.cfg, if seeks { "/after_seek" } else { "" }), "ops {:?}: inner holds {} want {}", c.ops, brief(&got), brief(&model));
    Ok(if model.is_empty() { Outcome::trivial("nothing") } else { Outcome::pass(&format!("{}/B{}{}", c.cfg, c.b, if seeks { "/seek" } else { "" })) })
}

// ---------------------------------------------------------------------------------------------
// ZeroCopyReader

#[derive(Serialize, Deserialize, Hash, Clone, Debug, PartialEq)]
pub enum ZOp {
    Read(usize),
    ReadOpt(usize),
    Peek(usize),
    Skip(usize),
    Zc(usize),
    Ensure(usize),
}

#[derive(Serialize, Deserialize, Hash, Clone, Debug)]
pub struct ZrCase {
    cap: usize,
    n: usize,
    secure: bool,
    ops: Vec<ZOp>,
}

fn gen_zr(tier: Tier, f: &mut dyn FnMut(ZrCase) -> bool) {
    let ns: &[usize] = if tier == Tier::Quick { &[0, 9, 40] } else { &[0, 1, 8, 9, 17, 40] };
    for cap in [1usize, 2, 8] {
        let mut ops = Vec::new();
        for k in [0usize, 1, cap, cap + 1] {
            ops.push(ZOp::Read(k));
        }
        for k in [1usize, cap, cap + 1] {
            ops.push(ZOp::ReadOpt(k));
            ops.push(ZOp::Peek(k));
            ops.push(ZOp::Zc(k));
        }
        ops.push(ZOp::Skip(1));
        ops.push(ZOp::Skip(cap + 1));
        ops.push(ZOp::Ensure(cap + 1));
        ops.sort_by_key(|o| format!("{:?}", o));
        ops.dedup();
        let depth = if tier == Tier::Quick { 3 } else { 4 };
        for &n in ns {
            if !all_strings(&ops, depth, &mut |s| f(ZrCase { cap, n, secure: false, ops: s.to_vec() })) {
                return;
            }
        }
    }
    // secure-pool buffer + default capacity: a few long scripts
    for n in [0usize, 1, 32767, 32768, 65536, 65537, 200_000] {
        for ops in [vec![ZOp::Read(1)], vec![ZOp::Peek(10), ZOp::Read(32768)], vec![ZOp::Zc(65536), ZOp::Skip(3), ZOp::Read(5)], vec![ZOp::Peek(70_000), ZOp::Read(1)]] {
            if !f(ZrCase { cap: 65536, n, secure: true, ops }) {
                return;
            }
        }
    }
    // (coverage audit) skips longer than the 8 KiB scratch buffer of skip_bytes, from an empty and from a partly
    // consumed buffer, followed by reads; ZeroCopyReader::new (64 KiB) and small capacities
    for (cap, secure) in [(65536usize, false), (65536, true), (8, false), (10_000, false)] {
        for n in [20_000usize, 200_000] {
            for ops in [
                vec![ZOp::Read(1), ZOp::Skip(8193), ZOp::Read(5), ZOp::Skip(8192), ZOp::Zc(3)],
                vec![ZOp::Skip(16_385), ZOp::Peek(4), ZOp::Read(2)],
                vec![ZOp::Peek(10), ZOp::Skip(9), ZOp::Skip(10_000), ZOp::Read(7)],
                vec![ZOp::Zc(5), ZOp::Skip(1), ZOp::Skip(19_000), ZOp::Read(3)],
            ] {
                if !f(ZrCase { cap, n, secure, ops }) {
                    return;
                }
            }
        }
    }
}

fn run_zr(c: &ZrCase) -> R {
    let src = if c.n <= 64 { source(c.n) } else { big_source(c.n) };
    let inner = Cursor::new(src.clone());
    let mut r = if c.secure {
        must(ZeroCopyReader::with_secure_buffer(inner, c.cap), "construct", "zc_reader")?
    } else if c.cap == 65536 {
        must(ZeroCopyReader::new(inner), "construct", "zc_reader")?
    } else {
        must(ZeroCopyReader::with_capacity(inner, c.cap), "construct", "zc_reader")?
    };
    let mut pos = 0usize;
    let over = c.ops.iter().any(|o| matches!(o, ZOp::ReadOpt(k) | ZOp::Peek(k) | ZOp::Zc(k) | ZOp::Ensure(k) if *k > c.cap));
    let ctx = if over { "after_request>capacity" } else { "requests<=capacity" };
    // one defect, several symptoms: once a request larger than the buffer was made, every kind of lost /
    // withheld data is one class; otherwise the symptom is part of the class
    let sym = |s: &str| if over { ctx.to_string() } else { format!("{s}/{ctx}") };
    for (k, op) in c.ops.iter().enumerate() {
        match op {
            ZOp::Read(sz) | ZOp::ReadOpt(sz) => {
                let mut buf = vec![0xAAu8; *sz];
                let res = if matches!(op, ZOp::Read(_)) { r.read(&mut buf).map_err(|e| e.to_string()) } else { r.read_optimized(&mut buf).map_err(|e| e.to_string()) };
                let m = res.map_err(|e| bad("read_err", ctx, format!("op #{k} {:?} at {pos}/{}: {e}", op, c.n)))?;
                ensure!(m <= *sz && buf[..m] == src[pos..(pos + m).min(c.n)], "zero_copy", sym("wrong_bytes"), "op #{k} {:?} at {pos}: got {} want {}", op, brief(&buf[..m]), brief(&src[pos..(pos + m).min(c.n)]));
                ensure!(m > 0 || *sz == 0 || pos == c.n, "zero_copy", sym("premature_eof"), "op #{k} {:?} at {pos}/{} returned 0 (ops {:?})", op, c.n, c.ops);
                pos += m;
            }
            ZOp::Peek(sz) => {
                let s = r.peek(*sz).map_err(|e| bad("read_err", ctx, format!("op #{k} peek({sz}): {e}")))?;
                ensure!(s.len() <= *sz && s.len() <= c.n - pos && s == &src[pos..pos + s.len()], "zero_copy", sym("wrong_bytes"), "op #{k} peek({sz}) at {pos}: {}", brief(s));
                if *sz <= c.cap {
                    ensure!(s.len() == (*sz).min(c.n - pos), "zero_copy", sym("short_peek"), "peek({sz}) at {pos}/{} returned {} bytes with capacity {}", c.n, s.len(), c.cap);
                }
            }
            ZOp::Zc(sz) => {
                let got = r.zc_read(*sz).map_err(|e| bad("read_err", ctx, format!("op #{k} zc_read({sz}): {e}")))?.map(|s| s.to_vec());
                match got {
                    Some(s) => {
                        ensure!(s.len() == *sz && pos + sz <= c.n && s == src[pos..pos + sz], "zero_copy", sym("wrong_bytes"), "op #{k} zc_read({sz}) at {pos}: {}", brief(&s));
                        must(r.zc_advance(*sz), "read_err", ctx)?;
                        pos += sz;
                    }
                    None => {
                        ensure!(*sz > c.cap || pos + sz > c.n, "zero_copy", sym("zc_read_none"), "zc_read({sz}) = None at {pos}/{} with capacity {}", c.n, c.cap);
                    }
                }
            }
            ZOp::Ensure(sz) => {
                let a = r.zc_ensure(*sz).map_err(|e| bad("read_err", ctx, format!("op #{k} zc_ensure({sz}): {e}")))?;
                ensure!(a <= *sz && a <= c.n - pos && a == r.zc_available().min(*sz), "zero_copy", sym("zc_ensure"), "zc_ensure({sz}) = {a}, available {}", r.zc_available());
            }
            ZOp::Skip(sz) => match r.skip_bytes(*sz) {
                Ok(()) => {
                    ensure!(pos + sz <= c.n, "zero_copy", sym("skip_past_end"), "skip_bytes({sz}) at {pos}/{} succeeded", c.n);
                    pos += sz;
                }
                Err(e) => {
                    ensure!(pos + sz > c.n, "read_err", ctx, "op #{k} skip_bytes({sz}) at {pos}/{}: {e}", c.n);
                    return Ok(Outcome::pass("skip_past_end_refused"));
                }
            },
        }
    }
    let rest = drain(&mut r, 3, 200_000).map_err(|e| bad("read_err", format!("drain/{ctx}"), e))?;
    ensure!(rest == src[pos..], "zero_copy", sym("rest"), "after {:?} (cap {}) the rest is {} ({} bytes) want {} bytes", c.ops, c.cap, brief(&rest), rest.len(), c.n - pos);
    Ok(if c.n == 0 { Outcome::trivial("empty-source") } else { Outcome::pass(ctx) })
}

// ---------------------------------------------------------------------------------------------
// ZeroCopyWriter

#[derive(Serialize, Deserialize, Hash, Clone, Debug)]
pub struct ZwCase {
    cap: usize,
    ops: Vec<WOp>,
    /// (coverage audit) 0 = Vec; k > 0 = an inner writer that accepts at most k bytes per `write` call
    #[serde(default)]
    inner_k: usize,
}

fn gen_zw(_t: Tier, f: &mut dyn FnMut(ZwCase) -> bool) {
    for cap in [1usize, 2, 8, 65536] {
        let small = cap.min(8);
        let mut ops: Vec<WOp> = Vec::new();
        for k in [0usize, 1, small / 2, small.saturating_sub(1), small, small + 1] {
            ops.push(WOp::Write(k));
            if k > 0 {
                ops.push(WOp::ZcWrite(k));
            }
        }
        ops.push(WOp::Flush);
        ops.sort_by_key(|o| format!("{:?}", o));
        ops.dedup();
        if !all_strings(&ops, 4, &mut |s| f(ZwCase { cap, ops: s.to_vec(), inner_k: 0 })) {
            return;
        }
        if cap <= 8 {
            for inner_k in [1usize, 3] {
                if !all_strings(&ops, 3, &mut |s| f(ZwCase { cap, ops: s.to_vec(), inner_k })) {
                    return;
                }
            }
        }
    }
}

/// the inner writers of the ZeroCopyWriter cases
trait Sink: Write {
    fn bytes(&self) -> &Vec<u8>;
}
impl Sink for Vec<u8> {
    fn bytes(&self) -> &Vec<u8> {
        self
    }
}
impl Sink for ChunkedW {
    fn bytes(&self) -> &Vec<u8> {
        &self.data
    }
}

fn run_zw(c: &ZwCase) -> R {
    if c.inner_k > 0 {
        run_zw_on(must(ZeroCopyWriter::with_capacity(ChunkedW { data: Vec::new(), k: c.inner_k }, c.cap), "construct", "zc_writer")?, c)
    } else if c.cap == 65536 {
        run_zw_on(must(ZeroCopyWriter::new(Vec::new()), "construct", "zc_writer")?, c)
    } else {
        run_zw_on(must(ZeroCopyWriter::with_capacity(Vec::new(), c.cap), "construct", "zc_writer")?, c)
    }
}

fn run_zw_on<W: Sink>(mut w: ZeroCopyWriter<W>, c: &ZwCase) -> R {
    let mut model: Vec<u8> = Vec::new();
    let mut next = 1u8;
    for (k, op) in c.ops.iter().enumerate() {
        match op {
            WOp::Write(sz) => {
                let chunk: Vec<u8> = (0..*sz).map(|i| next.wrapping_add(i as u8)).collect();
                let m = must(w.write(&chunk), "write_err", "zc_writer")?;
                ensure!(m <= *sz && (m > 0 || *sz == 0), "zero_copy", "write/return", "op #{k} write({sz}) returned {m}");
                model.extend_from_slice(&chunk[..m]);
                next = next.wrapping_add(m as u8);
            }
            WOp::ZcWrite(sz) => {
                let avail = must(w.zc_ensure_write(*sz), "write_err", "zc_writer")?;
                ensure!(avail <= *sz && avail <= w.zc_write_available(), "zero_copy", "zc_ensure_write", "zc_ensure_write({sz}) = {avail}, available {}", w.zc_write_available());
                let got = must(w.zc_write(*sz), "write_err", "zc_writer")?.map(|s| s.len());
                match got {
                    Some(l) => {
                        ensure!(l == *sz, "zero_copy", "zc_write/len", "zc_write({sz}) gave {l} bytes");
                        let chunk: Vec<u8> = (0..*sz).map(|i| next.wrapping_add(i as u8)).collect();
                        w.zc_write(*sz).unwrap().unwrap().copy_from_slice(&chunk);
                        must(w.zc_commit(*sz), "write_err", "zc_writer")?;
                        model.extend_from_slice(&chunk);
                        next = next.wrapping_add(*sz as u8);
                    }
                    None => ensure!(*sz > c.cap, "zero_copy", "zc_write_none", "zc_write({sz}) = None with capacity {}", c.cap),
                }
            }
            WOp::Flush => {
                must(w.flush(), "write_err", "zc_writer")?;
                ensure!(w.get_ref().bytes() == &model, "zero_copy", "writer/flush", "after flush inner holds {} want {}", brief(w.get_ref().bytes()), brief(&model));
            }
            _ => {}
        }
    }
    let got = must(w.into_inner(), "write_err", "zc_writer")?;
    let got = got.bytes();
    ensure!(got == &model, "zero_copy", if c.inner_k > 0 { "writer/content/inner_makes_short_writes" } else { "writer/content" }, "ops {:?} (cap {}, inner accepts {} bytes per call): inner holds {} want {}", c.ops, c.cap, if c.inner_k == 0 { "all".to_string() } else { c.inner_k.to_string() }, brief(got), brief(&model));
    Ok(if model.is_empty() { Outcome::trivial("nothing") } else { Outcome::pass(&format!("cap{}{}", c.cap, if c.inner_k > 0 { "/short-inner" } else { "" })) })
}

// ---------------------------------------------------------------------------------------------
// ZeroCopyBuffer as a byte FIFO

#[derive(Serialize, Deserialize, Hash, Clone, Debug, PartialEq)]
pub enum BOp {
    Fill(usize),
    Drain(usize),
    ZcWrite(usize),
    ZcRead(usize),
    Compact,
    EnsureWrite(usize),
    Reset,
}

#[derive(Serialize, Deserialize, Hash, Clone, Debug)]
pub struct ZbCase {
    cap: usize,
    secure: bool,
    ops: Vec<BOp>,
}

fn gen_zb(tier: Tier, f: &mut dyn FnMut(ZbCase) -> bool) {
    let ops = vec![BOp::Fill(1), BOp::Fill(3), BOp::Fill(100), BOp::Drain(1), BOp::Drain(100), BOp::ZcWrite(2), BOp::ZcRead(1), BOp::ZcRead(3), BOp::Compact, BOp::EnsureWrite(3), BOp::Reset];
    let depth = if tier == Tier::Quick { 4 } else { 5 };
    for cap in [0usize, 1, 4, 8] {
        if !all_strings(&ops, depth, &mut |s| f(ZbCase { cap, secure: false, ops: s.to_vec() })) {
            return;
        }
    }
    all_strings(&ops, 2, &mut |s| f(ZbCase { cap: 8, secure: true, ops: s.to_vec() }));
}

/// a reader that hands out at most `k` bytes per call
struct Chunked<'a> {
    data: &'a [u8],
    pos: usize,
    k: usize,
}
impl<'a> Read for Chunked<'a> {
    fn read(&mut self, buf: &mut [u8]) -> std::io::Result<usize> {
        let n = buf.len().min(self.k).min(self.data.len() - self.pos);
        buf[..n].copy_from_slice(&self.data[self.pos..self.pos + n]);
        self.pos += n;
        Ok(n)
    }
}
/// a writer that accepts at most `k` bytes per call
struct ChunkedW {
    data: Vec<u8>,
    k: usize,
}
impl Write for ChunkedW {
    fn write(&mut self, buf: &[u8]) -> std::io::Result<usize> {
        let n = buf.len().min(self.k);
        self.data.extend_from_slice(&buf[..n]);
        Ok(n)
    }
    fn flush(&mut self) -> std::io::Result<()> {
        Ok(())
    }
}

fn run_zb(c: &ZbCase) -> R {
    let mut b = if c.secure { must(ZeroCopyBuffer::with_secure_pool(c.cap), "construct", "zc_buffer")? } else { must(ZeroCopyBuffer::new(c.cap), "construct", "zc_buffer")? };
    let feed = source(600);
    let mut fed = 0usize; // bytes taken from `feed`
    let mut fifo: std::collections::VecDeque<u8> = Default::default();
    let mut out_model: Vec<u8> = Vec::new();
    let mut sink = ChunkedW { data: Vec::new(), k: 0 };
    for (k, op) in c.ops.iter().enumerate() {
        match op {
            BOp::Fill(sz) => {
                let mut rd = Chunked { data: &feed, pos: fed, k: *sz };
                let m = must(b.fill_from(&mut rd), "read_err", "zc_buffer")?;
                ensure!(m <= *sz && rd.pos == fed + m, "zero_copy", "buffer/fill_return", "op #{k} fill_from returned {m}, reader advanced {}", rd.pos - fed);
                fifo.extend(&feed[fed..fed + m]);
                fed += m;
            }
            BOp::Drain(sz) => {
                sink.k = *sz;
                let before = sink.data.len();
                let m = must(b.drain_to(&mut sink), "write_err", "zc_buffer")?;
                ensure!(sink.data.len() - before == m && m <= fifo.len(), "zero_copy", "buffer/drain_return", "op #{k} drain_to returned {m}");
                for _ in 0..m {
                    out_model.push(fifo.pop_front().unwrap());
                }
            }
            BOp::ZcWrite(sz) => {
                if let Some(s) = must(b.zc_write(*sz), "write_err", "zc_buffer")? {
                    ensure!(s.len() == *sz, "zero_copy", "buffer/zc_write_len", "zc_write({sz}) gave {}", s.len());
                    s.copy_from_slice(&feed[fed..fed + sz]);
                    must(b.zc_commit(*sz), "write_err", "zc_buffer")?;
                    fifo.extend(&feed[fed..fed + sz]);
                    fed += sz;
                }
            }
            BOp::ZcRead(sz) => {
                let got = must(b.zc_read(*sz), "read_err", "zc_buffer")?.map(|s| s.to_vec());
                match got {
                    Some(s) => {
                        let want: Vec<u8> = fifo.iter().take(*sz).copied().collect();
                        ensure!(fifo.len() >= *sz && s == want, "zero_copy", "buffer/wrong_bytes", "op #{k} zc_read({sz}) = {} want {}", brief(&s), brief(&want));
                        must(b.zc_advance(*sz), "read_err", "zc_buffer")?;
                        for _ in 0..*sz {
                            out_model.push(fifo.pop_front().unwrap());
                        }
                        sink.data.extend_from_slice(&s);
                    }
                    None => ensure!(fifo.len() < *sz, "zero_copy", "buffer/zc_read_none", "zc_read({sz}) = None with {} bytes buffered", fifo.len()),
                }
            }
            BOp::Compact => b.compact(),
            BOp::EnsureWrite(sz) => {
                let a = must(b.zc_ensure_write(*sz), "write_err", "zc_buffer")?;
                ensure!(a == (*sz).min(c.cap - fifo.len()), "zero_copy", "buffer/ensure_write", "zc_ensure_write({sz}) = {a} with capacity {} and {} buffered", c.cap, fifo.len());
            }
            BOp::Reset => {
                b.reset();
                fifo.clear();
            }
        }
        ensure!(b.available() == fifo.len() && b.zc_available() == fifo.len() && b.is_empty() == fifo.is_empty(), "zero_copy", "buffer/available", "after op #{k} {:?}: available() = {} want {}", op, b.available(), fifo.len());
        let rs: Vec<u8> = fifo.iter().copied().collect();
        ensure!(b.readable_slice() == &rs[..], "zero_copy", "buffer/wrong_bytes", "after op #{k} {:?}: readable {} want {}", op, brief(b.readable_slice()), brief(&rs));
        ensure!(b.write_available() + b.write_position() == c.cap && b.capacity() == c.cap, "zero_copy", "buffer/capacity", "write_available {} + write_position {} != {}", b.write_available(), b.write_position(), c.cap);
    }
    ensure!(sink.data == out_model, "zero_copy", "buffer/wrong_bytes", "drained {} want {}", brief(&sink.data), brief(&out_model));
    Ok(if fed == 0 { Outcome::trivial("nothing") } else { Outcome::pass(&format!("cap{}", c.cap)) })
}

// ---------------------------------------------------------------------------------------------
// MmapZeroCopyReader

#[derive(Serialize, Deserialize, Hash, Clone, Debug)]
pub struct MzCase {
    n: usize,
    ops: Vec<ZOp>,
}

fn gen_mz(_t: Tier, f: &mut dyn FnMut(MzCase) -> bool) {
    let ops = vec![ZOp::Read(0), ZOp::Read(1), ZOp::Read(5), ZOp::Read(13), ZOp::Zc(1), ZOp::Zc(12), ZOp::Zc(13), ZOp::Skip(0), ZOp::Skip(7), ZOp::Skip(13)];
    for n in [0usize, 1, 12] {
        if !all_strings(&ops, 3, &mut |s| f(MzCase { n, ops: s.to_vec() })) {
            return;
        }
    }
}

fn run_mz(c: &MzCase) -> R {
    let src = source(c.n);
    let t = TmpFile::with_bytes("mz", &src);
    let mut r = match MmapZeroCopyReader::new(File::open(&t.0).expect("open")) {
        Ok(r) => r,
        Err(_) => return Ok(Outcome::skip("mmap refused")),
    };
    ensure!(r.len() == c.n && r.as_slice() == &src[..], "zero_copy", "mmapzc/as_slice", "mapped {} bytes", r.len());
    let mut pos = 0usize;
    for op in &c.ops {
        match op {
            ZOp::Read(sz) => {
                let mut buf = vec![0u8; *sz];
                let m = must(r.read(&mut buf), "read_err", "mmapzc")?;
                ensure!(m == (*sz).min(c.n - pos) && buf[..m] == src[pos..pos + m], "zero_copy", "mmapzc/read", "read({sz}) at {pos}/{} = {m} bytes {}", c.n, brief(&buf[..m]));
                pos += m;
            }
            ZOp::Zc(sz) => {
                let got = must(r.zc_read(*sz), "read_err", "mmapzc")?.map(|s| s.to_vec());
                match got {
                    Some(s) => {
                        ensure!(pos + sz <= c.n && s == src[pos..pos + sz], "zero_copy", "mmapzc/zc_read", "zc_read({sz}) at {pos}");
                        must(r.zc_advance(*sz), "read_err", "mmapzc")?;
                        pos += sz;
                    }
                    None => ensure!(pos + sz > c.n, "zero_copy", "mmapzc/zc_read_none", "zc_read({sz}) = None at {pos}/{}", c.n),
                }
            }
            ZOp::Skip(p) => {
                // set_position
                let res = r.set_position(*p);
                ensure!(res.is_ok() == (*p <= c.n), "zero_copy", "mmapzc/set_position", "set_position({p}) on {} bytes: {:?}", c.n, res.is_ok());
                if res.is_ok() {
                    pos = *p;
                }
            }
            _ => {}
        }
        ensure!(r.position() == pos && r.zc_available() == c.n - pos && r.remaining_slice() == &src[pos..], "zero_copy", "mmapzc/position", "position() = {} want {pos}", r.position());
    }
    Ok(if c.n == 0 { Outcome::trivial("empty") } else { Outcome::pass("mmapzc") })
}

// ---------------------------------------------------------------------------------------------
// VectoredIO over inner streams that make short transfers (legal for Read/Write)

#[derive(Serialize, Deserialize, Hash, Clone, Debug)]
pub struct VcCase {
    write: bool,
    /// max bytes per inner call (0 = unlimited)
    k: usize,
    n: usize,
    bufs: Vec<usize>,
}

fn gen_vc(_t: Tier, f: &mut dyn FnMut(VcCase) -> bool) {
    for write in [false, true] {
        for k in [0usize, 1, 2, 3] {
            for n in [0usize, 1, 4, 20] {
                if !all_strings(&[0usize, 1, 2, 5], 3, &mut |s| f(VcCase { write, k, n, bufs: s.to_vec() })) {
                    return;
                }
            }
        }
    }
}

fn run_vc(c: &VcCase) -> R {
    let k = if c.k == 0 { usize::MAX } else { c.k };
    let short_possible = c.k != 0 && c.bufs.iter().any(|&b| b > c.k);
    let class = if short_possible { "inner_makes_short_transfers" } else { "inner_transfers_fully" };
    if c.write {
        let payload: Vec<Vec<u8>> = c.bufs.iter().enumerate().map(|(i, &l)| (0..l).map(|j| (i * 16 + j + 1) as u8).collect()).collect();
        let slices: Vec<IoSlice> = payload.iter().map(|p| IoSlice::new(p)).collect();
        let mut w = ChunkedW { data: Vec::new(), k };
        let total = must(VectoredIO::write_vectored(&mut w, &slices), "write_err", "vectored")?;
        let flat: Vec<u8> = payload.concat();
        ensure!(total <= flat.len() && w.data.len() == total, "vectored", format!("write/count/{class}"), "returned {total}, inner received {} bytes", w.data.len());
        ensure!(w.data == flat[..total], "vectored", format!("write/{class}"), "write_vectored returned {total}; inner received {} but the first {total} bytes of the buffers are {}", brief(&w.data), brief(&flat[..total]));
        Ok(if flat.is_empty() { Outcome::trivial("nothing") } else { Outcome::pass(&format!("write/{class}")) })
    } else {
        let src = source(c.n);
        let mut r = Chunked { data: &src, pos: 0, k };
        let mut store: Vec<Vec<u8>> = c.bufs.iter().map(|&l| vec![0xAAu8; l]).collect();
        let total = {
            let mut slices: Vec<IoSliceMut> = store.iter_mut().map(|b| IoSliceMut::new(b)).collect();
            must(VectoredIO::read_vectored(&mut r, &mut slices), "read_err", "vectored")?
        };
        let flat: Vec<u8> = store.concat();
        ensure!(total <= flat.len() && total == r.pos, "vectored", format!("read/count/{class}"), "returned {total}, inner gave out {} bytes", r.pos);
        ensure!(flat[..total] == src[..total], "vectored", format!("read/{class}"), "read_vectored returned {total}; the first {total} bytes of the buffers are {} but the stream is {}", brief(&flat[..total]), brief(&src[..total]));
        Ok(if total == 0 { Outcome::trivial("nothing") } else { Outcome::pass(&format!("read/{class}")) })
    }
}

pub fn register(reg: &mut Registry) {
    let rr_space = "every (offset 0..=13, len 0..=13) range over a 12-byte source x 5 constructors x 4 read patterns (read_to_end, 1-byte, 5-byte, cyclic 2/7/1/13); for the seeking constructors additionally SeekFrom::Start(0..=len+1), Current(-1..=2), End(-2..=1) before reading";
    reg.add(fam("RangeReader", rr_space, gen_rr, run_rr));
    reg.add(fam(
        "RangeReader::new[doc-example]",
        "RangeReader::new over a freshly created Cursor, as in the constructor's doc example (`RangeReader::new(cursor, 7, 5) // \"World\"`): every (offset, len) in 0..=13 x 4 read patterns",
        |_t, f: &mut dyn FnMut(RrCase) -> bool| {
            for off in 0..=13u64 {
                for len in 0..=13u64 {
                    for pat in 0..4u8 {
                        if !f(RrCase { ctor: "new(fresh Cursor)".into(), off, len, pat, seek: None }) {
                            return;
                        }
                    }
                }
            }
        },
        run_rr_doc,
    ));
    reg.add(fam(
        "RangeReader/DataInput",
        "every in-file (offset, len) range over a 12-byte source x 4 primitive-width sequences (u8 | u16,u8 | u32,u16,u8 | u64,u32,u16,u8) read until the range is exhausted; reads wider than the rest must be refused without consuming",
        |_t, f: &mut dyn FnMut(RrCase) -> bool| {
            for off in 0..=12u64 {
                for len in 0..=(12 - off) {
                    for pat in 0..4u8 {
                        if !f(RrCase { ctor: "new_and_seek".into(), off, len, pat, seek: None }) {
                            return;
                        }
                    }
                }
            }
        },
        run_rr_di,
    ));
    reg.add(fam(
        "RangeReader/histories",
        "2 seeking constructors x ranges (off,len) in {(3,6),(0,12),(8,9: reaches past the 12-byte source),(5,0)} x every sequence of <=3 (thorough 4) operations on one reader from {read(1|4), seek(Start(0|2)), seek(Current(-1|2)), seek(End(-1|1)), reset, seek_in_range(1), DataInput::read_u16, DataInput::skip(2)}; after every operation current_position/position/remaining/is_at_end; at the end the rest of the range is read",
        gen_rgr,
        run_rgr,
    ));
    reg.add(fam(
        "RangeWriter/histories",
        "ranges (off,len) in {(3,5),(0,12),(10,5: extends the 12-byte target)} x every sequence of <=4 (thorough 5) operations on one writer from {write(1|3|7), seek(Start(0|2)), seek(Current(-1|2)), seek(End(-1|0))} (range::writer); write-only sequences for RangeWriter::new / with_range over a pre-positioned target; accepted counts, counters after every operation, final content (overwrites after seeking back)",
        gen_rgw,
        run_rgw,
    ));
    reg.add(fam("MultiRangeReader", "all lists of <=2 ranges (start<=end) over points {0,1,5,11,12,14} (thorough: 9 points) of a 12-byte source x read chunk {1,3,64}; coverage audit: for two ranges and chunk 1|3 additionally the second range added with add_range() after the first read, and next_range() after the first read", gen_mr, run_mr));
    reg.add(fam("RangeWriter", "every (offset 0..=13, len 0..=13) over a 12-byte 0xEE-filled Cursor<Vec> x payload length {0,1,5,12,20} x write chunk {1,3,100}: accepted count, counters, final content", gen_rw, run_rw));
    reg.add(fam(
        "StreamBufferedReader/reads",
        "source of n bytes (quick n in {0,1,2,3,7,8,9,16,17,40}, thorough 0..=40) read through every sequence of <=4 (thorough <=5) Read::read sizes from {0,1,2,7,B-1,B,B+1}, then drained; buffer size B in {1,2,8} x 4 configs (read-ahead x2, no read-ahead, bulk bypass at >=B, capacity fixed at B) + 3 configs over an inner stream that hands out at most 1 or 3 bytes per call",
        gen_sr,
        run_sr,
    ));
    reg.add(fam(
        "StreamBufferedReader/mixed",
        "n in {0,5,40} (thorough +1,9) x B in {1,2,8} x 3 configs x every sequence of <=3 (thorough 4) operations from {read(1), read(B+1), read_simd_optimized(3), read_byte_fast, read_slice(2), fill_buf+consume(1|0), seek(Current(0|1)), seek(Start(1)); coverage audit: seek(Current(-1)), seek(End(-2)), read_bulk(B+1), ensure_buffered(B+1)}, then drained",
        gen_sm,
        run_sm,
    ));
    reg.add(fam(
        "StreamBufferedReader/transfer_sizes",
        "read_simd_optimized, Read::read and read_bulk (threshold 64) x buffer size B in {8,64,100,4096,65536} x source {300, 20 000} (thorough 0..150 000) x 9 cyclic transfer-size patterns around 8/16/32/64/128/256/4096 bytes and one 70 000-byte transfer, into a destination with canary bytes on both sides",
        gen_ss,
        run_ss,
    ));
    reg.add(fam(
        "StreamBuffered/presets",
        "the 4 library presets x source sizes straddling 2 KiB/4 KiB/8 KiB/16 KiB bulk thresholds and the 64 KiB buffer (quick 6 sizes, thorough 16) x 9 cyclic transfer-size patterns, reader and writer",
        gen_sp,
        run_sp,
    ));
    reg.add(fam(
        "StreamBufferedWriter",
        "B in {1,2,8} x 2 configs (buffered, bulk bypass at >=B) x every sequence of <=4 operations from {write(0|1|2|7|B-1|B|B+1), write_byte_fast, flush, seek(Current(0)); coverage audit: seek(Start(1)) followed by overwriting writes, seek(End(0))} over Cursor<Vec>; counters after each step, content after flush and into_inner",
        gen_sw,
        run_sw,
    ));
    reg.add(fam(
        "ZeroCopyReader",
        "capacity C in {1,2,8} x source n in {0,9,40} (thorough +1,8,17) x every sequence of <=3 (thorough 4) operations from {read(0|1|C|C+1), read_optimized/peek/zc_read+advance (1|C|C+1), skip_bytes(1|C+1), zc_ensure(C+1)}, then drained; plus secure-pool 64 KiB buffer scripts over sources up to 200 000 bytes; coverage audit: scripts with skip_bytes of 8192/8193/10 000/16 385/19 000 bytes between reads for ZeroCopyReader::new, the secure buffer and capacities 8 and 10 000",
        gen_zr,
        run_zr,
    ));
    reg.add(fam("ZeroCopyWriter", "capacity in {1,2,8,65536} x every sequence of <=4 operations from {write(k), zc_ensure_write+zc_write+zc_commit(k), flush}, k in {0,1,c/2,c-1,c,c+1} (c = min(cap,8)); content after flush and into_inner; coverage audit: the same with sequences of <=3 over an inner writer that accepts at most 1 or 3 bytes per call; capacity 65536 through ZeroCopyWriter::new", gen_zw, run_zw));
    reg.add(fam("ZeroCopyBuffer", "capacity in {0,1,4,8} x every sequence of <=4 (thorough 5) operations from {fill_from(reader giving <=1|3|100), drain_to(writer taking <=1|100), zc_write+commit(2), zc_read+advance(1|3), compact, zc_ensure_write(3), reset} against a byte FIFO", gen_zb, run_zb));
    reg.add(fam("MmapZeroCopyReader", "file of {0,1,12} bytes x every sequence of <=3 operations from {read(0|1|5|13), zc_read+advance(1|12|13), set_position(0|7|13)}", gen_mz, run_mz));
    reg.add(fam("VectoredIO", "read_vectored/write_vectored x inner stream transferring at most {unlimited,1,2,3} bytes per call x source {0,1,4,20} bytes x every list of <=3 buffers of size {0,1,2,5}: the first `returned` bytes of the concatenated buffers are the stream's next bytes", gen_vc, run_vc));
}
