//! DataInput / DataOutput primitives over every back end: slice, Vec, std::io, file, mmap,
//! and the stream wrappers used as std::io back ends; MemoryMappedInput/Output specifics.

use crate::{bad, blob, ensure, fam, grid_u64, must, ref_leb, text, TmpFile, BIG_BLOB_LENS_QUICK, BIG_BLOB_LENS_THOROUGH, BLOB_LENS, R};
use serde::{Deserialize, Serialize};
use std::fs::File;
use std::io::Cursor;
use zipora::io::data_input::{from_reader, from_slice, MmapDataInput};
use zipora::io::data_output::{to_file, to_file_append, to_vec_with_capacity, to_writer};
use zipora::io::zero_copy::mmap::MmapZeroCopyReader;
use zipora::io::{
    DataInput, DataOutput, FileDataOutput, MemoryMappedInput, MemoryMappedOutput, RangeReader, RangeWriter, ReaderDataInput,
    SliceDataInput, StreamBufferConfig, StreamBufferedReader, StreamBufferedWriter, VecDataOutput, WriterDataOutput,
    ZeroCopyReader, ZeroCopyWriter,
};
use zverif::util::brief;
use zverif::{Fail, Outcome, Registry, Tier};

#[derive(Serialize, Deserialize, Hash, Clone, Debug, PartialEq)]
pub enum Item {
    U8(u8),
    U16(u16),
    U32(u32),
    U64(u64),
    Var(u64),
    /// write_length_prefixed_bytes / read_length_prefixed_bytes (len, content kind)
    Bytes(usize, u8),
    /// write_length_prefixed_string / read_length_prefixed_string (byte len, content kind)
    Str(usize, u8),
    /// write_bytes / read_vec|read_bytes
    Raw(usize, u8),
    /// write_string / read_string(len)
    RawStr(usize, u8),
    /// write_bytes(n zero bytes) / skip(n)
    Skip(usize),
}

impl Item {
    fn encoding(&self) -> Vec<u8> {
        match self {
            Item::U8(v) => vec![*v],
            Item::U16(v) => v.to_le_bytes().to_vec(),
            Item::U32(v) => v.to_le_bytes().to_vec(),
            Item::U64(v) => v.to_le_bytes().to_vec(),
            Item::Var(v) => ref_leb(*v),
            Item::Bytes(n, k) => [ref_leb(*n as u64), blob(*n, *k)].concat(),
            Item::Str(n, k) => [ref_leb(*n as u64), text(*n, *k).into_bytes()].concat(),
            Item::Raw(n, k) => blob(*n, *k),
            Item::RawStr(n, k) => text(*n, *k).into_bytes(),
            Item::Skip(n) => vec![0u8; *n],
        }
    }
    fn kind(&self) -> &'static str {
        match self {
            Item::U8(_) => "u8",
            Item::U16(_) => "u16",
            Item::U32(_) => "u32",
            Item::U64(_) => "u64",
            Item::Var(_) => "var_int",
            Item::Bytes(..) => "lp_bytes",
            Item::Str(..) => "lp_string",
            Item::Raw(..) => "bytes",
            Item::RawStr(..) => "string",
            Item::Skip(_) => "skip",
        }
    }
}

#[derive(Serialize, Deserialize, Hash, Clone, Debug)]
pub struct IoCase {
    out: String,
    inp: String,
    items: Vec<Item>,
}

const OUTS: &[&str] = &[
    "vec", "writer-vec", "writer-file", "file", "file-append", "mmap-out[0]", "mmap-out[1]", "mmap-out[4096]",
    "writer-streambuf[2]", "writer-zerocopy[8]", "writer-range",
];
const INS: &[&str] = &[
    "slice", "reader-cursor", "reader-file", "mmapdata", "mminput", "mminput-padded", "range-cursor", "reader-streambuf[2]",
    "reader-zerocopy[8]", "reader-mmapzc",
];

fn single_items(tier: Tier) -> Vec<Item> {
    let mut v = Vec::new();
    for x in [0u8, 1, 0x7F, 0x80, 0xFF] {
        v.push(Item::U8(x));
    }
    for x in [0u16, 1, 0xFF, 0x100, 0x7FFF, 0x8000, 0xFFFF] {
        v.push(Item::U16(x));
    }
    for x in [0u32, 1, 0xFFFF, 0x1_0000, 0x7FFF_FFFF, 0x8000_0000, 0xFFFF_FFFF, 0x0403_0201] {
        v.push(Item::U32(x));
    }
    for x in [0u64, 1, 0xFFFF_FFFF, 0x1_0000_0000, i64::MAX as u64, 1 << 63, u64::MAX, 0x0807_0605_0403_0201] {
        v.push(Item::U64(x));
    }
    for x in grid_u64() {
        v.push(Item::Var(x));
    }
    for n in BLOB_LENS {
        for k in 0..3u8 {
            v.push(Item::Bytes(n, k));
        }
        for k in 0..2u8 {
            v.push(Item::Str(n, k));
        }
    }
    for n in [0usize, 1, 128] {
        v.push(Item::Raw(n, 2));
        v.push(Item::RawStr(n, 1));
    }
    for n in [0usize, 1, 8192, 8193] {
        v.push(Item::Skip(n));
    }
    let big: &[usize] = if tier == Tier::Quick { &BIG_BLOB_LENS_QUICK } else { &BIG_BLOB_LENS_THOROUGH };
    for &n in big {
        v.push(Item::Bytes(n, 1));
        v.push(Item::Str(n, 1));
        v.push(Item::Raw(n, 2));
        v.push(Item::RawStr(n, 1));
    }
    v
}

fn pair_items() -> Vec<Item> {
    vec![
        Item::U8(0xFF),
        Item::U16(0x8000),
        Item::U32(1),
        Item::U64(u64::MAX),
        Item::Var(0),
        Item::Var(127),
        Item::Var(128),
        Item::Var(u64::MAX),
        Item::Bytes(1, 2),
        Item::Str(128, 1),
        Item::Raw(3, 1),
        Item::Skip(2),
    ]
}

fn gen_io(tier: Tier, f: &mut dyn FnMut(IoCase) -> bool) {
    let singles = single_items(tier);
    let pairs = pair_items();
    for out in OUTS {
        for inp in INS {
            // quick: every output back end against the slice reader, every input back end against the Vec
            // writer, and the file→file / wrapper→wrapper diagonals; thorough: the full product
            let diag = matches!(
                (*out, *inp),
                ("file", "reader-file") | ("file", "mmapdata") | ("mmap-out[1]", "mminput") | ("writer-streambuf[2]", "reader-streambuf[2]")
                    | ("writer-zerocopy[8]", "reader-zerocopy[8]") | ("writer-range", "range-cursor")
            );
            if tier == Tier::Quick && !(*out == "vec" || *inp == "slice" || diag) {
                continue;
            }
            for it in &singles {
                if !f(IoCase { out: out.to_string(), inp: inp.to_string(), items: vec![it.clone()] }) {
                    return;
                }
            }
            for a in &pairs {
                for b in &pairs {
                    if !f(IoCase { out: out.to_string(), inp: inp.to_string(), items: vec![a.clone(), b.clone()] }) {
                        return;
                    }
                }
            }
            // a long value FOLLOWED by more data (a reader that takes too much eats the next value)
            for n in [65537usize, 70000] {
                for it in [Item::Bytes(n, 1), Item::Str(n, 1)] {
                    if !f(IoCase { out: out.to_string(), inp: inp.to_string(), items: vec![it, Item::U32(0x0403_0201), Item::Var(300)] }) {
                        return;
                    }
                }
            }
            // (coverage audit) read - skip - read - skip - read in the three size classes a file-backed input distinguishes
            // (MemoryMappedInput: <= 4 KiB buffered I/O, mmap, >= 1 MiB hugepage candidate) and across the 8 KiB skip chunk
            // of the std::io-based readers; the value after every skip differs from the bytes skipped
            let small: Vec<Item> = vec![Item::U32(0x0403_0201), Item::Skip(5), Item::U16(0xA1B2), Item::Skip(0), Item::Var(300), Item::Skip(1), Item::U8(7)];
            let medium: Vec<Item> = vec![Item::U32(0x0403_0201), Item::Skip(5000), Item::U16(0xA1B2), Item::Raw(9000, 2), Item::Skip(8193), Item::Var(300), Item::Str(3, 0), Item::U8(7)];
            let large: Vec<Item> = vec![Item::U32(0x0403_0201), Item::Skip(1 << 20), Item::U16(0xA1B2), Item::Skip(70_000), Item::Str(3, 0), Item::Skip(1), Item::U8(7)];
            for rec in [small, medium, large] {
                if !f(IoCase { out: out.to_string(), inp: inp.to_string(), items: rec }) {
                    return;
                }
            }
            // one long record: every kind once
            let long: Vec<Item> = pairs.iter().cloned().chain([Item::Str(16384, 1), Item::Var(1 << 63), Item::U8(7)]).collect();
            if !f(IoCase { out: out.to_string(), inp: inp.to_string(), items: long }) {
                return;
            }
        }
    }
}

/// Write `items` to `o`; after every item the reported position (where offered) must equal the
/// number of bytes the reference encoding says were produced.
fn emit<O: DataOutput>(o: &mut O, items: &[Item], base: u64, tag: &str) -> Result<(), Fail> {
    let mut total = base;
    for (i, it) in items.iter().enumerate() {
        let r = match it {
            Item::U8(v) => o.write_u8(*v),
            Item::U16(v) => o.write_u16(*v),
            Item::U32(v) => o.write_u32(*v),
            Item::U64(v) => o.write_u64(*v),
            Item::Var(v) => o.write_var_int(*v),
            Item::Bytes(n, k) => o.write_length_prefixed_bytes(&blob(*n, *k)),
            Item::Str(n, k) => o.write_length_prefixed_string(&text(*n, *k)),
            Item::Raw(n, k) => o.write_bytes(&blob(*n, *k)),
            Item::RawStr(n, k) => o.write_string(&text(*n, *k)),
            Item::Skip(n) => o.write_bytes(&vec![0u8; *n]),
        };
        must(r, "write_err", &format!("{tag}/{}", it.kind()))?;
        total += it.encoding().len() as u64;
        if let Some(p) = o.position() {
            ensure!(p == total, "written_count", format!("{tag}/position/{}", it.kind()), "after item {i} ({:?}) position() = {p}, encoder produced {total} bytes so far", it);
        }
        if let Some(p) = o.bytes_written() {
            ensure!(p == total, "written_count", format!("{tag}/bytes_written/{}", it.kind()), "after item {i} ({:?}) bytes_written() = {p}, produced {total}", it);
        }
    }
    must(o.flush(), "write_err", &format!("{tag}/flush"))?;
    Ok(())
}

fn small_cfg(b: usize) -> StreamBufferConfig {
    StreamBufferConfig {
        initial_capacity: b,
        max_capacity: 1 << 20,
        growth_factor: 1.618,
        page_alignment: 1,
        use_secure_pool: false,
        bulk_read_threshold: usize::MAX,
        enable_readahead: true,
        readahead_multiplier: 2,
    }
}

/// Produce the bytes through the named output back end.  `Ok(None)` = the back end could not be constructed.
fn produce(out: &str, items: &[Item]) -> Result<Option<Vec<u8>>, Fail> {
    Ok(Some(match out {
        "vec" => {
            let mut o = VecDataOutput::new();
            emit(&mut o, items, 0, out)?;
            ensure!(o.len() == o.as_slice().len(), "written_count", "vec/len", "len() != as_slice().len()");
            let mut o2 = to_vec_with_capacity(3);
            emit(&mut o2, items, 0, out)?;
            let v = o.into_vec();
            ensure!(o2.into_vec() == v, "bytes", "vec/with_capacity", "to_vec_with_capacity output differs");
            v
        }
        "writer-vec" => {
            let mut o = WriterDataOutput::new(Vec::new());
            emit(&mut o, items, 0, out)?;
            o.into_inner()
        }
        "writer-file" => {
            let t = TmpFile::new("wf");
            {
                let mut o = to_writer(File::create(&t.0).expect("create"));
                emit(&mut o, items, 0, out)?;
            }
            std::fs::read(&t.0).expect("read back")
        }
        "file" => {
            let t = TmpFile::new("fo");
            {
                let mut o = must(to_file(&t.0), "construct", "file")?;
                emit(&mut o, items, 0, out)?;
                ensure!(FileDataOutput::bytes_written(&o) == items.iter().map(|i| i.encoding().len() as u64).sum::<u64>(), "written_count", "file/bytes_written", "inherent bytes_written differs");
                must(o.sync_data(), "write_err", "file/sync_data")?;
            }
            std::fs::read(&t.0).expect("read back")
        }
        "file-append" => {
            let t = TmpFile::new("fa");
            let k = (items.len() + 1) / 2;
            {
                let mut o = must(FileDataOutput::create(&t.0), "construct", "file")?;
                emit(&mut o, &items[..k], 0, "file-append/create")?;
            }
            let base: u64 = items[..k].iter().map(|i| i.encoding().len() as u64).sum();
            {
                let mut o = must(to_file_append(&t.0), "construct", "file-append")?;
                emit(&mut o, &items[k..], base, "file-append/append")?;
            }
            std::fs::read(&t.0).expect("read back")
        }
        "mmap-out[0]" | "mmap-out[1]" | "mmap-out[4096]" => {
            let init: usize = out[9..out.len() - 1].parse().unwrap();
            let t = TmpFile::new("mo");
            {
                let mut o = match MemoryMappedOutput::create(&t.0, init) {
                    Ok(o) => o,
                    Err(_) => return Ok(None),
                };
                emit(&mut o, items, 0, out)?;
                let want: usize = items.iter().map(|i| i.encoding().len()).sum();
                ensure!(MemoryMappedOutput::position(&o) == want, "written_count", "mmap-out/position", "position() = {}, produced {want}", MemoryMappedOutput::position(&o));
                must(o.truncate(), "write_err", "mmap-out/truncate")?;
            }
            std::fs::read(&t.0).expect("read back")
        }
        "writer-streambuf[2]" => {
            let w = must(StreamBufferedWriter::with_config(Vec::new(), small_cfg(2)), "construct", "streambuf")?;
            let mut o = WriterDataOutput::new(w);
            emit(&mut o, items, 0, out)?;
            must(o.into_inner().into_inner(), "write_err", "streambuf/into_inner")?
        }
        "writer-zerocopy[8]" => {
            let w = must(ZeroCopyWriter::with_capacity(Vec::new(), 8), "construct", "zerocopy")?;
            let mut o = WriterDataOutput::new(w);
            emit(&mut o, items, 0, out)?;
            must(o.into_inner().into_inner(), "write_err", "zerocopy/into_inner")?
        }
        "writer-range" => {
            let w = must(RangeWriter::new_and_seek(Cursor::new(vec![0xEEu8; 3]), 3, 1 << 30), "construct", "range")?;
            let mut o = WriterDataOutput::new(w);
            emit(&mut o, items, 0, out)?;
            let inner = o.into_inner().into_inner().into_inner();
            ensure!(inner[..3] == [0xEE; 3], "bytes", "writer-range/outside_range", "bytes before the range changed: {}", brief(&inner[..3]));
            inner[3..].to_vec()
        }
        other => panic!("unknown output back end {other}"),
    }))
}

/// Read `items` back from `i`: equal values, and after each item exactly the encoder's byte count consumed.
fn absorb<I: DataInput>(i: &mut I, items: &[Item], exact_end: bool, tag: &str) -> Result<(), Fail> {
    let mut total = 0u64;
    for (n, it) in items.iter().enumerate() {
        let kind = it.kind();
        let cls = format!("{tag}/{kind}");
        match it {
            Item::U8(v) => {
                let g = must(i.read_u8(), "read_err", &cls)?;
                ensure!(g == *v, "value", cls, "item {n}: read_u8 = {g:#x}, wrote {v:#x}");
            }
            Item::U16(v) => {
                let g = must(i.read_u16(), "read_err", &cls)?;
                ensure!(g == *v, "value", cls, "item {n}: read_u16 = {g:#x}, wrote {v:#x}");
            }
            Item::U32(v) => {
                let g = must(i.read_u32(), "read_err", &cls)?;
                ensure!(g == *v, "value", cls, "item {n}: read_u32 = {g:#x}, wrote {v:#x}");
            }
            Item::U64(v) => {
                let g = must(i.read_u64(), "read_err", &cls)?;
                ensure!(g == *v, "value", cls, "item {n}: read_u64 = {g:#x}, wrote {v:#x}");
            }
            Item::Var(v) => {
                let g = must(i.read_var_int(), "read_err", &cls)?;
                ensure!(g == *v, "value", cls, "item {n}: read_var_int = {g}, wrote {v}");
            }
            Item::Bytes(len, k) => {
                let g = must(i.read_length_prefixed_bytes(), "read_err", &cls)?;
                ensure!(g == blob(*len, *k), "value", cls, "item {n}: length-prefixed bytes differ: got {}", brief(&g));
            }
            Item::Str(len, k) => {
                let g = must(i.read_length_prefixed_string(), "read_err", &cls)?;
                ensure!(g == text(*len, *k), "value", cls, "item {n}: length-prefixed string differs: got {} bytes", g.len());
            }
            Item::Raw(len, k) => {
                let g = if n % 2 == 0 {
                    must(i.read_vec(*len), "read_err", &cls)?
                } else {
                    let mut b = vec![0x55u8; *len];
                    must(i.read_bytes(&mut b), "read_err", &cls)?;
                    b
                };
                ensure!(g == blob(*len, *k), "value", cls, "item {n}: raw bytes differ: got {}", brief(&g));
            }
            Item::RawStr(len, k) => {
                let g = must(i.read_string(*len), "read_err", &cls)?;
                ensure!(g == text(*len, *k), "value", cls, "item {n}: raw string differs");
            }
            Item::Skip(len) => must(i.skip(*len), "read_err", &cls)?,
        }
        total += it.encoding().len() as u64;
        if let Some(p) = i.position() {
            ensure!(p == total, "consumed", cls, "after item {n} ({:?}) position() = {p}, the encoder produced {total} bytes", it);
        }
    }
    if exact_end {
        if let Some(more) = i.has_remaining() {
            ensure!(!more, "consumed", format!("{tag}/has_remaining"), "has_remaining() = true after the last item ({total} bytes)");
        }
        ensure!(i.read_u8().is_err(), "consumed", format!("{tag}/eof"), "read_u8 succeeded after the last item");
    }
    Ok(())
}

fn consume(inp: &str, bytes: &[u8], items: &[Item]) -> Result<bool, Fail> {
    match inp {
        "slice" => {
            let mut i = from_slice(bytes);
            absorb(&mut i, items, true, inp)?;
            ensure!(i.pos() == bytes.len() && i.remaining() == 0 && !i.has_more() && i.remaining_slice().is_empty(), "consumed", "slice/inherent", "pos={} remaining={}", i.pos(), i.remaining());
            let _ = SliceDataInput::new(bytes);
        }
        "reader-cursor" => {
            let mut i = from_reader(Cursor::new(bytes.to_vec()));
            absorb(&mut i, items, true, inp)?;
            ensure!(i.pos() == bytes.len() as u64, "consumed", "reader/pos", "pos() = {}", i.pos());
            ensure!(i.into_inner().position() == bytes.len() as u64, "consumed", "reader/inner_position", "inner cursor not at end");
        }
        "reader-file" => {
            let t = TmpFile::with_bytes("rf", bytes);
            let mut i = ReaderDataInput::new(File::open(&t.0).expect("open"));
            absorb(&mut i, items, true, inp)?;
        }
        "mmapdata" => {
            let t = TmpFile::with_bytes("md", bytes);
            let mut i = match zipora::io::from_file(&t.0) {
                Ok(i) => i,
                Err(_) => return Ok(false),
            };
            ensure!(i.len() == bytes.len() && i.as_slice() == bytes, "value", "mmapdata/as_slice", "mapped bytes differ");
            absorb(&mut i, items, true, inp)?;
            ensure!(MmapDataInput::pos(&i) == bytes.len() && i.remaining() == 0, "consumed", "mmapdata/inherent", "pos={}", i.pos());
        }
        "mminput" => {
            let t = TmpFile::with_bytes("mi", bytes);
            let mut i = match MemoryMappedInput::from_path(&t.0) {
                Ok(i) => i,
                Err(_) => return Ok(false),
            };
            ensure!(i.len() == bytes.len(), "value", "mminput/len", "len() = {}", i.len());
            absorb(&mut i, items, true, inp)?;
            ensure!(MemoryMappedInput::position(&i) == bytes.len() && i.remaining() == 0, "consumed", "mminput/position", "position() = {} of {}", MemoryMappedInput::position(&i), bytes.len());
        }
        "mminput-padded" => {
            let mut padded = bytes.to_vec();
            padded.extend_from_slice(&[0xA5u8; 5000]);
            let t = TmpFile::with_bytes("mp", &padded);
            let mut i = match MemoryMappedInput::new(File::open(&t.0).expect("open")) {
                Ok(i) => i,
                Err(_) => return Ok(false),
            };
            absorb(&mut i, items, false, inp)?;
            ensure!(MemoryMappedInput::position(&i) == bytes.len(), "consumed", "mminput-padded/position", "position() = {} of {}", MemoryMappedInput::position(&i), bytes.len());
            let g = must(i.read_u8(), "read_err", "mminput-padded/next")?;
            ensure!(g == 0xA5, "consumed", "mminput-padded/next", "the byte after the record reads {g:#x}");
        }
        "range-cursor" => {
            let framed = [&[0xEEu8; 3][..], bytes, &[0xDD, 0xDD][..]].concat();
            let mut i = must(RangeReader::new_and_seek(Cursor::new(framed), 3, bytes.len() as u64), "construct", "range")?;
            absorb(&mut i, items, true, inp)?;
        }
        "reader-streambuf[2]" => {
            let r = must(StreamBufferedReader::with_config(Cursor::new(bytes.to_vec()), small_cfg(2)), "construct", "streambuf")?;
            let mut i = ReaderDataInput::new(r);
            absorb(&mut i, items, true, inp)?;
        }
        "reader-zerocopy[8]" => {
            let r = must(ZeroCopyReader::with_capacity(Cursor::new(bytes.to_vec()), 8), "construct", "zerocopy")?;
            let mut i = ReaderDataInput::new(r);
            absorb(&mut i, items, true, inp)?;
        }
        "reader-mmapzc" => {
            let t = TmpFile::with_bytes("mz", bytes);
            let r = match MmapZeroCopyReader::new(File::open(&t.0).expect("open")) {
                Ok(r) => r,
                Err(_) => return Ok(false),
            };
            let mut i = ReaderDataInput::new(r);
            absorb(&mut i, items, true, inp)?;
        }
        other => panic!("unknown input back end {other}"),
    }
    Ok(true)
}

fn run_io(c: &IoCase) -> R {
    let want: Vec<u8> = c.items.iter().flat_map(|i| i.encoding()).collect();
    let bytes = match produce(&c.out, &c.items)? {
        Some(b) => b,
        None => return Ok(Outcome::skip("output back end refused construction")),
    };
    ensure!(bytes == want, "bytes", format!("{}/{}", c.out, c.items.iter().map(|i| i.kind()).collect::<Vec<_>>().join("+")),
        "back end stored {} but the documented encoding (LE fixed width, LEB128 length prefixes) is {}", brief(&bytes), brief(&want));
    if !consume(&c.inp, &bytes, &c.items)? {
        return Ok(Outcome::skip("input back end refused construction"));
    }
    Ok(Outcome::pass(&format!("{}>{}/{}", c.out, c.inp, c.items.iter().map(|i| i.kind()).collect::<Vec<_>>().join("+"))))
}

// ---------------------------------------------------------------------------------------------
// MemoryMappedInput: strategies by file size, random access

#[derive(Serialize, Deserialize, Hash, Clone, Debug)]
pub struct MmCase {
    size: usize,
    pattern: u8,
    pos: usize,
    len: usize,
}

fn file_bytes(size: usize) -> Vec<u8> {
    (0..size).map(|i| ((i * 31 + i / 251) % 256) as u8).collect()
}

fn gen_mm(tier: Tier, f: &mut dyn FnMut(MmCase) -> bool) {
    let sizes: &[usize] = if tier == Tier::Quick {
        &[0, 1, 12, 4095, 4096, 4097, 8193, (1 << 20) - 1, 1 << 20]
    } else {
        &[0, 1, 12, 4095, 4096, 4097, 8193, 65536, (1 << 20) - 1, 1 << 20, (1 << 20) + 1, (2 << 20) + 5]
    };
    for &size in sizes {
        let mut poss = vec![0usize, 1, size / 2, size.saturating_sub(8), size.saturating_sub(1), size, size + 1];
        poss.sort_unstable();
        poss.dedup();
        for pattern in 0..4u8 {
            for &pos in &poss {
                for len in [0usize, 1, 2, 8, 4096, 8193] {
                    if !f(MmCase { size, pattern, pos, len }) {
                        return;
                    }
                }
            }
        }
    }
}

fn run_mm(c: &MmCase) -> R {
    use zipora::io::AccessPattern;
    let data = file_bytes(c.size);
    let t = TmpFile::with_bytes("mm", &data);
    let pat = [AccessPattern::Unknown, AccessPattern::Sequential, AccessPattern::Random, AccessPattern::Mixed][c.pattern as usize];
    let mut i = match MemoryMappedInput::from_path_with_pattern(&t.0, pat) {
        Ok(i) => i,
        Err(_) => return Ok(Outcome::skip("construction refused")),
    };
    let strat = format!("{:?}", i.strategy());
    ensure!(i.len() == c.size && i.is_empty() == (c.size == 0), "value", "len", "len() = {} for a {}-byte file", i.len(), c.size);
    let seek = i.seek(c.pos);
    if c.pos > c.size {
        ensure!(seek.is_err(), "consumed", "seek_past_end", "seek({}) succeeded on a {}-byte file", c.pos, c.size);
        return Ok(Outcome::trivial(&format!("{strat}/seek_refused")));
    }
    must(seek, "read_err", "seek")?;
    ensure!(i.position() == c.pos && i.remaining() == c.size - c.pos, "consumed", "seek", "position() = {} after seek({})", i.position(), c.pos);
    let in_bounds = c.pos + c.len <= c.size;
    // peeks do not move
    if let Ok(p) = i.peek_slice(c.len) {
        ensure!(in_bounds && p == data[c.pos..c.pos + c.len], "value", format!("{strat}/peek_slice"), "peek_slice({}) at {} differs", c.len, c.pos);
    }
    if let Ok(p) = i.peek_slice_zero_copy(c.len) {
        ensure!(in_bounds && p == &data[c.pos..c.pos + c.len], "value", format!("{strat}/peek_zero_copy"), "peek_slice_zero_copy differs");
    }
    ensure!(i.position() == c.pos, "consumed", format!("{strat}/peek_moved"), "peek moved the position to {}", i.position());
    match i.read_slice(c.len) {
        Ok(g) => {
            ensure!(in_bounds, "consumed", format!("{strat}/read_past_end"), "read_slice({}) at {} of {} succeeded", c.len, c.pos, c.size);
            ensure!(g == data[c.pos..c.pos + c.len], "value", format!("{strat}/read_slice"), "read_slice({}) at {}: got {}", c.len, c.pos, brief(&g));
            ensure!(i.position() == c.pos + c.len, "consumed", format!("{strat}/read_slice"), "position() = {} after reading {} at {}", i.position(), c.len, c.pos);
        }
        Err(e) => {
            ensure!(!in_bounds, "read_err", format!("{strat}/read_slice"), "read_slice({}) at {} of {}: {e}", c.len, c.pos, c.size);
            ensure!(i.position() == c.pos, "consumed", format!("{strat}/failed_read_moved"), "a refused read moved the position to {}", i.position());
        }
    }
    // a second pass with the zero-copy reader and primitives from the same position
    must(i.seek(c.pos), "read_err", "seek")?;
    match i.read_slice_zero_copy(c.len) {
        Ok(g) => {
            ensure!(in_bounds && g == &data[c.pos..c.pos + c.len], "value", format!("{strat}/read_zero_copy"), "read_slice_zero_copy differs");
            ensure!(i.position() == c.pos + c.len, "consumed", format!("{strat}/read_zero_copy"), "position() = {}", i.position());
        }
        Err(_) => {
            ensure!(i.position() == c.pos, "consumed", format!("{strat}/failed_read_moved"), "a refused zero-copy read moved the position");
        }
    }
    must(i.seek(c.pos), "read_err", "seek")?;
    if c.pos + 8 <= c.size {
        let w = u64::from_le_bytes(data[c.pos..c.pos + 8].try_into().unwrap());
        let g = must(i.read_u64(), "read_err", &format!("{strat}/u64"))?;
        ensure!(g == w && i.position() == c.pos + 8, "value", format!("{strat}/u64"), "read_u64 at {} = {g:#x} want {w:#x}", c.pos);
        must(i.seek(c.pos), "read_err", "seek")?;
        must(i.skip(3), "read_err", "skip")?;
        let g = must(i.read_u8(), "read_err", &format!("{strat}/u8"))?;
        ensure!(g == data[c.pos + 3] && i.position() == c.pos + 4, "value", format!("{strat}/skip+u8"), "skip(3)+read_u8 at {} = {g:#x}", c.pos);
    }
    Ok(Outcome::pass(&format!("{strat}/{}", if in_bounds { "in" } else { "out" })))
}

// ---------------------------------------------------------------------------------------------
// MemoryMappedOutput: growth, seek, truncate

#[derive(Serialize, Deserialize, Hash, Clone, Debug)]
pub struct MoCase {
    init: usize,
    writes: Vec<usize>,
    reopen: bool,
}

fn gen_mo(_tier: Tier, f: &mut dyn FnMut(MoCase) -> bool) {
    for init in [0usize, 1, 2, 16, 4096] {
        zverif::util::all_strings(&[0usize, 1, 2, 15, 16, 17, 5000], 3, &mut |w| {
            f(MoCase { init, writes: w.to_vec(), reopen: false }) && f(MoCase { init, writes: w.to_vec(), reopen: true })
        });
    }
}

fn run_mo(c: &MoCase) -> R {
    let t = TmpFile::new("mout");
    let mut o = match MemoryMappedOutput::create(&t.0, c.init) {
        Ok(o) => o,
        Err(_) => return Ok(Outcome::skip("create refused")),
    };
    ensure!(o.capacity() == c.init && o.position() == 0 && o.remaining() == c.init, "written_count", "create", "capacity {} position {}", o.capacity(), o.position());
    let mut model: Vec<u8> = Vec::new();
    for (k, &n) in c.writes.iter().enumerate() {
        let chunk: Vec<u8> = (0..n).map(|i| (i + k * 37 + 1) as u8).collect();
        must(o.write_slice(&chunk), "write_err", "write_slice")?;
        model.extend_from_slice(&chunk);
        ensure!(o.position() == model.len(), "written_count", "position", "position() = {} after {} bytes", o.position(), model.len());
        ensure!(o.capacity() >= model.len(), "written_count", "capacity", "capacity {} < written {}", o.capacity(), model.len());
    }
    must(o.flush(), "write_err", "flush")?;
    if c.reopen && !model.is_empty() {
        // overwrite the first byte through seek, then come back
        must(o.seek(0), "write_err", "seek")?;
        must(o.write_u8(0xC3), "write_err", "write_u8")?;
        model[0] = 0xC3;
        must(o.seek(model.len()), "write_err", "seek")?;
    }
    must(o.truncate(), "write_err", "truncate")?;
    ensure!(o.capacity() == model.len(), "written_count", "truncate", "capacity {} after truncate at {}", o.capacity(), model.len());
    drop(o);
    let got = std::fs::read(&t.0).expect("read back");
    ensure!(got == model, "bytes", if got.len() != model.len() { "file_len" } else { "file_content" }, "file holds {} want {}", brief(&got), brief(&model));
    if c.reopen {
        let o2 = match MemoryMappedOutput::open(&t.0) {
            Ok(o) => o,
            Err(_) => return Ok(Outcome::pass("reopen_refused")),
        };
        ensure!(o2.capacity() == model.len() && o2.position() == 0, "written_count", "open", "capacity {} position {}", o2.capacity(), o2.position());
    }
    Ok(if model.is_empty() { Outcome::trivial("empty") } else { Outcome::pass(if model.len() > c.init { "grown" } else { "fits" }) })
}

// ---------------------------------------------------------------------------------------------
// (coverage audit) operation histories on ONE input object: read - skip - read, peek - read, seek - read ...
// for every input back end and every size class a back end distinguishes

#[derive(Serialize, Deserialize, Hash, Clone, Debug, PartialEq)]
pub enum HOp {
    U8,
    U16,
    U32,
    U64,
    Var,
    Bytes(usize),
    Vec(usize),
    Skip(usize),
    // MemoryMappedInput only
    Slice(usize),
    SliceZc(usize),
    Peek(usize),
    PeekZc(usize),
    /// seek to an absolute position: 0 = start, 1 = 1, 2 = size/2, 3 = size-3 (saturating), 4 = size
    Seek(u8),
}

#[derive(Serialize, Deserialize, Hash, Clone, Debug)]
pub struct HCase {
    inp: String,
    size: usize,
    ops: Vec<HOp>,
}

/// every byte differs from its neighbours and from the byte 2, 3, 4, 8 places on; no byte has the continuation bit
/// pattern that would make a var_int longer than 2 bytes
fn hist_bytes(size: usize) -> Vec<u8> {
    (0..size).map(|i| if i % 5 == 4 { (i % 97) as u8 + 1 } else { 0x80 | ((i * 7 + i / 128) % 120) as u8 }).collect()
}

/// a file of `size` history bytes, created once per process and size (the large ones are > 1 MiB)
fn hist_file(size: usize) -> std::path::PathBuf {
    use std::collections::HashMap;
    use std::sync::{Mutex, OnceLock};
    static FILES: OnceLock<Mutex<HashMap<usize, std::path::PathBuf>>> = OnceLock::new();
    let mut m = FILES.get_or_init(|| Mutex::new(HashMap::new())).lock().unwrap_or_else(|e| e.into_inner());
    m.entry(size)
        .or_insert_with(|| {
            let p = crate::scratch_file("hist");
            std::fs::write(&p, hist_bytes(size)).expect("write history file");
            p
        })
        .clone()
}

const H_INS: &[&str] = &["slice", "reader-cursor", "reader-file", "mmapdata", "mminput", "range-cursor", "reader-streambuf[2]", "reader-zerocopy[8]", "reader-mmapzc"];

fn gen_hist(tier: Tier, f: &mut dyn FnMut(HCase) -> bool) {
    let fwd = vec![HOp::U8, HOp::U16, HOp::U32, HOp::Var, HOp::Bytes(3), HOp::Vec(2), HOp::Skip(0), HOp::Skip(1), HOp::Skip(3)];
    let depth = tier.pick(3, 4);
    for inp in H_INS {
        // mminput: 40 and 4096 bytes are read with buffered I/O, 4097 is mapped; the others do not care
        // 5 bytes: most histories run out of input (refused operations must not move / must not be served)
        let sizes: &[usize] = if *inp == "mminput" { &[40, 5, 4096, 4097] } else { &[40, 5] };
        for &size in sizes {
            if !all_strings(&fwd, depth, &mut |o| f(HCase { inp: inp.to_string(), size, ops: o.to_vec() })) {
                return;
            }
        }
        // long skips (past the 8 KiB scratch buffer of the std::io based readers) between reads, > 1 MiB for the file-backed ones
        for size in [20_000usize, (1 << 20) + 77] {
            for ops in [
                vec![HOp::U16, HOp::Skip(8193), HOp::U32, HOp::Skip(8192), HOp::Var, HOp::Skip(1), HOp::U8],
                vec![HOp::Skip(16_385), HOp::U64, HOp::Skip(0), HOp::Bytes(5)],
                vec![HOp::Vec(9000), HOp::Skip(3), HOp::U16, HOp::Skip(10_000), HOp::U8],
            ] {
                if !f(HCase { inp: inp.to_string(), size, ops }) {
                    return;
                }
            }
        }
    }
}

fn gen_mmhist(tier: Tier, f: &mut dyn FnMut(HCase) -> bool) {
    let ops = vec![
        HOp::U8,
        HOp::U32,
        HOp::Slice(3),
        HOp::SliceZc(2),
        HOp::Peek(4),
        HOp::PeekZc(2),
        HOp::Skip(2),
        HOp::Skip(0),
        HOp::Seek(0),
        HOp::Seek(1),
        HOp::Seek(2),
        HOp::Seek(3),
        HOp::Seek(4),
    ];
    let depth = tier.pick(3, 4);
    // <= 4096: buffered I/O; 4097 / 70 000: standard mapping; > 1 MiB: hugepage candidate
    for size in [0usize, 7, 4096, 4097, 70_000, (1 << 20) + 77] {
        if !all_strings(&ops, depth, &mut |o| f(HCase { inp: "mminput".into(), size, ops: o.to_vec() })) {
            return;
        }
    }
}

use zverif::util::all_strings;

/// what the history object offers beyond DataInput
trait HistInput: DataInput {
    fn inherent_position(&self) -> Option<usize> {
        None
    }
    fn mm(&mut self) -> Option<&mut MemoryMappedInput> {
        None
    }
}
impl<'a> HistInput for SliceDataInput<'a> {
    fn inherent_position(&self) -> Option<usize> {
        Some(self.pos())
    }
}
impl<Rd: std::io::Read> HistInput for ReaderDataInput<Rd> {
    fn inherent_position(&self) -> Option<usize> {
        Some(self.pos() as usize)
    }
}
impl HistInput for MmapDataInput {
    fn inherent_position(&self) -> Option<usize> {
        Some(self.pos())
    }
}
impl HistInput for MemoryMappedInput {
    fn inherent_position(&self) -> Option<usize> {
        Some(MemoryMappedInput::position(self))
    }
    fn mm(&mut self) -> Option<&mut MemoryMappedInput> {
        Some(self)
    }
}
impl<Rd: std::io::Read> HistInput for RangeReader<Rd> {}

/// Run the history against the byte model: every successful operation returns the bytes at the model position and
/// advances by exactly its width; a refused operation (Err) is only acceptable where the model says the input has too
/// few bytes left (or the strategy does not offer the call), and then a following read still continues at the model
/// position for the back ends whose contract says "refused reads do not move" (slice, mmap, range);
/// at the end the rest of the input is read byte by byte and must be exactly the rest of the data.
fn run_history<I: HistInput>(i: &mut I, data: &[u8], ops: &[HOp], tag: &str, strict_refusal: bool) -> Result<String, Fail> {
    let size = data.len();
    let mut pos = 0usize;
    let mut seen = String::new();
    for (k, op) in ops.iter().enumerate() {
        let left = size - pos;
        let cls = |w: &str| format!("{tag}/{w}");
        macro_rules! fixed {
            ($w:expr, $call:expr, $from:expr, $name:expr) => {{
                let r = $call;
                if left >= $w {
                    let g = r.map_err(|e| bad("read_err", cls($name), format!("op #{k} {:?} at {pos}/{size} (history {:?}): {e}", op, ops)))?;
                    let want = $from(&data[pos..pos + $w]);
                    ensure!(g == want, "value", cls($name), "op #{k} {:?} at {pos}/{size} returned {g:#x}, the input holds {want:#x} there (history {:?})", op, ops);
                    pos += $w;
                } else {
                    ensure!(r.is_err(), "consumed", cls("read_past_end"), "op #{k} {:?} succeeded with {left} bytes left", op);
                    if !strict_refusal {
                        return Ok(format!("{seen}refused"));
                    }
                }
            }};
        }
        match op {
            HOp::U8 => fixed!(1, i.read_u8(), |b: &[u8]| b[0], "u8"),
            HOp::U16 => fixed!(2, i.read_u16(), |b: &[u8]| u16::from_le_bytes([b[0], b[1]]), "u16"),
            HOp::U32 => fixed!(4, i.read_u32(), |b: &[u8]| u32::from_le_bytes(b.try_into().unwrap()), "u32"),
            HOp::U64 => fixed!(8, i.read_u64(), |b: &[u8]| u64::from_le_bytes(b.try_into().unwrap()), "u64"),
            HOp::Var => {
                // the reference decoder on the model bytes
                let mut v = 0u64;
                let mut n = 0usize;
                let mut complete = false;
                while pos + n < size && n < 10 {
                    let b = data[pos + n];
                    v |= ((b & 0x7F) as u64) << (7 * n);
                    n += 1;
                    if b & 0x80 == 0 {
                        complete = true;
                        break;
                    }
                }
                match i.read_var_int() {
                    Ok(g) => {
                        ensure!(complete && g == v, "value", cls("var_int"), "op #{k} read_var_int at {pos}/{size} = {g}, the bytes there decode to {:?} (history {:?})", if complete { Some(v) } else { None }, ops);
                        pos += n;
                    }
                    Err(e) => {
                        ensure!(!complete, "read_err", cls("var_int"), "op #{k} read_var_int at {pos}/{size}: {e} (history {:?})", ops);
                        // an incomplete var_int has consumed the rest of the input on the streaming back ends
                        return Ok(format!("{seen}refused"));
                    }
                }
            }
            HOp::Bytes(w) | HOp::Vec(w) => {
                let r = if matches!(op, HOp::Bytes(_)) {
                    let mut b = vec![0x55u8; *w];
                    i.read_bytes(&mut b).map(|_| b)
                } else {
                    i.read_vec(*w)
                };
                if left >= *w {
                    let g = r.map_err(|e| bad("read_err", cls("bytes"), format!("op #{k} {:?} at {pos}/{size} (history {:?}): {e}", op, ops)))?;
                    ensure!(g == data[pos..pos + w], "value", cls("bytes"), "op #{k} {:?} at {pos}/{size} returned {}, the input holds {} (history {:?})", op, brief(&g), brief(&data[pos..pos + w]), ops);
                    pos += w;
                } else {
                    ensure!(r.is_err(), "consumed", cls("read_past_end"), "op #{k} {:?} succeeded with {left} bytes left", op);
                    if !strict_refusal {
                        return Ok(format!("{seen}refused"));
                    }
                }
            }
            HOp::Skip(w) => {
                let r = i.skip(*w);
                if left >= *w {
                    r.map_err(|e| bad("read_err", cls("skip"), format!("op #{k} skip({w}) at {pos}/{size} (history {:?}): {e}", ops)))?;
                    pos += w;
                } else {
                    ensure!(r.is_err(), "consumed", cls("skip_past_end"), "op #{k} skip({w}) succeeded with {left} bytes left");
                    if !strict_refusal {
                        return Ok(format!("{seen}refused"));
                    }
                }
            }
            HOp::Slice(w) | HOp::SliceZc(w) | HOp::Peek(w) | HOp::PeekZc(w) => {
                let m = i.mm().expect("MemoryMappedInput history");
                let advance = matches!(op, HOp::Slice(_) | HOp::SliceZc(_));
                let r: zipora::Result<Vec<u8>> = match op {
                    HOp::Slice(_) => m.read_slice(*w),
                    HOp::SliceZc(_) => m.read_slice_zero_copy(*w).map(|s| s.to_vec()),
                    HOp::Peek(_) => m.peek_slice(*w),
                    _ => m.peek_slice_zero_copy(*w).map(|s| s.to_vec()),
                };
                match r {
                    Ok(g) => {
                        ensure!(left >= *w, "consumed", cls("read_past_end"), "op #{k} {:?} succeeded with {left} bytes left", op);
                        ensure!(g == data[pos..pos + w], "value", cls(if advance { "slice" } else { "peek" }), "op #{k} {:?} at {pos}/{size} returned {}, the input holds {} (history {:?})", op, brief(&g), brief(&data[pos..pos + w]), ops);
                        if advance {
                            pos += w;
                        }
                    }
                    Err(e) => {
                        // only read_slice is offered by every strategy
                        ensure!(left < *w || !matches!(op, HOp::Slice(_)), "read_err", cls("slice"), "op #{k} {:?} at {pos}/{size}: {e} (history {:?})", op, ops);
                    }
                }
            }
            HOp::Seek(sel) => {
                let target = match sel { 0 => 0, 1 => 1, 2 => size / 2, 3 => size.saturating_sub(3), _ => size };
                let m = i.mm().expect("MemoryMappedInput history");
                if target <= size {
                    m.seek(target).map_err(|e| bad("read_err", cls("seek"), format!("op #{k} seek({target}) on {size} bytes: {e}")))?;
                    pos = target;
                } else {
                    ensure!(m.seek(target).is_err(), "consumed", cls("seek_past_end"), "seek({target}) succeeded on {size} bytes");
                }
            }
        }
        if let Some(p) = i.position() {
            ensure!(p == pos as u64, "consumed", cls("position"), "after op #{k} {:?} position() = {p}, the operations so far consumed {pos} bytes (history {:?})", op, ops);
        }
        if let Some(p) = i.inherent_position() {
            ensure!(p == pos, "consumed", cls("position"), "after op #{k} {:?} the reader's position is {p}, the operations so far consumed {pos} bytes (history {:?})", op, ops);
        }
        seen = "ok/".into();
    }
    // the rest of the input, byte by byte for short rests, in 4 KiB pieces + bytes for long ones
    let mut rest = Vec::with_capacity(size - pos);
    while size - pos - rest.len() >= 4096 {
        let mut b = vec![0u8; 4096];
        i.read_bytes(&mut b).map_err(|e| bad("read_err", format!("{tag}/rest"), format!("reading the rest after history {:?} at {}/{size}: {e}", ops, pos + rest.len())))?;
        rest.extend_from_slice(&b);
    }
    while let Ok(b) = i.read_u8() {
        rest.push(b);
        if rest.len() > size - pos {
            break;
        }
    }
    ensure!(rest == data[pos..], "consumed", format!("{tag}/rest"), "after history {:?} ({pos} bytes consumed of {size}) the rest of the input reads {} ({} bytes), the input holds {} ({} bytes)", ops, brief(&rest), rest.len(), brief(&data[pos..]), size - pos);
    Ok(format!("{seen}done"))
}

fn run_hist(c: &HCase) -> R {
    let data = hist_bytes(c.size);
    let tag = if c.inp == "mminput" { format!("mminput[{}]", if c.size <= 4096 { "<=4KiB" } else if c.size < (1 << 20) { "mmap" } else { ">=1MiB" }) } else { c.inp.clone() };
    let outcome = match c.inp.as_str() {
        "slice" => run_history(&mut from_slice(&data), &data, &c.ops, &tag, true)?,
        "reader-cursor" => run_history(&mut from_reader(Cursor::new(data.clone())), &data, &c.ops, &tag, false)?,
        "reader-file" => run_history(&mut ReaderDataInput::new(File::open(hist_file(c.size)).expect("open")), &data, &c.ops, &tag, false)?,
        "mmapdata" => match zipora::io::from_file(hist_file(c.size)) {
            Ok(mut i) => run_history(&mut i, &data, &c.ops, &tag, true)?,
            Err(_) => return Ok(Outcome::skip("input back end refused construction")),
        },
        "mminput" => match MemoryMappedInput::from_path(hist_file(c.size)) {
            Ok(mut i) => {
                let strat = format!("{:?}", i.strategy());
                let o = run_history(&mut i, &data, &c.ops, &tag, true)?;
                format!("{strat}/{o}")
            }
            Err(_) => return Ok(Outcome::skip("input back end refused construction")),
        },
        "range-cursor" => {
            let framed = [&[0xEEu8; 3][..], &data[..], &[0xDD, 0xDD][..]].concat();
            let mut i = must(RangeReader::new_and_seek(Cursor::new(framed), 3, data.len() as u64), "construct", "range")?;
            let first = run_history(&mut i, &data, &c.ops, &tag, true)?;
            // the same reader again after reset(): a second pass over the range behaves like the first one (and still
            // ends at the end of the range, not at the end of the stream behind it)
            must(i.reset(), "construct", "range/reset")?;
            ensure!(i.remaining() == data.len() as u64 && i.current_position() == i.start_position(), "consumed", format!("{tag}/after-reset/position"), "after reset(): current_position() = {}, remaining() = {} for a range of {} bytes starting at {}", i.current_position(), i.remaining(), data.len(), i.start_position());
            let second = run_history(&mut i, &data, &c.ops, &format!("{tag}/after-reset"), true)?;
            ensure!(first == second, "consumed", format!("{tag}/after-reset/outcome"), "first pass {first}, second pass after reset() {second}");
            first
        }
        "reader-streambuf[2]" => {
            let r = must(StreamBufferedReader::with_config(Cursor::new(data.clone()), small_cfg(2)), "construct", "streambuf")?;
            run_history(&mut ReaderDataInput::new(r), &data, &c.ops, &tag, false)?
        }
        "reader-zerocopy[8]" => {
            let r = must(ZeroCopyReader::with_capacity(Cursor::new(data.clone()), 8), "construct", "zerocopy")?;
            run_history(&mut ReaderDataInput::new(r), &data, &c.ops, &tag, false)?
        }
        "reader-mmapzc" => match MmapZeroCopyReader::new(File::open(hist_file(c.size)).expect("open")) {
            Ok(r) => run_history(&mut ReaderDataInput::new(r), &data, &c.ops, &tag, false)?,
            Err(_) => return Ok(Outcome::skip("input back end refused construction")),
        },
        other => panic!("unknown input back end {other}"),
    };
    Ok(if c.ops.is_empty() { Outcome::trivial(&format!("{tag}/empty-history")) } else { Outcome::pass(&format!("{tag}/{outcome}")) })
}

pub fn register(reg: &mut Registry) {
    reg.add(fam(
        "DataIO",
        "records of 1 item (5 u8, 7 u16, 8 u32, 8 u64, 47 varints, length-prefixed bytes/strings of byte length {0,1,127,128,16383,16384} x content kinds, raw bytes/strings, skip {0,1,8192,8193}), all ordered pairs of 12 representative items, and one 15-item record; x 11 output back ends (Vec, std::io::Write over Vec/File, FileDataOutput create and create+append, MemoryMappedOutput initial size {0,1,4096}, StreamBufferedWriter B=2, ZeroCopyWriter cap 8, RangeWriter) x 10 input back ends (slice, std::io::Read over Cursor/File, MmapDataInput, MemoryMappedInput exact and padded >4 KiB, RangeReader, StreamBufferedReader B=2, ZeroCopyReader cap 8, MmapZeroCopyReader); quick: out x {slice} ∪ {vec} x in ∪ 6 diagonal pairs, thorough: full product",
        gen_io,
        run_io,
    ));
    reg.add(fam(
        "MemoryMappedInput",
        "file sizes straddling the 4 KiB (buffered/mmap) and 1 MiB (hugepage) strategy thresholds x 4 access patterns x positions {0,1,mid,size-8,size-1,size,size+1} x lengths {0,1,2,8,4096,8193}: seek, peek_slice(_zero_copy), read_slice(_zero_copy), read_u64, skip+read_u8",
        gen_mm,
        run_mm,
    ));
    reg.add(fam(
        "DataInput/histories",
        "one input object per case, 9 back ends (slice, std::io::Read over Cursor/File, MmapDataInput, MemoryMappedInput over files of 40 / 4096 (buffered I/O) / 4097 (mapped) bytes, RangeReader, StreamBufferedReader B=2, ZeroCopyReader cap 8, MmapZeroCopyReader) x every sequence of <=3 (thorough 4) operations from {read_u8, read_u16, read_u32, read_var_int, read_bytes(3), read_vec(2), skip(0|1|3)} over a 40-byte and a 5-byte input (most histories run out of bytes there: refused operations) whose neighbouring bytes all differ; + 3 scripts with skips of 8192/8193/10 000/16 385 bytes between reads over inputs of 20 000 and 1 MiB + 77 bytes; after every operation position(); at the end the rest of the input is read and compared",
        gen_hist,
        run_hist,
    ));
    reg.add(fam(
        "MemoryMappedInput/histories",
        "file sizes {0, 7, 4096 (buffered I/O), 4097, 70 000 (mapping), 1 MiB + 77 (hugepage candidate)} x every sequence of <=3 (thorough 4) operations from {read_u8, read_u32, read_slice(3), read_slice_zero_copy(2), peek_slice(4), peek_slice_zero_copy(2), skip(2|0), seek(0|1|size/2|size-3|size)} on one object; position() after every operation, refused operations do not move, the rest of the file is read at the end",
        gen_mmhist,
        run_hist,
    ));
    reg.add(fam(
        "MemoryMappedOutput",
        "initial size {0,1,2,16,4096} x all sequences of <=3 writes of {0,1,2,15,16,17,5000} bytes, with/without seek-overwrite + reopen; flush, truncate, file content",
        gen_mo,
        run_mo,
    ));
}
